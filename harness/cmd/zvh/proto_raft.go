package main

// Protocol `raft` (C01/C02/C03, fixed membership): run-time refinement certificate + implementation oracle.
//
// 1..5 REAL raft.Node instances (github.com/youzan/ZanRedisDB/raft) on MemoryStorage are single-stepped
// in this goroutine (enqueue one stimulus, StepNode, persist the Ready into the storage object, release
// its messages into the pool, Advance). Every op line is one schedule event; the answer line carries
//
//	a=<abstract actions of this event, in order>   vocabulary of Z.RaftAbs.Action (lean/ZanVerif/Raft/ExecCore.lean)
//	s=<observable state of every real node>        id:term:role:commit:off:entries:v<vote>:d<dterm>.<dvote>.<dcommit>
//	                                               (or id= when unchanged); vote = the volatile r.Vote (0 = none);
//	                                               d... = the HardState that REALLY is in the storage object after the
//	                                               event (read back with Storage.InitialState; dcommit as abstract index)
//
// and the Lean driver (lean/Driver/Raft.lean, certificate mode) folds the proven-sound `apply` over the
// actions and compares the abstract nodes with the reported real ones - including whom the node has voted
// for in its current term (abstract: itself if it campaigned in that term, else the candidate of its recorded
// `grant`, else nobody) and the durable (term, vote, commit) (abstract: dterm, the flushed campaign / grant of
// that term, dcommit). `flush j` is emitted for every persisted-and-released Ready whatever it contains; that
// the Ready really carried what had to be persisted (the vote!) is what the comparison of d... checks.
//
// Bootstrap / index mapping. Every node starts (RestartNode) from a MemoryStorage that holds what a
// StartNode-bootstrapped group holds after applying and compacting its bootstrap entries: a snapshot
// (index B = number of peers, term 1, ConfState = the fixed voters/learners) and HardState{Term 1, Commit B}.
// Abstract index k = real index B+k, abstract commit = real commit - B; the abstract initial state (term 0,
// empty logs) is advanced by `bump j 1; flush j` for every node in the answer of the cfg line. The term
// of the real offset entry is 1 where the abstract termAt(_,0) is 0; because every real entry has a term
// >= 1 the up-to-date comparison gives the same verdicts (checked by the certificate itself).
//
// Event table (real event -> abstract actions), see DESIGN.md §7 C02 K "second tie":
//
//	state becomes Candidate in a higher term (tick/hup/MsgTimeoutNow/pre-vote quorum) -> campaign j t
//	deliver MsgVote, granted response in the Ready                                    -> grant j t c
//	state becomes Leader                                        -> becomeLeader j t Q  (Q = granted votes held)
//	leader's log grew (beyond the no-op of becomeLeader)        -> propose j d   per entry
//	leader's commit advanced                                    -> commitLeader j k Q (Q = {p | Match[p] >= k})
//	deliver MsgApp: non-reject response, m.Index < committed    -> ackStale j m ; else -> recvApp j m
//	deliver MsgSnap: Ready carries the snapshot                 -> restore j m ; index < committed -> ackStale ; else recvApp (fast-forward)
//	deliver MsgHeartbeat (answered) with abstract commit > 0    -> recvHb j h
//	every MsgApp / MsgSnap / MsgHeartbeat(commit>0) in the Ready -> sendApp / sendApp(prev=i,n=0,cm=i) / sendHb
//	term rose without any of the above                          -> bump j t
//	role fell back to follower/pre-candidate in the same term   -> restart j
//	Ready persisted and released                                -> flush j
//	node dropped and restarted from its storage object          -> crash j
//
// Pre-vote traffic, rejects, Progress changes, transfer bookkeeping, forwarded proposals are stutter steps.
// A heartbeat whose abstract commit is 0 (the peer has confirmed nothing above the bootstrap offset in this
// term) is not an abstract heartbeat (`sendHb` needs a sent ack of the peer): it only carries the term, so its
// delivery shows as bump / restart / nothing. A snapshot exactly at the receiver's commit index is `recvApp`
// of the empty message (ackStale needs prev < commit); both have the same effect.
// k=<from,term,index;...> lists the non-reject MsgAppResp released by the event; the driver checks that each
// is an ack recorded by the abstract run (what the leader's Match will later be justified with).
//
// Op lines (any sequence is executable; nodes and pool positions are taken modulo the current sizes):
//
//	cfg v=<voters 1..5> l=<learners> pv=0|1 cq=0|1 et=<election ticks> ht=<heartbeat ticks> ms=<MaxSizePerMsg>
//	    mc=<MaxCommittedSizePerReady> mi=<MaxInflightMsgs> sv=0|1|2 seed=<election-timeout PRNG>     new session
//	tick n | hup n | prop n | xfer n m      tick / Campaign / Propose(next counter value) / TransferLeadership(n's leader -> m)
//	del k | dup k | drop k                  deliver pool[k] and remove it / deliver and keep it (duplicate) / lose it;
//	                                        `del` on an empty pool is `tick k`
//	delp f t y | dupp f t y                 deliver (and remove / keep) the NEWEST pool message from node f to node t of
//	                                        kind y (0 any, 1 MsgVote, 2 MsgVoteResp, 3 MsgPreVote, 4 MsgPreVoteResp, 5 MsgApp,
//	                                        6 MsgAppResp, 7 MsgHeartbeat, 8 MsgHeartbeatResp); nothing happens if there is none
//	crash n                                 drop the Node, RestartNode on the same storage object (Applied = 0)
//	snap n back                             CreateSnapshot + Compact of n's storage at applied-back (stable entries only)
//	delx k                                  like del, but a MsgSnap is lost at the receiver instead of delivered
//	snaprep n m 0|1                         ReportSnapshot(m, Finish|Failure) on node n (what the transport tells the sender)
//	iso n | isol n | heal                   cut node n (isol: the current leader) off: traffic from/to it is lost; heal all
//	tickall                                 one tick on every node (id order) - time passes everywhere, leases expire
//	mark m n                                no event: the generator announces a directed vote schedule of kind m around voter n
//	                                        (coverage accounting only: which kinds reach the grant without a term change)
//	... cr=0|a|e<k>|h|s  (suffix of tick/hup/prop/xfer/del/dup) crash inside the Ready of this event:
//	    0  nothing persisted, nothing sent                                   -> created actions, crash j
//	    a  everything persisted, nothing sent                                -> created actions, flush j, crash j
//	    e<k> first k entries persisted, hard state not (WAL torn tail, §9 F15) -> see tornActs; suspended when it has no image
//	    h  = a for a Ready without entries; with entries: excluded (hard state durable before its entries breaks the
//	       storage contract: the restarted node hands out stale entries below the durable commit index), counted
//	    s  a leader's Ready made only of appends/snapshots/heartbeats is SENT, then the node crashes before the
//	       persist (node/raft.go sends before persisting in the Ready in which it became leader, C03 (d2))
//	A snapshot made durable without the hard state covering it (RestartNode then panics in loadState) is excluded, counted.
//
// Single-voter groups (sv): the node campaigns, wins, appends, commits and hands out in ONE StepNode, before
// anything is durable; `apply` rejects becomeLeader (campaign not sent) and commitLeader (self-ack not sent).
// sv=1 (default) places `flush j` before those two actions inside the event - justified only for an application
// that keeps the Ready contract (persist Entries/HardState before acting on CommittedEntries), as this harness
// does and node/raft.go does not (§9 F1, §7 C03 (d3)-(d5)); sv=0 emits the actions as they are (rejected: the
// finding), sv=2 excludes single-voter sessions from the certificate (oracle only). Generator: env ZV_RAFT_SV.

import (
	"context"
	"fmt"
	"hash/fnv"
	"math/rand"
	"os"
	"sort"
	"strconv"
	"strings"

	"github.com/youzan/ZanRedisDB/raft"
	pb "github.com/youzan/ZanRedisDB/raft/raftpb"
)

func init() {
	register(&Proto{Name: "raft", Gen: genRaft, New: newRaftProto})
}

// ---------------------------------------------------------------------------------------------
// generator

func genRaft(rng *rand.Rand, tier string, emit func(string)) {
	sessions, maxEv := 64, 300
	if tier == "thorough" {
		sessions, maxEv = 600, 800
	}
	svMode := os.Getenv("ZV_RAFT_SV") // single-voter groups: "1" (default) | "0" strict | "2" excluded from the certificate
	if svMode != "0" && svMode != "2" {
		svMode = "1"
	}
	for s := 0; s < sessions; s++ {
		v := []int{3, 3, 3, 3, 3, 5, 5, 2, 4, 1}[rng.Intn(10)]
		l := 0
		if rng.Intn(5) == 0 && v < 5 {
			l = 1
		}
		ms := []uint64{0, 40, 1 << 20, 1 << 20}[rng.Intn(4)]
		mc := []uint64{0, 30, 1 << 20}[rng.Intn(3)]
		mi := []int{1, 2, 8, 8}[rng.Intn(4)]
		et := 4 + rng.Intn(5)
		pv, cq := rng.Intn(2), rng.Intn(2)
		emit(fmt.Sprintf("cfg v=%d l=%d pv=%d cq=%d et=%d ht=1 ms=%d mc=%d mi=%d sv=%s seed=%d",
			v, l, pv, cq, et, ms, mc, mi, svMode, rng.Intn(1<<30)))
		total := maxEv/2 + rng.Intn(maxEv-maxEv/2+1)
		N := v + l
		left := total
		out := func(format string, a ...interface{}) {
			if left > 0 {
				emit(fmt.Sprintf(format, a...))
				left--
			}
		}
		crashy := 0 // per-mille probability of a crash inside the Ready of a stimulus
		cr := func() string {
			if rng.Intn(1000) >= crashy {
				return ""
			}
			switch rng.Intn(10) {
			case 8, 9:
				return " cr=s"
			case 0, 1:
				return " cr=0"
			case 2, 3:
				return " cr=a"
			case 4, 5:
				return fmt.Sprintf(" cr=e%d", 1+rng.Intn(3))
			}
			return " cr=h"
		}
		del := func(reorder int) {
			k := 0
			if rng.Intn(100) < reorder {
				k = rng.Intn(1 << 16)
			}
			out("del %d%s", k, cr())
		}
		// mix: weights of del / tick / prop / hup / dup / drop / crash, out of 100 (rest: del)
		mix := func(n, reorder, wTick, wProp, wHup, wDup, wDrop, wCrash int) {
			for i := 0; i < n; i++ {
				x := rng.Intn(100)
				switch {
				case x < wTick:
					out("tick %d%s", rng.Intn(N), cr())
				case x < wTick+wProp:
					out("prop %d%s", rng.Intn(N), cr())
				case x < wTick+wProp+wHup:
					out("hup %d%s", rng.Intn(N), cr())
				case x < wTick+wProp+wHup+wDup:
					out("dup %d%s", rng.Intn(1<<16), cr())
				case x < wTick+wProp+wHup+wDup+wDrop:
					out("drop %d", rng.Intn(1<<16))
				case x < wTick+wProp+wHup+wDup+wDrop+wCrash:
					out("crash %d", rng.Intn(N))
				default:
					del(reorder)
				}
			}
		}
		// voteRace: directed schedules around "one vote per node and term" (C01). A voter A is brought into a term T
		// WITHOUT voting in it (so that its later grant changes nothing but the vote: no term bump in that Ready),
		// optionally made a pre-candidate, then the MsgVote of two candidates of term T reach it one after the other,
		// optionally with a crash / restart in between (the second one must be refused - from memory or from storage).
		// The generator knows no state: node roles are picked blindly, messages are picked by (from, to, kind) with
		// `delp`, which does nothing when there is no such message - every line stays executable after shrinking.
		const (
			kVote = 1 + iota
			kVoteResp
			kPreVote
			kPreVoteResp
			kApp
			kAppResp
			kHb
		)
		voteRace := func() {
			perm := rng.Perm(v)
			a, c1, c2 := perm[0], perm[1%v], perm[2%v]
			var others []int // voters that are neither the voter under test nor a candidate
			if v > 3 {
				others = perm[3:]
			}
			maybe := func(p int) bool { return rng.Intn(100) < p }
			dp := func(f, t, y int, sfx string) {
				if maybe(4) { // a step is lost / something else happens first
					if maybe(50) {
						del(50)
					}
					return
				}
				out("delp %d %d %d%s", f, t, y, sfx)
			}
			without := func(xs ...int) []int {
				var r []int
			next:
				for _, p := range perm {
					for _, x := range xs {
						if p == x {
							continue next
						}
					}
					r = append(r, p)
				}
				return r
			}
			// c asks the voters ps for their (pre-)vote, each answer is delivered
			ask := func(c, y int, ps []int) {
				for _, p := range ps {
					dp(c, p, y, "")
					dp(p, c, y+1, "")
				}
			}
			timeout := func(n int) { // the node starts an election: Campaign, or its election timer fires
				if maybe(70) {
					out("hup %d", n)
				} else {
					for i := 0; i < 2*et; i++ {
						out("tick %d", n)
					}
				}
			}
			// which way A gets into the term without voting; the ways depend on pre-vote / check-quorum (a way that does
			// not fit the configuration is still tried now and then: it must be harmless)
			var mode int
			switch x := rng.Intn(100); {
			case x < 8:
				mode = rng.Intn(4)
			case pv == 1:
				mode = []int{0, 0, 0, 0, 1, 1, 1, 2, 2, 3}[x%10]
			case cq == 1:
				mode = []int{2, 2, 2, 2, 2, 1, 1, 1, 1, 3}[x%10]
			default:
				mode = []int{3, 3, 3, 3, 3, 1, 1, 1, 1, 1}[x%10]
			}
			out("mark %d %d", mode, a)
			second := c2 // the candidate whose MsgVote reaches A second
			first := c1
			leaderFirst := func() { // A becomes leader of some term T0 and (maybe) replicates its empty entry
				out("hup %d", a)
				if pv == 1 {
					ask(a, kPreVote, without(a))
				}
				ask(a, kVote, without(a))
				for _, p := range without(a) {
					if maybe(80) {
						dp(a, p, kApp, "")
						if maybe(50) {
							dp(p, a, kAppResp, "")
						}
					}
				}
			}
			twoCandidates := func() { // c1 and c2 campaign for the same term; nobody wins without A
				out("hup %d", c1)
				out("hup %d", c2)
				if pv == 1 { // they (and the others) grant each other's pre-vote
					ask(c1, kPreVote, without(a, c1))
					ask(c2, kPreVote, without(a, c2))
				}
				for i, o := range others { // the other voters split
					ask([]int{c1, c2}[i%2], kVote, []int{o})
				}
			}
			switch mode {
			case 0: // A learns the term from the rejection of its own pre-vote (pre-vote on)
				twoCandidates()
				timeout(a)
				dp(a, c1, kPreVote, "")
				dp(c1, a, kPreVoteResp, "")
			case 1: // c1 wins term T with the others' votes, A learns T from c1's append / heartbeat (lead = c1: it refuses
				// every MsgVote of T), restarts (lead forgotten) and then gets the old MsgVote of c1 and of a competitor
				out("hup %d", c1)
				comp := v >= 5 && maybe(60)
				if comp {
					out("hup %d", c2)
				}
				if pv == 1 {
					ask(c1, kPreVote, without(a, c1))
					if comp {
						ask(c2, kPreVote, without(a, c2))
					}
				}
				if comp {
					ask(c1, kVote, others)
				} else {
					ask(c1, kVote, without(a, c1))
				}
				if maybe(25) { // (an append makes A's log longer than what the old requests offer: they are refused for that)
					dp(c1, a, kApp, "")
				} else {
					out("tick %d", c1)
					dp(c1, a, kHb, "")
				}
				if maybe(40) { // refused while A follows c1
					out("dupp %d %d %d", c1, a, kVote)
					dp(a, c1, kVoteResp, "")
				}
				out("crash %d", a)
				if maybe(50) {
					first, second = c2, c1
				}
			case 2: // A leads an older term; a heartbeat of A is answered with the higher term of a candidate (checkQuorum / pre-vote on)
				leaderFirst()
				twoCandidates()
				out("tick %d", a)
				dp(a, c1, kHb, "")
				dp(c1, a, kAppResp, "")
			case 3: // A leads an older term; the MsgVote of a candidate with a stale log bumps A's term and is refused, then
				// the MsgVote of an up-to-date candidate of the same term arrives (pre-vote off, no lease)
				leaderFirst()
				for i := 1 + rng.Intn(3); i > 0; i-- {
					out("prop %d", a)
					dp(a, c2, kApp, "")
					dp(c2, a, kAppResp, "")
				}
				dp(a, c2, kApp, "")
				out("hup %d", c1)
				out("hup %d", c2)
				if pv == 1 {
					ask(c1, kPreVote, without(a, c1))
					ask(c2, kPreVote, without(a, c2))
				}
				out("dupp %d %d %d", c1, a, kVote) // refused: stale log; A is in the new term now
			}
			// A may be a pre-candidate of its term when the requests arrive (pre-vote on; with pre-vote off it moves on to the next term)
			if (pv == 1 && maybe(60)) || maybe(10) {
				timeout(a)
			}
			sfx := []string{"", "", "", "", " cr=a", " cr=0"}[rng.Intn(6)] // the voter may crash inside the Ready of its grant
			dp(first, a, kVote, sfx)
			early := maybe(50)
			if early {
				dp(a, first, kVoteResp, "")
			}
			if sfx == "" && maybe(50) {
				out("crash %d", a) // ... or between the two deliveries
			}
			if (pv == 1 && maybe(40)) || maybe(5) {
				timeout(a)
			}
			if maybe(30) {
				out("dupp %d %d %d", second, a, kVote)
				dp(a, second, kVoteResp, "")
				if maybe(50) {
					out("crash %d", a)
				}
			}
			dp(second, a, kVote, "")
			dp(a, second, kVoteResp, "")
			if !early {
				dp(a, first, kVoteResp, "")
			}
			if maybe(30) { // the first request once more (repeat of a vote already cast)
				dp(first, a, kVote, "")
				dp(a, first, kVoteResp, "")
			}
		}
		if v >= 3 && rng.Intn(3) == 0 {
			voteRace() // from the initial state: nobody has voted, all logs equal
		} else {
			out("hup %d", rng.Intn(N))
		}
		mix(10+rng.Intn(15), 10, 5, 10, 0, 0, 0, 0)
		for left > 0 {
			n := 10 + rng.Intn(40)
			crashy = 0
			switch rng.Intn(14) {
			case 12, 13: // one vote per node and term, from whatever state the session is in
				voteRace()
				mix(n/2, 10, 10, 10, 0, 0, 0, 0)
			case 0: // steady replication
				mix(n, 20, 12, 22, 1, 2, 1, 0)
			case 1, 2, 8, 9: // election storm, possibly with an isolated node (often the leader: the generator cannot know)
				switch rng.Intn(4) {
				case 0:
					out("iso %d", rng.Intn(N))
				case 1:
				default:
					out("isol %d", rng.Intn(N))
				}
				for r := 0; r < 2*et+2; r++ { // time passes everywhere: leases expire, somebody times out
					out("tickall")
					for rng.Intn(3) > 0 {
						del(30)
					}
				}
				mix(n/3, 30, 20, 15, 3, 2, 2, 0)
				out("heal")
				mix(n/3, 10, 10, 20, 0, 0, 0, 0)
			case 3, 10: // a node falls behind, everybody compacts, it comes back: MsgSnap
				out("iso %d", rng.Intn(N))
				mix(n, 10, 10, 35, 0, 0, 0, 0)
				mix(10, 0, 10, 0, 0, 0, 0, 0)
				for i := 0; i < N; i++ {
					out("snap %d %d", i, rng.Intn(2))
				}
				out("heal")
				if rng.Intn(2) == 0 {
					// the snapshot transfer is reported as finished/failed at arbitrary instants, delivered or not
					mix(4+rng.Intn(8), 10, 30, 0, 0, 0, 20, 0)
					for i := 0; i < N; i++ {
						for j := 0; j < N; j++ {
							if i != j && rng.Intn(2) == 0 {
								out("snaprep %d %d %d", i, j, rng.Intn(4)/3)
							}
						}
					}
				}
				mix(n, 10, 25, 5, 0, 1, 0, 0)
			case 11: // a snapshot that is lost at the receiver but reported as transferred: the follower must not be counted
				fl := rng.Intn(N)
				out("iso %d", fl)
				if rng.Intn(2) == 0 { // the cut-off node is (maybe) an old leader with unreplicated entries
					out("prop %d", fl)
					out("prop %d", fl)
				}
				for r := 0; r < 2*et+2; r++ {
					out("tickall")
					for rng.Intn(3) > 0 {
						del(30)
					}
				}
				mix(n, 10, 10, 40, 0, 0, 0, 0)
				mix(10, 0, 10, 0, 0, 0, 0, 0)
				for i := 0; i < N; i++ {
					out("snap %d 0", i)
				}
				out("heal")
				for r := 0; r < 7; r++ {
					out("tickall")
					for j := 0; j < 2*N; j++ {
						out("delx 0")
					}
				}
				for i := 0; i < N; i++ {
					if i != fl {
						out("snaprep %d %d 0", i, fl)
					}
				}
				for r := 0; r < 2; r++ {
					out("tickall")
					for j := 0; j < 2*N; j++ {
						out("delx 0")
					}
				}
				mix(n/2, 10, 20, 10, 0, 0, 0, 0)
			case 4: // crashes between events and inside Readies
				crashy = 60
				mix(n, 25, 15, 18, 2, 3, 2, 6)
			case 5: // leadership transfer
				out("xfer %d %d", rng.Intn(N), rng.Intn(N))
				mix(n/2, 10, 8, 10, 0, 0, 0, 0)
			case 6: // heavy reordering, duplication and loss
				crashy = 10
				mix(n, 100, 12, 15, 2, 15, 6, 1)
			case 7: // compaction while running
				out("snap %d %d", rng.Intn(N), rng.Intn(3))
				mix(n/2, 20, 12, 22, 1, 2, 1, 0)
			}
		}
	}
}

// ---------------------------------------------------------------------------------------------
// executor

type quietLogger struct{}

func (quietLogger) Debug(v ...interface{})                   {}
func (quietLogger) Debugf(format string, v ...interface{})   {}
func (quietLogger) Error(v ...interface{})                   {}
func (quietLogger) Errorf(format string, v ...interface{})   {}
func (quietLogger) Info(v ...interface{})                    {}
func (quietLogger) Infof(format string, v ...interface{})    {}
func (quietLogger) Warning(v ...interface{})                 {}
func (quietLogger) Warningf(format string, v ...interface{}) {}
func (quietLogger) Fatal(v ...interface{})                   { panic("raft fatal: " + fmt.Sprint(v...)) }
func (quietLogger) Fatalf(format string, v ...interface{}) {
	panic("raft fatal: " + fmt.Sprintf(format, v...))
}
func (quietLogger) Panic(v ...interface{}) { panic("raft panic: " + fmt.Sprint(v...)) }
func (quietLogger) Panicf(format string, v ...interface{}) {
	panic("raft panic: " + fmt.Sprintf(format, v...))
}

type rnode struct {
	id      uint64
	n       raft.Node
	st      *raft.MemoryStorage
	learner bool
	iso     bool
	applied uint64 // oracle: last index handed out (or covered by a handed-out snapshot) since the last (re)start
	last    string // last reported state (for the id= abbreviation)
	epoch   int    // number of (re)starts of the Node object
}

// voteKey / voteRec: oracle bookkeeping of the votes that LEFT a node (granted MsgVoteResp released, or the
// MsgVote of its own campaign released = the vote for itself), per (node, term), across crashes.
type voteKey struct {
	node, term uint64
}

type voteRec struct {
	cand  uint64
	epoch int // restart epoch of the voter when the vote left it
}

type entKey struct {
	term uint64
	data string
}

type commitRec struct {
	term    uint64 // term of the entry
	repTerm uint64 // smallest term of a node at the time it reported the index committed
	by      uint64
}

type rsess struct {
	c             *Ctx
	v, l          int
	pv, cq        bool
	et, ht, mi    int
	ms, mc        uint64
	sv            int // single-voter groups: 1 = flush placed before becomeLeader/commitLeader inside the event, 0 = strict (rejected), 2 = excluded
	B             uint64
	nodes         []*rnode
	pool          []pb.Message
	ctr           uint64
	suspended     bool // certificate suspended for the rest of the session (torn persist / excluded configuration)
	suspendWhy    string
	ackOut        []string // k= field of the next answer: non-reject MsgAppResp (from,term,abstract index) released by this event
	cs            pb.ConfState
	leaderOf      map[uint64]uint64
	votedIn       map[voteKey]voteRec
	vrMode        int    // kind of the directed vote schedule announced last (`mark`), -1 = none
	vrNode        uint64 // its voter
	handed        map[uint64]entKey
	commits       map[uint64]commitRec
	maxCommit     uint64
	leaders       int // distinct (term, leader) pairs seen
	flagElected   bool
	flagChanged   bool
	flagCommitted bool
	flagSnap      bool
	flagRestore   bool
	flagCrash     bool
	flagDup       bool
	flagXfer      bool
	flagPartial   bool
}

func newRaftProto(c *Ctx) func(string) string {
	var s *rsess
	return func(line string) string {
		f := strings.Fields(line)
		if len(f) == 0 {
			return "bad-op"
		}
		if f[0] == "cfg" {
			s = nil
			ns, err := newSess(c, f[1:])
			if err != nil {
				return "bad-cfg " + err.Error()
			}
			s = ns
			c.Note("sessions")
			c.Note(fmt.Sprintf("cfg:v=%d,l=%d", s.v, s.l))
			c.Note(fmt.Sprintf("cfg:pv=%v,cq=%v", s.pv, s.cq))
			if s.v == 1 && s.sv == 2 {
				s.suspend("single-voter-group-excluded")
			}
			var acts []string
			for _, nd := range s.nodes {
				acts = append(acts, fmt.Sprintf("bump,%d,1", nd.id), fmt.Sprintf("flush,%d", nd.id))
			}
			return s.answer(acts)
		}
		if s == nil {
			return "no-session"
		}
		defer func() {
			if r := recover(); r != nil { // a node that panicked is in no defined state: the session ends here
				s = nil
				panic(r)
			}
		}()
		return s.event(f)
	}
}

func kv(f []string) map[string]string {
	m := map[string]string{}
	for _, x := range f {
		if i := strings.IndexByte(x, '='); i > 0 {
			m[x[:i]] = x[i+1:]
		}
	}
	return m
}

func newSess(c *Ctx, f []string) (*rsess, error) {
	m := kv(f)
	geti := func(k string, def int) int {
		if v, ok := m[k]; ok {
			n, err := strconv.ParseUint(v, 10, 63)
			if err == nil {
				return int(n)
			}
		}
		return def
	}
	s := &rsess{c: c, v: geti("v", 3), l: geti("l", 0), pv: geti("pv", 0) == 1, cq: geti("cq", 0) == 1,
		et: geti("et", 6), ht: geti("ht", 1), mi: geti("mi", 8), ms: uint64(geti("ms", 1<<20)), mc: uint64(geti("mc", 0)),
		sv: geti("sv", 1), vrMode: -1,
		leaderOf: map[uint64]uint64{}, votedIn: map[voteKey]voteRec{}, handed: map[uint64]entKey{}, commits: map[uint64]commitRec{}}
	if s.v < 1 || s.v > 5 || s.l < 0 || s.v+s.l > 6 || s.ht < 1 || s.et <= s.ht || s.et > 50 || s.mi < 1 {
		return nil, fmt.Errorf("out of range")
	}
	raft.VerifSeedRand(int64(geti("seed", 1)))
	N := s.v + s.l
	s.B = uint64(N)
	for i := 1; i <= N; i++ {
		g := &pb.Group{NodeId: uint64(i), Name: "g", GroupId: 7, RaftReplicaId: uint64(i)}
		if i <= s.v {
			s.cs.Nodes = append(s.cs.Nodes, uint64(i))
			s.cs.Groups = append(s.cs.Groups, g)
		} else {
			s.cs.Learners = append(s.cs.Learners, uint64(i))
			s.cs.LearnerGroups = append(s.cs.LearnerGroups, g)
		}
	}
	for i := 1; i <= N; i++ {
		nd := &rnode{id: uint64(i), st: raft.NewRealMemoryStorage(), learner: i > s.v}
		if err := nd.st.ApplySnapshot(pb.Snapshot{Metadata: pb.SnapshotMetadata{Index: s.B, Term: 1, ConfState: s.cs}}); err != nil {
			return nil, err
		}
		nd.st.SetHardState(pb.HardState{Term: 1, Commit: s.B})
		s.nodes = append(s.nodes, nd)
		s.start(nd)
	}
	return s, nil
}

func (s *rsess) config(nd *rnode) *raft.Config {
	return &raft.Config{ID: nd.id, ElectionTick: s.et, HeartbeatTick: s.ht, Storage: nd.st, MaxSizePerMsg: s.ms,
		MaxCommittedSizePerReady: s.mc, MaxInflightMsgs: s.mi, CheckQuorum: s.cq, PreVote: s.pv, Logger: quietLogger{},
		Group: pb.Group{NodeId: nd.id, Name: "g", GroupId: 7, RaftReplicaId: nd.id}}
}

// start (re)creates the Node from its storage object and consumes the first, stimulus-free Ready
// (it carries the reloaded HardState and re-hands-out committed entries above the snapshot).
func (s *rsess) start(nd *rnode) {
	if nd.n != nil {
		nd.n.Stop()
	}
	nd.n = raft.RestartNode(s.config(nd))
	nd.epoch++
	sn, _ := nd.st.Snapshot()
	nd.applied = sn.Metadata.Index
	if rd, ok := nd.n.StepNode(true, false); ok {
		if len(rd.Messages) != 0 || len(rd.Entries) != 0 || !raft.IsEmptySnap(rd.Snapshot) {
			s.c.Violation("harness-assumption", fmt.Sprintf("first Ready after restart of %d is not passive", nd.id))
		}
		s.persist(nd, rd, -1, true)
		s.oracleReady(nd, rd)
		nd.n.Advance(rd)
	}
}

// persist writes (snapshot, entries[:nEnts], hardstate?) of a Ready into the storage object, in that order.
func (s *rsess) persist(nd *rnode, rd raft.Ready, nEnts int, hard bool) {
	if !raft.IsEmptySnap(rd.Snapshot) {
		nd.st.ApplySnapshot(rd.Snapshot)
	}
	ents := rd.Entries
	if nEnts >= 0 && nEnts < len(ents) {
		ents = ents[:nEnts]
	}
	if len(ents) > 0 {
		cp := make([]pb.Entry, len(ents))
		for i, e := range ents {
			cp[i] = e
			cp[i].Data = append([]byte(nil), e.Data...)
		}
		nd.st.Append(cp)
	}
	if hard && !raft.IsEmptyHardState(rd.HardState) {
		nd.st.SetHardState(rd.HardState)
	}
}

func dataOf(b []byte) uint64 {
	if len(b) == 0 {
		return 0
	}
	if n, err := strconv.ParseUint(string(b), 10, 40); err == nil && n > 0 {
		return n
	}
	h := fnv.New32a()
	h.Write(b)
	return 1<<40 + uint64(h.Sum32())
}

func (s *rsess) abs(i uint64) uint64 {
	if i <= s.B {
		return 0
	}
	return i - s.B
}

func roleOf(st raft.StateType) byte {
	switch st {
	case raft.StateCandidate:
		return 'C'
	case raft.StateLeader:
		return 'L'
	}
	return 'F' // follower and pre-candidate
}

func entsStr(ents []pb.Entry, sep string) string {
	if len(ents) == 0 {
		return "-"
	}
	var b strings.Builder
	for i, e := range ents {
		if i > 0 {
			b.WriteString(sep)
		}
		fmt.Fprintf(&b, "%d:%d", e.Term, dataOf(e.Data))
	}
	return b.String()
}

func (s *rsess) stateOf(nd *rnode) string {
	v := raft.VerifState(nd.n)
	ents := raft.VerifLogEntries(nd.n)
	if uint64(len(ents)) != v.LastIndex+1-v.FirstIndex {
		s.c.Violation("harness-assumption", fmt.Sprintf("node %d: %d entries for [%d,%d]", nd.id, len(ents), v.FirstIndex, v.LastIndex))
	}
	if v.FirstIndex-1 < s.B {
		s.c.Violation("harness-assumption", fmt.Sprintf("node %d: first index %d below the bootstrap offset", nd.id, v.FirstIndex))
	}
	// what REALLY is in the storage object (not what the harness believes it has written)
	hs, _, err := nd.st.InitialState()
	if err != nil {
		s.c.Violation("harness-assumption", fmt.Sprintf("node %d: InitialState: %v", nd.id, err))
	}
	if hs.Commit < s.B {
		s.c.Violation("harness-assumption", fmt.Sprintf("node %d: stored commit %d below the bootstrap offset", nd.id, hs.Commit))
	}
	return fmt.Sprintf("%d:%c:%d:%d:%s:v%d:d%d.%d.%d", v.Term, roleOf(v.State), s.abs(v.Committed), v.FirstIndex-1-s.B, entsStr(ents, "."),
		v.Vote, hs.Term, hs.Vote, s.abs(hs.Commit))
}

func (s *rsess) answer(acts []string) string {
	var b strings.Builder
	if s.suspended {
		b.WriteString("nocert ")
	}
	b.WriteString("a=")
	if len(acts) == 0 {
		b.WriteString("-")
	} else {
		b.WriteString(strings.Join(acts, ";"))
	}
	if len(s.ackOut) > 0 {
		b.WriteString(" k=" + strings.Join(s.ackOut, ";"))
		s.ackOut = nil
	}
	b.WriteString(" s=")
	for i, nd := range s.nodes {
		if i > 0 {
			b.WriteByte('|')
		}
		st := s.stateOf(nd)
		if st == nd.last {
			fmt.Fprintf(&b, "%d=", nd.id)
		} else {
			fmt.Fprintf(&b, "%d:%s", nd.id, st)
			nd.last = st
		}
	}
	return b.String()
}

func (s *rsess) suspend(why string) {
	if !s.suspended {
		s.suspended = true
		s.suspendWhy = why
		s.c.Note("cert-suspended:" + why)
	}
}

func cloneMsg(m pb.Message) pb.Message {
	b, err := m.Marshal()
	if err != nil {
		panic(err)
	}
	var c pb.Message
	if err := c.Unmarshal(b); err != nil {
		panic(err)
	}
	return c
}

func (s *rsess) event(f []string) string {
	arg := func(i int) int {
		if i < len(f) {
			if n, err := strconv.ParseUint(f[i], 10, 31); err == nil {
				return int(n)
			}
		}
		return 0
	}
	cr := ""
	for _, x := range f[1:] {
		if strings.HasPrefix(x, "cr=") {
			cr = x[3:]
		}
	}
	N := len(s.nodes)
	ctx := context.Background()
	switch f[0] {
	case "tick":
		nd := s.nodes[arg(1)%N]
		return s.cycle(nd, "tick", nil, func() { nd.n.Tick() }, cr)
	case "hup":
		nd := s.nodes[arg(1)%N]
		return s.cycle(nd, "hup", nil, func() { nd.n.Campaign(ctx) }, cr)
	case "prop":
		nd := s.nodes[arg(1)%N]
		s.ctr++
		data := []byte(strconv.FormatUint(s.ctr, 10))
		return s.cycle(nd, "prop", nil, func() { nd.n.Propose(ctx, data) }, cr)
	case "xfer":
		nd := s.nodes[arg(1)%N]
		to := s.nodes[arg(2)%N]
		lead := raft.VerifState(nd.n).Lead
		if lead == 0 {
			s.c.Note("xfer-no-leader")
			return s.answer(nil)
		}
		return s.cycle(nd, "xfer", nil, func() { nd.n.TransferLeadership(ctx, lead, to.id) }, cr)
	case "snaprep":
		// the transport reports the outcome of a snapshot transfer to the sender (transport/rafthttp reports
		// SnapshotFinish once the HTTP post succeeded - whether or not the receiver's raft ever handles the
		// message); in the abstraction a pure Progress change (stutter) followed by whatever the leader sends
		nd := s.nodes[arg(1)%N]
		to := s.nodes[arg(2)%N]
		st := raft.SnapshotFinish
		if arg(3)%2 == 1 {
			st = raft.SnapshotFailure
		}
		s.c.Note("snaprep")
		gp := pb.Group{NodeId: to.id, Name: "g", GroupId: 7, RaftReplicaId: to.id}
		return s.cycle(nd, "snaprep", nil, func() { nd.n.ReportSnapshot(to.id, gp, st) }, cr)
	case "delx": // like del, but a snapshot message is lost at the receiver (its transfer may still be reported as finished)
		if len(s.pool) > 0 {
			k := arg(1) % len(s.pool)
			if s.pool[k].Type == pb.MsgSnap {
				s.pool = append(s.pool[:k:k], s.pool[k+1:]...)
				s.c.Note("snapshot-lost-at-receiver")
				return s.answer(nil)
			}
		}
		f[0] = "del"
		return s.event(f)
	case "del", "dup":
		if len(s.pool) == 0 { // nothing in flight: let time pass instead
			s.c.Note("deliver-empty-pool->tick")
			nd := s.nodes[arg(1)%N]
			return s.cycle(nd, "tick", nil, func() { nd.n.Tick() }, cr)
		}
		k := arg(1) % len(s.pool)
		m := s.pool[k]
		if f[0] == "del" {
			s.pool = append(s.pool[:k:k], s.pool[k+1:]...)
		} else {
			s.c.Note("dup-delivery")
			s.flagOnce(&s.flagDup, "sessions-with-duplicate-delivery")
		}
		if m.To == 0 || int(m.To) > N || m.From == 0 || int(m.From) > N {
			s.c.Note("msg-to-nobody")
			return s.answer(nil)
		}
		nd := s.nodes[m.To-1]
		if nd.iso || s.nodes[m.From-1].iso {
			s.c.Note("lost-by-partition")
			return s.answer(nil)
		}
		mc := cloneMsg(m)
		s.c.Note("deliver:" + m.Type.String())
		return s.cycle(nd, "recv", &mc, func() { nd.n.Step(ctx, mc) }, cr)
	case "delp", "dupp": // targeted delivery: the newest message from node f to node t of kind y
		from, to := s.nodes[arg(1)%N].id, s.nodes[arg(2)%N].id
		kinds := []pb.MessageType{0, pb.MsgVote, pb.MsgVoteResp, pb.MsgPreVote, pb.MsgPreVoteResp, pb.MsgApp, pb.MsgAppResp,
			pb.MsgHeartbeat, pb.MsgHeartbeatResp}
		y := arg(3) % len(kinds)
		k := -1
		for i := len(s.pool) - 1; i >= 0; i-- {
			if x := s.pool[i]; x.From == from && x.To == to && (y == 0 || x.Type == kinds[y]) {
				k = i
				break
			}
		}
		if k < 0 {
			s.c.Note("delp-none")
			return s.answer(nil)
		}
		s.c.Note("delp-hit")
		if f[0] == "delp" {
			f[0] = "del"
		} else {
			f[0] = "dup"
		}
		g := []string{f[0], strconv.Itoa(k)}
		if cr != "" {
			g = append(g, "cr="+cr)
		}
		return s.event(g)
	case "drop":
		if len(s.pool) > 0 {
			k := arg(1) % len(s.pool)
			s.pool = append(s.pool[:k:k], s.pool[k+1:]...)
			s.c.Note("drop")
		}
		return s.answer(nil)
	case "iso":
		s.isolate(s.nodes[arg(1)%N])
		return s.answer(nil)
	case "isol": // isolate the node that currently is leader of the highest term (node arg if there is none)
		best := s.nodes[arg(1)%N]
		var bt uint64
		for _, nd := range s.nodes {
			if v := raft.VerifState(nd.n); v.State == raft.StateLeader && v.Term > bt {
				best, bt = nd, v.Term
			}
		}
		s.isolate(best)
		s.c.Note("isolate-leader")
		return s.answer(nil)
	case "tickall": // one tick on every node, in id order (time passes everywhere: leases expire)
		var acts []string
		for _, nd := range s.nodes {
			nd := nd
			acts = append(acts, s.cycleActs(nd, "tick", nil, func() { nd.n.Tick() }, "")...)
		}
		return s.answer(acts)
	case "mark":
		s.vrMode, s.vrNode = arg(1)%8, s.nodes[arg(2)%N].id
		s.c.Note(fmt.Sprintf("voterace:kind%d", s.vrMode))
		return s.answer(nil)
	case "heal":
		for _, nd := range s.nodes {
			nd.iso = false
		}
		return s.answer(nil)
	case "crash":
		nd := s.nodes[arg(1)%N]
		s.start(nd)
		s.c.Note("crash")
		s.flagOnce(&s.flagCrash, "sessions-with-crash")
		return s.answer([]string{fmt.Sprintf("crash,%d", nd.id)})
	case "snap":
		nd := s.nodes[arg(1)%N]
		v := raft.VerifState(nd.n)
		back := uint64(arg(2))
		if v.Applied < back || v.Applied-back <= v.FirstIndex-1 {
			s.c.Note("snap-nothing-to-compact")
			return s.answer(nil)
		}
		i := v.Applied - back
		// only stable entries can be snapshotted from the storage object
		if li, _ := nd.st.LastIndex(); i > li {
			s.c.Note("snap-beyond-storage")
			return s.answer(nil)
		}
		if _, err := nd.st.CreateSnapshot(i, &s.cs, []byte("snap")); err != nil {
			s.c.Note("snap-err:" + err.Error())
			return s.answer(nil)
		}
		if err := nd.st.Compact(i); err != nil {
			s.c.Note("compact-err:" + err.Error())
		}
		s.c.Note("compaction")
		return s.answer(nil)
	}
	return "bad-op"
}

// isolate cuts a node off: what is in flight from or to it is lost, and so is what it sends or is sent until `heal`.
func (s *rsess) isolate(nd *rnode) {
	nd.iso = true
	keep := s.pool[:0:0]
	for _, m := range s.pool {
		if m.From == nd.id || m.To == nd.id {
			s.c.Note("lost-by-partition")
			continue
		}
		keep = append(keep, m)
	}
	s.pool = keep
}

func (s *rsess) flagOnce(flag *bool, note string) {
	if !*flag {
		*flag = true
		s.c.Note(note)
	}
}

// cycle = one schedule event on one node.
func (s *rsess) cycle(nd *rnode, kind string, m *pb.Message, stim func(), cr string) string {
	return s.answer(s.cycleActs(nd, kind, m, stim, cr))
}

func (s *rsess) cycleActs(nd *rnode, kind string, m *pb.Message, stim func(), cr string) []string {
	pre := raft.VerifState(nd.n)
	if pre.NeedAdvance {
		s.c.Violation("harness-assumption", "node awaits Advance at the start of an event")
	}
	stim()
	rd, ok := nd.n.StepNode(true, false)
	post := raft.VerifState(nd.n)
	acts, vflush := s.derive(nd, m, pre, post, rd)
	j := nd.id
	if !ok {
		if len(acts) != 0 {
			s.c.Violation("harness-assumption", fmt.Sprintf("actions %v without a Ready", acts))
		}
		if cr != "" {
			s.start(nd)
			s.c.Note("crash")
			s.flagOnce(&s.flagCrash, "sessions-with-crash")
			acts = append(acts, fmt.Sprintf("crash,%d", j))
		}
		return acts
	}
	s.oracleState(nd, pre, post)
	if cr == "" {
		s.persist(nd, rd, -1, true)
		acts = append(acts, fmt.Sprintf("flush,%d", j))
		s.release(nd, rd)
		s.oracleCommit(nd, pre, post)
		s.oracleReady(nd, rd)
		nd.n.Advance(rd)
		return acts
	}
	s.ackOut = nil // nothing leaves the node
	// crash inside the Ready: persist a prefix of (snapshot, entries, hardstate), send nothing, drop the node
	s.c.Note("crash-in-ready:" + cr[:1])
	s.flagOnce(&s.flagCrash, "sessions-with-crash")
	s.flagOnce(&s.flagPartial, "sessions-with-crash-inside-ready")
	hasHard := !raft.IsEmptyHardState(rd.HardState)
	hasEnts := len(rd.Entries) > 0 || !raft.IsEmptySnap(rd.Snapshot)
	mode := cr
	tornK := 0
	var afterCrash []string
	switch {
	case cr == "s":
		// (d2)'s exception: in the Ready in which the node became leader the application (node/raft.go,
		// isMeNewLeader) sends before it persists. Crash between the two: the appends are in flight, nothing
		// of the Ready is durable. Exercised here for every Ready of a leader that carries only appends,
		// snapshots and heartbeats (the message kinds that are one-level in the abstract system).
		oneLevel := post.State == raft.StateLeader && s.v > 1 && len(rd.Messages) > 0
		for _, x := range rd.Messages {
			if x.Type != pb.MsgApp && x.Type != pb.MsgSnap && x.Type != pb.MsgHeartbeat {
				oneLevel = false
			}
		}
		if oneLevel && pre.State != raft.StateLeader {
			s.c.Note("new-leader-sent-before-persist-then-crash")
		}
		mode = "0"
		if oneLevel {
			s.release(nd, rd)
			s.c.Note("leader-sent-before-persist-then-crash")
		}
	case cr == "a":
	case cr == "0":
	case cr[0] == 'e' && !raft.IsEmptySnap(rd.Snapshot):
		// A snapshot made durable without the hard state whose commit covers it cannot be restarted from
		// (RestartNode: "state.commit N is out of range"); that persist order is a matter of the application
		// (node/raft.go, C06), not of package raft: excluded here, counted.
		s.c.Note("torn-snapshot-without-hardstate:excluded")
		mode = "0"
	case cr[0] == 'e': // first k entries, no hard state
		k, _ := strconv.Atoi(cr[1:])
		if k >= len(rd.Entries) {
			k = len(rd.Entries)
			if !hasHard {
				mode = "a"
			}
		}
		if mode != "a" {
			if k == 0 {
				mode = "0"
			} else {
				tornK = k
				mode = "torn"
			}
		}
	case cr == "h":
		// Hard state without the entries of the same Ready: a commit index made durable before the entries
		// it covers lets the restarted node hand out whatever stale entries its storage still has there
		// (seen: seed 23, applied-mismatch). The Ready contract and the WAL (entries, then state, one sync)
		// exclude it; so does this protocol, counted. A Ready without entries is persisted whole.
		if hasEnts {
			s.c.Note("torn-hardstate-without-entries:excluded")
			mode = "0"
		} else {
			mode = "a"
		}
	default:
		mode = "0"
	}
	s.c.Note("crash-in-ready-resolved:" + mode)
	switch mode {
	case "a":
		s.persist(nd, rd, -1, true)
		s.oracleCommit(nd, pre, post)
		acts = append(acts, fmt.Sprintf("flush,%d", j))
	case "0":
		if vflush >= 0 {
			// single voter: nothing of this event became durable or left the node, so what it computed after
			// the point where a persist was needed (win the election / commit) never became observable
			acts = acts[:vflush]
			s.c.Note("single-voter-crash-before-persist:cut")
		}
	case "torn":
		// the first tornK entries became durable, the hard state (term, vote, commit) of the same Ready did not
		before, after, ok := s.tornActs(nd, m, pre, post, rd, tornK)
		s.persist(nd, rd, tornK, false)
		if ok {
			acts = append(acts, before...)
			afterCrash = after
			s.c.Note("torn-persist:certified")
		} else {
			s.suspend("torn-persist")
		}
	}
	s.start(nd)
	if hs, _, _ := nd.st.InitialState(); post.State == raft.StateLeader && post.Committed > hs.Commit && post.Committed > pre.Committed {
		s.c.Note(fmt.Sprintf("leader-volatile-commit-lost-in-crash(voters=%d)", s.v))
	}
	acts = append(acts, fmt.Sprintf("crash,%d", j))
	return append(acts, afterCrash...)
}

// tornActs: abstract image of "the first k entries of this Ready are durable, its hard state is not".
// The storage then holds  durable log[..first-1] ++ entries[:k]  under the old term, vote and commit. When
// the durable term already is the term the entries were written under, that is exactly the state of a node
// that crashed (losing the Ready) and afterwards received an append carrying only those entries and no commit
// news: from its own earlier self if it was the leader (the message is created while it still leads), or
// from the sender of the original append, provided that node still leads that term (its log is append-only
// while it leads, so it can send the shorter message now). Anything else (term change lost with the hard
// state, sender no longer leader) has no image in the abstract system - the certificate is suspended.
func (s *rsess) tornActs(nd *rnode, m *pb.Message, pre, post raft.VerifView, rd raft.Ready, k int) (before, after []string, ok bool) {
	j := nd.id
	if k < 1 || k > len(rd.Entries) || !raft.IsEmptySnap(rd.Snapshot) {
		return nil, nil, false
	}
	hs, _, _ := nd.st.InitialState()
	first := rd.Entries[0].Index
	if first <= s.B {
		return nil, nil, false
	}
	switch {
	case post.State == raft.StateLeader:
		if hs.Term != post.Term || first != pre.LastIndex+1 {
			return nil, nil, false
		}
		prev := s.abs(first - 1)
		before = []string{fmt.Sprintf("sendApp,%d,%d,%d,0", j, prev, k)}
		after = []string{fmt.Sprintf("recvApp,%d,%d,%d,0,%s", j, post.Term, prev, entsStr(rd.Entries[:k], ".")),
			fmt.Sprintf("flush,%d", j)} // the entries ARE durable
		return before, after, true
	case m != nil && m.Type == pb.MsgApp && int(m.From) >= 1 && int(m.From) <= len(s.nodes):
		b := len(m.Entries) - len(rd.Entries)
		if hs.Term != m.Term || post.Term != m.Term || b < 0 || first != m.Index+uint64(b)+1 {
			return nil, nil, false
		}
		cv := raft.VerifState(s.nodes[m.From-1].n)
		if cv.State != raft.StateLeader || cv.Term != m.Term {
			return nil, nil, false
		}
		prev, n := s.abs(m.Index), b+k
		after = []string{fmt.Sprintf("sendApp,%d,%d,%d,0", m.From, prev, n),
			fmt.Sprintf("recvApp,%d,%d,%d,0,%s", j, m.Term, prev, entsStr(m.Entries[:n], ".")),
			fmt.Sprintf("flush,%d", j)} // the entries ARE durable
		return nil, after, true
	}
	return nil, nil, false
}

// release puts the messages of a Ready into the pool (sorted: map iteration inside raft makes their order in
// the Ready nondeterministic).
func (s *rsess) release(nd *rnode, rd raft.Ready) {
	msgs := append([]pb.Message(nil), rd.Messages...)
	sort.SliceStable(msgs, func(a, b int) bool {
		x, y := msgs[a], msgs[b]
		if x.To != y.To {
			return x.To < y.To
		}
		if x.Type != y.Type {
			return x.Type < y.Type
		}
		if x.Index != y.Index {
			return x.Index < y.Index
		}
		return x.Term < y.Term
	})
	for _, x := range msgs {
		s.c.Note("sent:" + x.Type.String())
		if nd.learner && !x.Reject && (x.Type == pb.MsgVoteResp || x.Type == pb.MsgPreVoteResp) {
			s.c.Violation("learner-vote", fmt.Sprintf("learner %d grants %s to %d in term %d", nd.id, x.Type, x.To, x.Term))
		}
		s.oracleVote(nd, x)
		if nd.iso || (x.To >= 1 && int(x.To) <= len(s.nodes) && s.nodes[x.To-1].iso) {
			s.c.Note("lost-by-partition")
			continue
		}
		s.pool = append(s.pool, cloneMsg(x))
	}
}

// derive reads the abstract actions of one StepNode off (stimulus, state before, state after, Ready).
// The second result is the position of the first flush that had to be placed in the middle of the event
// (single-voter groups only; -1 if none): what precedes it is what the node did before anything of this
// event had to be durable.
func (s *rsess) derive(nd *rnode, m *pb.Message, pre, post raft.VerifView, rd raft.Ready) ([]string, int) {
	j := nd.id
	var acts []string
	vflush := -1
	curT, curR := pre.Term, roleOf(pre.State)
	t1, r1 := post.Term, roleOf(post.State)
	resp := func(t pb.MessageType, to uint64) *pb.Message {
		for i := range rd.Messages {
			if rd.Messages[i].Type == t && rd.Messages[i].To == to {
				return &rd.Messages[i]
			}
		}
		return nil
	}
	appMsg := func(name string, term, prev, cm uint64, ents []pb.Entry) string {
		return fmt.Sprintf("%s,%d,%d,%d,%d,%s", name, j, term, prev, cm, entsStr(ents, "."))
	}
	if m != nil && m.Term >= pre.Term && !(pre.State == raft.StateLeader && m.Term == pre.Term) {
		switch m.Type {
		case pb.MsgApp:
			if m.Index < s.B {
				s.c.Violation("harness-assumption", "MsgApp below the bootstrap offset")
			}
			if r := resp(pb.MsgAppResp, m.From); r != nil && !r.Reject {
				name := "recvApp"
				if m.Index < pre.Committed {
					name = "ackStale"
				}
				acts = append(acts, appMsg(name, m.Term, s.abs(m.Index), s.abs(m.Commit), m.Entries))
				s.ackOut = append(s.ackOut, fmt.Sprintf("%d,%d,%d", j, r.Term, s.abs(r.Index)))
				curT, curR = m.Term, 'F'
			}
		case pb.MsgSnap:
			si := m.Snapshot.Metadata.Index
			if r := resp(pb.MsgAppResp, m.From); r != nil && !r.Reject && si >= s.B {
				switch {
				case !raft.IsEmptySnap(rd.Snapshot) && rd.Snapshot.Metadata.Index == si:
					acts = append(acts, fmt.Sprintf("restore,%d,%d,%d", j, m.Term, s.abs(si)))
					s.c.Note("snapshot-restored")
					s.flagOnce(&s.flagRestore, "sessions-with-snapshot-restore")
				case si < pre.Committed:
					acts = append(acts, appMsg("ackStale", m.Term, s.abs(si), s.abs(si), nil))
					s.c.Note("snapshot-stale")
				default:
					acts = append(acts, appMsg("recvApp", m.Term, s.abs(si), s.abs(si), nil))
					s.c.Note("snapshot-fast-forward")
				}
				s.flagOnce(&s.flagSnap, "sessions-with-MsgSnap-delivered")
				s.ackOut = append(s.ackOut, fmt.Sprintf("%d,%d,%d", j, r.Term, s.abs(r.Index)))
				curT, curR = m.Term, 'F'
			}
		case pb.MsgHeartbeat:
			if r := resp(pb.MsgHeartbeatResp, m.From); r != nil && s.abs(m.Commit) > 0 {
				acts = append(acts, fmt.Sprintf("recvHb,%d,%d,%d", j, m.Term, s.abs(m.Commit)))
				curT, curR = m.Term, 'F'
			}
		case pb.MsgVote:
			if r := resp(pb.MsgVoteResp, m.From); r != nil && r.Reject && m.Term == pre.Term && pre.Vote != 0 && pre.Vote != m.From {
				// the guard the property rests on: a second candidate of the term is refused
				s.c.Note("vote-refused:voted-for-another")
				if old, ok := s.votedIn[voteKey{j, m.Term}]; ok && old.epoch != nd.epoch {
					s.c.Note("vote-refused:voted-for-another-before-a-restart")
				}
				if pre.State == raft.StatePreCandidate {
					s.c.Note("vote-refused:voted-for-another,now-pre-candidate")
				}
			}
			if r := resp(pb.MsgVoteResp, m.From); r != nil && !r.Reject {
				acts = append(acts, fmt.Sprintf("grant,%d,%d,%d", j, m.Term, m.From))
				s.c.Note("vote-granted")
				if m.Term == pre.Term { // no term change in this Ready: the HardState differs in the vote only
					s.c.Note("vote-granted:same-term")
					if s.vrMode >= 0 && s.vrNode == j && pre.Vote != m.From {
						s.c.Note(fmt.Sprintf("voterace:kind%d:reached-grant-without-term-change", s.vrMode))
						if pre.State == raft.StatePreCandidate {
							s.c.Note(fmt.Sprintf("voterace:kind%d:reached-grant-by-pre-candidate", s.vrMode))
						}
						s.vrMode = -1 // counted once per announced schedule
					}
					if pre.Vote == m.From {
						s.c.Note("vote-granted:same-term,repeat")
					}
					if pre.State == raft.StatePreCandidate {
						s.c.Note("vote-granted:same-term,by-pre-candidate")
					}
					if nd.epoch > 1 {
						s.c.Note("vote-granted:same-term,after-a-restart")
					}
				}
				if curT < m.Term {
					curR = 'F'
				}
				curT = m.Term
			}
		case pb.MsgTimeoutNow:
			s.flagOnce(&s.flagXfer, "sessions-with-MsgTimeoutNow-delivered")
		}
	}
	single := s.v == 1
	virtualFlush := func() {
		if single && s.sv == 1 {
			if vflush < 0 {
				vflush = len(acts)
			}
			acts = append(acts, fmt.Sprintf("flush,%d", j))
			s.c.Note("single-voter-virtual-flush")
		}
	}
	if r1 == 'C' && t1 > curT {
		acts = append(acts, fmt.Sprintf("campaign,%d,%d", j, t1))
		curT, curR = t1, 'C'
		s.c.Note("campaign")
	}
	grew := post.LastIndex > pre.LastIndex
	var ents []pb.Entry
	if r1 == 'L' {
		ents = raft.VerifLogEntries(nd.n)
	}
	newEnt := func(i uint64) pb.Entry { return ents[i-post.FirstIndex] }
	if r1 == 'L' && (curR != 'L' || t1 > curT) {
		if !(curR == 'C' && curT == t1) {
			acts = append(acts, fmt.Sprintf("campaign,%d,%d", j, t1))
			s.c.Note("campaign")
			virtualFlush()
		}
		var q []string
		ids := map[uint64]bool{}
		if pre.State == raft.StateCandidate && pre.Term == t1 {
			for id, g := range pre.Votes {
				if g {
					ids[id] = true
				}
			}
		} else {
			ids[j] = true // campaigned in this very step: only the self-vote exists
		}
		if m != nil && m.Type == pb.MsgVoteResp && !m.Reject && m.Term == t1 {
			ids[m.From] = true
		}
		for id := range ids {
			q = append(q, strconv.FormatUint(id, 10))
		}
		sort.Strings(q)
		acts = append(acts, fmt.Sprintf("becomeLeader,%d,%d,%s", j, t1, strings.Join(q, ".")))
		s.c.Note("becomeLeader")
		curT, curR = t1, 'L'
		// the no-op entry
		first := pre.LastIndex + 1
		if !grew || len(newEnt(first).Data) != 0 || newEnt(first).Term != t1 {
			s.c.Violation("harness-assumption", "new leader without its empty entry")
		}
		for i := first + 1; i <= post.LastIndex; i++ {
			acts = append(acts, fmt.Sprintf("propose,%d,%d", j, dataOf(newEnt(i).Data)))
			s.c.Note("propose-queued-at-election")
		}
	} else if r1 == 'L' && grew {
		for i := pre.LastIndex + 1; i <= post.LastIndex; i++ {
			acts = append(acts, fmt.Sprintf("propose,%d,%d", j, dataOf(newEnt(i).Data)))
			s.c.Note("propose")
		}
	}
	if r1 == 'L' && post.Committed > pre.Committed {
		if grew {
			virtualFlush()
		}
		var q []string
		for _, id := range post.Voters { // maybeCommit counts r.prs only
			if post.Match[id] >= post.Committed {
				q = append(q, strconv.FormatUint(id, 10))
			}
		}
		acts = append(acts, fmt.Sprintf("commitLeader,%d,%d,%s", j, s.abs(post.Committed), strings.Join(q, ".")))
		s.c.Note("commitLeader")
	}
	if r1 == 'F' && t1 > curT {
		acts = append(acts, fmt.Sprintf("bump,%d,%d", j, t1))
		curT, curR = t1, 'F'
		s.c.Note("bump")
	}
	if r1 == 'F' && curR != 'F' && t1 == curT {
		acts = append(acts, fmt.Sprintf("restart,%d", j))
		curR = 'F'
		s.c.Note("step-down-same-term")
	}
	// sends (one-level in the abstract system: a created message is in flight)
	msgs := append([]pb.Message(nil), rd.Messages...)
	sort.SliceStable(msgs, func(a, b int) bool { return msgs[a].To < msgs[b].To })
	for _, x := range msgs {
		switch x.Type {
		case pb.MsgApp:
			acts = append(acts, fmt.Sprintf("sendApp,%d,%d,%d,%d", j, s.abs(x.Index), len(x.Entries), s.abs(x.Commit)))
		case pb.MsgSnap:
			si := s.abs(x.Snapshot.Metadata.Index)
			acts = append(acts, fmt.Sprintf("sendApp,%d,%d,0,%d", j, si, si))
			s.c.Note("MsgSnap-sent")
		case pb.MsgHeartbeat:
			if cm := s.abs(x.Commit); cm > 0 {
				acts = append(acts, fmt.Sprintf("sendHb,%d,%d,%d,%d", j, x.To, cm, s.abs(post.Match[x.To])))
			}
		}
	}
	return acts, vflush
}

// ---------------------------------------------------------------------------------------------
// implementation-level oracle (independent of the Lean side)

// oracleVote looks at every message that LEAVES a node (release runs after the harness has persisted the Ready,
// whether or not the message then is lost by a partition):
//   - vote-not-durable: a granted MsgVoteResp leaves while the HardState in the storage object does not hold that
//     vote for that term (Raft: votedFor is on stable storage before the RPC is answered) - after a crash the node
//     would be free to vote again in the same term;
//   - two-votes-one-term: the same node lets votes for two different candidates of one term leave (a granted
//     MsgVoteResp to each, or the MsgVote of its own campaign = its vote for itself and a grant to somebody else),
//     remembered across crashes.
func (s *rsess) oracleVote(nd *rnode, x pb.Message) {
	var cand uint64
	switch {
	case x.Type == pb.MsgVoteResp && !x.Reject:
		cand = x.To
		hs, _, _ := nd.st.InitialState()
		if hs.Term != x.Term || hs.Vote != x.To {
			s.c.Violation("vote-not-durable", fmt.Sprintf("node %d releases its vote for %d in term %d, but its storage holds {term %d, vote %d}",
				nd.id, x.To, x.Term, hs.Term, hs.Vote))
		}
	case x.Type == pb.MsgVote:
		cand = nd.id
	default:
		return
	}
	k := voteKey{nd.id, x.Term}
	if old, ok := s.votedIn[k]; ok && old.cand != cand {
		across := ""
		if old.epoch != nd.epoch {
			across = fmt.Sprintf(" (restarted %d time(s) in between)", nd.epoch-old.epoch)
		}
		s.c.Violation("two-votes-one-term", fmt.Sprintf("node %d voted for %d and for %d in term %d%s", nd.id, old.cand, cand, x.Term, across))
		return
	}
	s.votedIn[k] = voteRec{cand, nd.epoch}
}

func (s *rsess) oracleState(nd *rnode, pre, post raft.VerifView) {
	c := s.c
	if post.State == raft.StateLeader {
		if nd.learner || post.IsLearner {
			c.Violation("learner-leader", fmt.Sprintf("learner %d is leader of term %d", nd.id, post.Term))
		}
		if l, ok := s.leaderOf[post.Term]; ok && l != nd.id {
			c.Violation("two-leaders-one-term", fmt.Sprintf("term %d: leaders %d and %d", post.Term, l, nd.id))
		} else if !ok {
			s.leaderOf[post.Term] = nd.id
			s.leaders++
			s.flagOnce(&s.flagElected, "sessions-with-leader")
			if s.leaders >= 3 {
				s.flagOnce(&s.flagChanged, "sessions-with->=2-leader-changes")
			}
			c.Note("leader-elected")
		}
	} else if post.Lead != 0 && post.Lead != pre.Lead {
		// a follower accepts somebody as leader of its term only on an append/heartbeat/snapshot stamped with that term
		if l, ok := s.leaderOf[post.Term]; ok && l != post.Lead {
			c.Violation("two-leaders-one-term", fmt.Sprintf("term %d: leader %d, but node %d follows %d", post.Term, l, nd.id, post.Lead))
		}
	}
	if post.State == raft.StateLeader && (pre.State != raft.StateLeader || pre.Term != post.Term) {
		ents := raft.VerifLogEntries(nd.n)
		for i := s.B + 1; i <= s.maxCommit; i++ {
			r, ok := s.commits[i]
			if !ok || r.repTerm >= post.Term || i < post.FirstIndex {
				continue // compacted indices are covered by the snapshot the node restored or made itself
			}
			if i-post.FirstIndex >= uint64(len(ents)) || ents[i-post.FirstIndex].Term != r.term {
				c.Violation("committed-lost", fmt.Sprintf("index %d term %d committed by node %d in term <= %d is not in the log of node %d, leader of term %d",
					i, r.term, r.by, r.repTerm, nd.id, post.Term))
				break
			}
		}
	}
}

// oracleCommit records what a node reports committed. It runs only after the Ready that carries the new
// commit index (HardState.Commit, CommittedEntries) has been persisted: that is when the application may act
// on it (Ready contract: persist Entries/HardState, then apply CommittedEntries). A single-voter leader
// advances its volatile commit index over entries that are not durable yet (DESIGN §9 F1 / §7 C03 (d4)).
func (s *rsess) oracleCommit(nd *rnode, pre, post raft.VerifView) {
	c := s.c
	if post.Committed > pre.Committed {
		ents := raft.VerifLogEntries(nd.n)
		for i := pre.Committed + 1; i <= post.Committed; i++ {
			if i < post.FirstIndex || i-post.FirstIndex >= uint64(len(ents)) {
				continue
			}
			t := ents[i-post.FirstIndex].Term
			if r, ok := s.commits[i]; ok {
				if r.term != t {
					c.Violation("commit-mismatch", fmt.Sprintf("index %d committed with term %d by node %d and with term %d by node %d", i, r.term, r.by, t, nd.id))
				}
				if post.Term < r.repTerm {
					r.repTerm = post.Term
					s.commits[i] = r
				}
			} else {
				s.commits[i] = commitRec{term: t, repTerm: post.Term, by: nd.id}
			}
			if i > s.maxCommit {
				s.maxCommit = i
			}
		}
		if post.Committed > s.B+1 {
			s.flagOnce(&s.flagCommitted, "sessions-with-commit")
		}
	}
}

func (s *rsess) oracleReady(nd *rnode, rd raft.Ready) {
	c := s.c
	if !raft.IsEmptySnap(rd.Snapshot) {
		if rd.Snapshot.Metadata.Index <= nd.applied {
			c.Violation("applied-mismatch", fmt.Sprintf("node %d: snapshot %d handed out at or below applied %d", nd.id, rd.Snapshot.Metadata.Index, nd.applied))
		}
		nd.applied = rd.Snapshot.Metadata.Index
	}
	for _, e := range rd.CommittedEntries {
		if e.Index != nd.applied+1 {
			c.Violation("applied-mismatch", fmt.Sprintf("node %d: hand-out of index %d after %d (gap or repeat)", nd.id, e.Index, nd.applied))
		}
		nd.applied = e.Index
		k := entKey{e.Term, string(e.Data)}
		if old, ok := s.handed[e.Index]; ok {
			if old != k {
				c.Violation("applied-mismatch", fmt.Sprintf("index %d handed out as (term %d, %q) and by node %d as (term %d, %q)",
					e.Index, old.term, old.data, nd.id, e.Term, e.Data))
			}
		} else {
			s.handed[e.Index] = k
			c.Note("entries-applied-somewhere")
		}
	}
}
