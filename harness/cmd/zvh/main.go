// zvh: the Go side of the correspondence checks. One binary, one protocol per property family.
//
//	zvh run    <proto> -seed S -tier quick|thorough -out DIR   generate ops, run them on the real code
//	zvh replay <proto> -ops FILE -out DIR                      run the given op lines on the real code
//	zvh list
//
// DIR/ops.txt   one operation per line (this is what the Lean driver reads)
// DIR/impl.out  one canonical answer line per operation, produced by the real code
// DIR/meta.json statistics measured during the run and the implementation-level oracle's findings
package main

import (
	"bufio"
	"encoding/json"
	"flag"
	"fmt"
	"math/rand"
	"os"
	"path/filepath"
	"sort"
	"strings"
)

// Viol is one finding of the implementation-level oracle (the property stated on the real code).
type Viol struct {
	Line  int    `json:"line"`  // 1-based op line at which it was noticed
	Class string `json:"class"` // classifier used by known_findings.json
	What  string `json:"what"`
}

type Ctx struct {
	viols    []Viol
	line     int
	notes    map[string]int
	samples  []string
	perClass map[string]int
}

// Violation records an oracle finding; at most 8 per class are kept (so that frequent known findings
// cannot crowd out a different one), 5000 in total.
func (c *Ctx) Violation(class, what string) {
	if c.perClass == nil {
		c.perClass = map[string]int{}
	}
	c.perClass[class]++
	c.notes["oracle:"+class]++
	if c.perClass[class] <= 8 && len(c.viols) < 5000 {
		c.viols = append(c.viols, Viol{c.line, class, what})
	}
}
func (c *Ctx) Note(k string) { c.notes[k]++ }

// retryHarness runs f up to n times. An attempt that recorded a violation of class "harness" (the harness's own
// start-up / silence time-outs: machine load, not the code under test) is rolled back and repeated; what the last
// attempt records stays. A hang caused by the code under test shows in every attempt and is reported.
func retryHarness(c *Ctx, n int, f func() string) string {
	for attempt := 1; ; attempt++ {
		nv := len(c.viols)
		pc := map[string]int{}
		for k, v := range c.perClass {
			pc[k] = v
		}
		nt := map[string]int{}
		for k, v := range c.notes {
			nt[k] = v
		}
		out := f()
		if c.perClass["harness"] == pc["harness"] || attempt >= n {
			return out
		}
		c.viols = c.viols[:nv]
		c.perClass = pc
		c.notes = nt
		c.Note("harness-timeout-retried")
	}
}

type Proto struct {
	Name string
	// Gen emits op lines. Every random choice must come from rng.
	Gen func(rng *rand.Rand, tier string, emit func(string))
	// New returns the executor: one answer line per op line.
	New func(c *Ctx) func(line string) string
}

var protos = map[string]*Proto{}

func register(p *Proto) { protos[p.Name] = p }

// subcmds are hidden sub-commands (`zvh <name> args…`), e.g. the child process of protocol crash.
var subcmds = map[string]func(args []string){}

// atExit functions run once after the last op line (protocols that keep a cluster / temp dirs alive across lines).
var atExit []func()

func hexs(b []byte) string {
	if len(b) == 0 {
		return "-"
	}
	return fmt.Sprintf("%x", b)
}

func unhex(s string) []byte {
	if s == "-" {
		return []byte{}
	}
	b := make([]byte, len(s)/2)
	for i := range b {
		fmt.Sscanf(s[2*i:2*i+2], "%02x", &b[i])
	}
	return b
}

func safeExec(c *Ctx, ex func(string) string, line string) (out string) {
	defer func() {
		if r := recover(); r != nil {
			msg := strings.SplitN(fmt.Sprint(r), "\n", 2)[0]
			out = "panic:" + msg
			c.Violation("panic", line+" => "+msg)
		}
	}()
	return ex(line)
}

func main() {
	if len(os.Args) < 2 {
		fmt.Fprintln(os.Stderr, "usage: zvh run|replay|list ...")
		os.Exit(2)
	}
	mode := os.Args[1]
	if f := subcmds[mode]; f != nil {
		f(os.Args[2:])
		return
	}
	if mode == "list" {
		var ns []string
		for n := range protos {
			ns = append(ns, n)
		}
		sort.Strings(ns)
		fmt.Println(strings.Join(ns, "\n"))
		return
	}
	if len(os.Args) < 3 {
		os.Exit(2)
	}
	p := protos[os.Args[2]]
	if p == nil {
		fmt.Fprintln(os.Stderr, "unknown proto", os.Args[2])
		os.Exit(2)
	}
	fs := flag.NewFlagSet("zvh", flag.ExitOnError)
	seed := fs.Int64("seed", 1, "")
	tier := fs.String("tier", "quick", "")
	out := fs.String("out", ".", "")
	opsf := fs.String("ops", "", "")
	fs.Parse(os.Args[3:])
	os.MkdirAll(*out, 0755)

	var ops []string
	switch mode {
	case "gen": // print the op lines a run would execute
		rng := rand.New(rand.NewSource(*seed))
		p.Gen(rng, *tier, func(s string) { fmt.Println(s) })
		return
	case "run":
		rng := rand.New(rand.NewSource(*seed))
		p.Gen(rng, *tier, func(s string) { ops = append(ops, s) })
	case "replay":
		f, err := os.Open(*opsf)
		if err != nil {
			fmt.Fprintln(os.Stderr, err)
			os.Exit(2)
		}
		sc := bufio.NewScanner(f)
		sc.Buffer(make([]byte, 1<<20), 1<<28)
		for sc.Scan() {
			if t := sc.Text(); t != "" {
				ops = append(ops, t)
			}
		}
		f.Close()
	default:
		os.Exit(2)
	}
	// every temp dir of a run lives under one root that is removed at the end (protocols may leave engine dirs behind)
	if tmp, err := os.MkdirTemp("", "zvhrun-"); err == nil {
		os.Setenv("TMPDIR", tmp)
		defer os.RemoveAll(tmp)
	}
	c := &Ctx{notes: map[string]int{}}
	ex := p.New(c)
	of, _ := os.Create(filepath.Join(*out, "ops.txt"))
	rf, _ := os.Create(filepath.Join(*out, "impl.out"))
	ow, rw := bufio.NewWriterSize(of, 1<<20), bufio.NewWriterSize(rf, 1<<20)
	opHist := map[string]int{}
	outHist := map[string]int{}
	distinct := map[string]bool{}
	for i, l := range ops {
		c.line = i + 1
		r := safeExec(c, ex, l)
		r = strings.ReplaceAll(r, "\n", "\\n")
		ow.WriteString(l + "\n")
		rw.WriteString(r + "\n")
		op := strings.SplitN(l, " ", 2)[0]
		opHist[op]++
		oc := strings.SplitN(r, " ", 2)[0]
		if len(oc) > 24 {
			oc = oc[:24]
		}
		if strings.HasPrefix(r, "err") || strings.HasPrefix(r, "panic") {
			outHist[op+"→"+strings.SplitN(oc, ":", 3)[0]]++
		} else {
			outHist[op+"→ok"]++
			if op != "reset" && len(distinct) < 5000000 {
				distinct[l] = true
			}
		}
		if len(c.samples) < 6 && (i%(len(ops)/6+1) == 0) {
			s := l + " => " + r
			if len(s) > 300 {
				s = s[:300] + "…"
			}
			c.samples = append(c.samples, s)
		}
	}
	ow.Flush()
	rw.Flush()
	of.Close()
	rf.Close()
	for _, f := range atExit {
		f()
	}
	meta := map[string]interface{}{
		"proto": p.Name, "seed": *seed, "tier": *tier, "evaluations": len(ops),
		"distinct_nontrivial": len(distinct), "op_hist": opHist, "out_hist": outHist,
		"notes": c.notes, "violations": c.viols, "samples": c.samples,
	}
	if c.viols == nil {
		meta["violations"] = []Viol{}
	}
	b, _ := json.MarshalIndent(meta, "", " ")
	os.WriteFile(filepath.Join(*out, "meta.json"), b, 0644)
}
