//go:build verif

// Protocol `rocksvote` (oracle-only): one op line = one complete scenario, run on a REAL raft.Node (replica 1 of
// the voters 1..5; RestartNode, Step, StepNode/Advance in one goroutine) twice: over a REAL MemoryStorage and over
// a REAL RocksStorage (mem engine). Every Ready is handled in the order of node/raft.go's processReady:
// (persistRaftState = WAL, not part of this protocol) -> raftStorage.ApplySnapshot(rd.Snapshot) ->
// raftStorage.Append(rd.Entries) -> (send) -> Advance.
//
//	sv n=<N> ta=<T> c=<C> si=<I> st=<S> k=<K> vt=<V> vlt=<LT> vi=<LI> pv=<0|1>
//	   1. MsgApp from 2 at term T: entries 1..N of term T, leader commit C
//	   2. MsgSnap from 3 at term S: snapshot (index I, term S, voters 1..5)
//	   3. K > 0: MsgApp from 3 at term S: prev (I, S), K entries of term S, commit I
//	   4. MsgVote (pv=1: MsgPreVote) from 4 at term V with (LogTerm LT, Index LI)
//
// Answer: `mem[...] rocks[...]`, each `afterSnap=<lastIndex>.<lastTerm>/c<committed> atVote=<lastIndex>.<lastTerm>/c<committed> vote=grant|reject|none`.
// Oracle: `vote-granted-to-stale-candidate` — the RocksStorage-backed node grants a vote that the MemoryStorage-backed
// node, fed the same messages, rejects (its own log, last = snapshot, is more up-to-date than the candidate's).
package main

import (
	"context"
	"fmt"
	"io/ioutil"
	"math/rand"
	"os"
	"strconv"
	"strings"

	"github.com/youzan/ZanRedisDB/engine"
	"github.com/youzan/ZanRedisDB/raft"
	pb "github.com/youzan/ZanRedisDB/raft/raftpb"
)

func init() {
	register(&Proto{Name: "rocksvote", Gen: genRocksVote, New: newRocksVote})
}

func genRocksVote(rng *rand.Rand, tier string, emit func(string)) {
	count := 400
	if tier == "thorough" {
		count = 4000
	}
	// the plain witness first
	emit("sv n=5 ta=1 c=2 si=3 st=2 k=0 vt=3 vlt=1 vi=5 pv=0")
	for i := 0; i < count; i++ {
		n := 1 + rng.Intn(8)
		ta := 1 + rng.Intn(2)
		c := rng.Intn(n + 1)
		si := 1 + rng.Intn(n+3) // inside the log, at its end, or ahead of it
		st := ta + rng.Intn(3)  // = ta: the snapshot may match the log (fast-forward)
		k := 0
		if rng.Intn(4) == 0 {
			k = 1 + rng.Intn(2)
		}
		vt := st + 1 + rng.Intn(2)
		var vlt, vi int
		switch rng.Intn(6) {
		case 0, 1: // a candidate that still ends with the old tail
			vlt, vi = ta, n
		case 2:
			vlt, vi = ta, n+rng.Intn(3)
		case 3: // a candidate that has the snapshot's last entry
			vlt, vi = st, si+k
		case 4:
			vlt, vi = st, si+k-1
		default:
			vlt, vi = 1+rng.Intn(st+1), rng.Intn(n+4)
		}
		if vi < 0 {
			vi = 0
		}
		emit(fmt.Sprintf("sv n=%d ta=%d c=%d si=%d st=%d k=%d vt=%d vlt=%d vi=%d pv=%d", n, ta, c, si, st, k, vt, vlt, vi, rng.Intn(2)))
	}
}

type rvSess struct {
	c  *Ctx
	rs *raft.RocksStorage
}

func newRocksVote(c *Ctx) func(string) string {
	raft.SetLogger(quietLogger{})
	s := &rvSess{c: c}
	return func(line string) string {
		f := strings.Fields(line)
		if len(f) == 0 || f[0] != "sv" {
			return "bad-op"
		}
		p := map[string]uint64{}
		for _, kv := range f[1:] {
			if i := strings.IndexByte(kv, '='); i > 0 {
				v, _ := strconv.ParseUint(kv[i+1:], 10, 64)
				p[kv[:i]] = v
			}
		}
		mem := s.scenario(raft.NewRealMemoryStorage(), p)
		rocks := s.scenario(s.rocks(), p)
		if rocks.vote == "grant" && mem.vote == "reject" {
			c.Violation("vote-granted-to-stale-candidate", fmt.Sprintf(
				"%s: candidate (logterm %d, index %d): the RocksStorage-backed node grants (its log reads last=%d.%d), the MemoryStorage-backed node rejects (last=%d.%d)",
				line, p["vlt"], p["vi"], rocks.li, rocks.lt, mem.li, mem.lt))
		} else if rocks.vote != mem.vote {
			c.Violation("vote-differs-by-storage", fmt.Sprintf("%s: mem %s, rocks %s", line, mem.vote, rocks.vote))
		}
		if rocks.li != mem.li || rocks.lt != mem.lt {
			c.Note("last-differs-at-vote")
		}
		c.Note("vote:mem-" + mem.vote + "/rocks-" + rocks.vote)
		return "mem[" + mem.String() + "] rocks[" + rocks.String() + "]"
	}
}

func (s *rvSess) rocks() *raft.RocksStorage {
	if s.rs == nil {
		dir, _ := ioutil.TempDir("", "zvh-rocksvote")
		cfg := engine.NewRockConfig()
		cfg.DataDir = dir
		cfg.EngineType = "mem"
		cfg.DisableMergeCounter = true
		cfg.EnableTableCounter = false
		eng, err := engine.NewKVEng(cfg)
		if err != nil {
			panic(err)
		}
		if err := eng.OpenEng(); err != nil {
			panic(err)
		}
		os.RemoveAll(dir) // the mem engine keeps nothing there
		s.rs = raft.NewRocksStorage(1, 7, false, eng)
	}
	raft.VerifRocksReset(s.rs)
	return s.rs
}

type rvRes struct {
	snapLi, snapLt, snapC uint64
	li, lt, cm            uint64
	vote                  string
	err                   string
}

func (r rvRes) String() string {
	s := fmt.Sprintf("afterSnap=%d.%d/c%d atVote=%d.%d/c%d vote=%s", r.snapLi, r.snapLt, r.snapC, r.li, r.lt, r.cm, r.vote)
	if r.err != "" {
		s += " err=" + r.err
	}
	return s
}

// drain handles Readys the way node/raft.go does and returns the messages the node sent
func rvDrain(n raft.Node, st raft.IExtRaftStorage, res *rvRes) []pb.Message {
	var out []pb.Message
	for i := 0; i < 32; i++ {
		rd, ok := n.StepNode(true, false)
		if !ok {
			break
		}
		if !raft.IsEmptySnap(rd.Snapshot) {
			if err := st.ApplySnapshot(rd.Snapshot); err != nil {
				res.err += "applysnap:" + err.Error() + ";"
			}
		}
		if err := st.Append(rd.Entries); err != nil {
			res.err += "append:" + err.Error() + ";"
		}
		out = append(out, rd.Messages...)
		n.Advance(rd)
	}
	return out
}

func (s *rvSess) scenario(st raft.IExtRaftStorage, p map[string]uint64) (res rvRes) {
	res.vote = "none"
	defer func() {
		if r := recover(); r != nil {
			res.err += "panic:" + rlPanicClass(r)
		}
	}()
	n := raft.VerifRestartNodeOn(st, quietLogger{}, 5, p["pv"] == 1)
	defer n.Stop()
	ctx := context.Background()
	ents := func(from, cnt, term uint64) []pb.Entry {
		var es []pb.Entry
		for i := uint64(0); i < cnt; i++ {
			es = append(es, pb.Entry{Index: from + i, Term: term, Data: []byte{byte(from + i)}})
		}
		return es
	}
	// 1. the old leader's tail
	n.Step(ctx, pb.Message{Type: pb.MsgApp, From: 2, To: 1, Term: p["ta"], LogTerm: 0, Index: 0, Entries: ents(1, p["n"], p["ta"]), Commit: p["c"]})
	rvDrain(n, st, &res)
	// 2. the snapshot of the next leader
	snap := pb.Snapshot{Metadata: pb.SnapshotMetadata{Index: p["si"], Term: p["st"],
		ConfState: pb.ConfState{Nodes: []uint64{1, 2, 3, 4, 5}, Groups: raft.VerifGroups(5)}}}
	n.Step(ctx, pb.Message{Type: pb.MsgSnap, From: 3, To: 1, Term: p["st"], Snapshot: snap})
	rvDrain(n, st, &res)
	res.snapLi, res.snapLt, res.snapC, _, _ = raft.VerifNodeLast(n)
	// 3. entries after the snapshot
	if p["k"] > 0 {
		n.Step(ctx, pb.Message{Type: pb.MsgApp, From: 3, To: 1, Term: p["st"], LogTerm: p["st"], Index: p["si"], Entries: ents(p["si"]+1, p["k"], p["st"]), Commit: p["si"]})
		rvDrain(n, st, &res)
	}
	res.li, res.lt, res.cm, _, _ = raft.VerifNodeLast(n)
	// 4. the vote request
	typ, rtyp := pb.MsgVote, pb.MsgVoteResp
	if p["pv"] == 1 {
		typ, rtyp = pb.MsgPreVote, pb.MsgPreVoteResp
	}
	n.Step(ctx, pb.Message{Type: typ, From: 4, To: 1, Term: p["vt"], LogTerm: p["vlt"], Index: p["vi"]})
	for _, m := range rvDrain(n, st, &res) {
		if m.Type == rtyp && m.To == 4 {
			if m.Reject {
				res.vote = "reject"
			} else {
				res.vote = "grant"
			}
		}
	}
	return res
}
