package main

import (
	"bytes"
	"fmt"
	"math"
	"math/rand"
	"strconv"
	"strings"

	"github.com/youzan/ZanRedisDB/rockredis"
)

// C12 key codec: the real rockredis encoders/decoders vs the Lean codec, byte for byte.
func init() { register(&Proto{Name: "codec", Gen: genCodec, New: newCodec}) }

var codecAlpha = []byte{0, 1, ':', ';', 'a', 'b', 0xff, 0xfe, 9, 8, 7, '9'}

func randName(rng *rand.Rand, max int) []byte {
	n := rng.Intn(max + 1)
	switch rng.Intn(12) {
	case 0:
		n = 0
	case 1:
		n = 8
	case 2:
		n = 16
	case 3:
		n = 255 + rng.Intn(3)
	}
	b := make([]byte, n)
	for i := range b {
		if rng.Intn(5) == 0 {
			b[i] = byte(rng.Intn(256))
		} else {
			b[i] = codecAlpha[rng.Intn(len(codecAlpha))]
		}
	}
	return b
}

func randInt64(rng *rand.Rand) int64 {
	switch rng.Intn(8) {
	case 0:
		return 0
	case 1:
		return -1
	case 2:
		return math.MaxInt64
	case 3:
		return math.MinInt64
	case 4:
		return int64(rng.Intn(512)) - 256
	}
	return int64(rng.Uint64())
}

func randFloatBits(rng *rand.Rand) uint64 {
	switch rng.Intn(10) {
	case 0:
		return 0
	case 1:
		return 0x8000000000000000 // -0.0
	case 2:
		return math.Float64bits(math.Inf(1))
	case 3:
		return math.Float64bits(math.Inf(-1))
	case 4:
		return math.Float64bits(float64(rng.Intn(2000) - 1000))
	case 5:
		return math.Float64bits(float64(rng.Intn(2000)-1000) / 8)
	case 6:
		return 0x7ff8000000000001 // NaN
	}
	return rng.Uint64()
}

func genCodec(rng *rand.Rand, tier string, emit func(string)) {
	n := 30000
	if tier == "thorough" {
		n = 1500000
	}
	dts := []byte{rockredis.HashType, rockredis.SetType, rockredis.ZSetType}
	metas := []byte{rockredis.HSizeType, rockredis.SSizeType, rockredis.ZSizeType, rockredis.LMetaType}
	var pool [][]byte // names reused so that collisions / prefix relations are actually probed
	name := func(max int) []byte {
		if len(pool) > 0 && rng.Intn(3) == 0 {
			b := pool[rng.Intn(len(pool))]
			switch rng.Intn(4) {
			case 0:
				return b
			case 1:
				return append(append([]byte{}, b...), codecAlpha[rng.Intn(len(codecAlpha))])
			case 2:
				if len(b) > 0 {
					return b[:len(b)-1]
				}
			}
		}
		b := randName(rng, max)
		if len(pool) < 64 {
			pool = append(pool, b)
		} else {
			pool[rng.Intn(64)] = b
		}
		return b
	}
	for i := 0; i < n; i++ {
		switch rng.Intn(16) {
		case 0, 1, 2:
			emit(fmt.Sprintf("sub %d %s %s %s", dts[rng.Intn(3)], hexs(name(12)), hexs(name(12)), hexs(name(12))))
		case 3:
			emit(fmt.Sprintf("kv %s", hexs(name(20))))
		case 4:
			emit(fmt.Sprintf("meta %d %s", metas[rng.Intn(4)], hexs(name(20))))
		case 5:
			emit(fmt.Sprintf("list %s %s %d", hexs(name(12)), hexs(name(12)), randInt64(rng)))
		case 6:
			emit(fmt.Sprintf("ver %s %d", hexs(name(20)), randInt64(rng)))
		case 7:
			emit(fmt.Sprintf("mbytes %s", hexs(name(20))))
		case 8:
			emit(fmt.Sprintf("mint %d", randInt64(rng)))
		case 9:
			emit(fmt.Sprintf("mfloat %016x", randFloatBits(rng)))
		case 10:
			emit(fmt.Sprintf("zscore %s %s %s %016x", hexs(name(10)), hexs(name(10)), hexs(name(10)), randFloatBits(rng)))
		case 11:
			emit(fmt.Sprintf("trange %d %s", []byte{rockredis.KVType, rockredis.HashType, rockredis.ListType, rockredis.ZScoreType}[rng.Intn(4)], hexs(name(12))))
		case 12:
			emit(fmt.Sprintf("crange %d %s %s", dts[rng.Intn(3)], hexs(name(12)), hexs(name(12))))
		case 13:
			// decoders on (mostly) valid encodings, sometimes damaged
			b := rockredis.VerifEncodeCollSubKey(dts[rng.Intn(3)], name(8), name(8), name(8))
			if rng.Intn(3) == 0 && len(b) > 0 {
				switch rng.Intn(3) {
				case 0:
					b = b[:rng.Intn(len(b))]
				case 1:
					b[rng.Intn(len(b))] ^= byte(1 << uint(rng.Intn(8)))
				case 2:
					b = append(b, name(4)...)
				}
			}
			emit(fmt.Sprintf("dsub %s", hexs(b)))
		case 14:
			b := rockredis.VerifEncodeVerKey(name(12), randInt64(rng))
			if rng.Intn(3) == 0 && len(b) > 0 {
				switch rng.Intn(3) {
				case 0:
					b = b[:rng.Intn(len(b))]
				case 1:
					b[rng.Intn(len(b))] ^= byte(1 << uint(rng.Intn(8)))
				case 2:
					b = append(b, name(4)...)
				}
			}
			emit(fmt.Sprintf("dver %s", hexs(b)))
		case 15:
			emit(fmt.Sprintf("xtable %s", hexs(name(12))))
		}
	}
}

func quiet(f func() string) (out string) {
	defer func() {
		if r := recover(); r != nil {
			out = "panic"
		}
	}()
	return f()
}

func sign(x int) int {
	if x < 0 {
		return -1
	}
	if x > 0 {
		return 1
	}
	return 0
}

func newCodec(c *Ctx) func(string) string {
	seen := map[string]string{} // encoded bytes → tuple that produced them (all encoders jointly)
	record := func(enc []byte, tuple string) {
		if old, ok := seen[string(enc)]; ok && old != tuple {
			c.Violation("encoding-collision", fmt.Sprintf("%s and %s both encode to %x", old, tuple, enc))
		}
		if len(seen) < 400000 {
			seen[string(enc)] = tuple
		}
	}
	var lastB, lastBE []byte
	var lastI int64
	var lastIE []byte
	haveB, haveI := false, false
	var lastF float64
	var lastFE []byte
	haveF := false
	return func(line string) string {
		f := strings.Fields(line)
		switch f[0] {
		case "sub":
			dt, _ := strconv.Atoi(f[1])
			t, k, s := unhex(f[2]), unhex(f[3]), unhex(f[4])
			e := rockredis.VerifEncodeCollSubKey(byte(dt), t, k, s)
			record(e, "sub:"+f[1]+":"+f[2]+":"+f[3]+":"+f[4])
			d2, t2, k2, s2, err := rockredis.VerifDecodeCollSubKey(e)
			if err != nil || int(d2) != dt || !bytes.Equal(t, t2) || !bytes.Equal(k, k2) || !bytes.Equal(s, s2) {
				if len(t) < 65536 && len(k) < 65536 {
					c.Violation("decode-encode", line)
				}
			}
			// range membership: the sub-key lies in [start, stop) of its own collection
			st, sp := rockredis.VerifCollRange(byte(dt), t, k)
			if !(bytes.Compare(st, e) <= 0 && bytes.Compare(e, sp) < 0) {
				c.Violation("range-miss", line)
			}
			return hexs(e)
		case "kv":
			e := rockredis.VerifEncodeKVKey(unhex(f[1]))
			record(e, "kv:"+f[1])
			return hexs(e)
		case "meta":
			t, _ := strconv.Atoi(f[1])
			e := rockredis.VerifMetaKey(byte(t), unhex(f[2]))
			record(e, "meta:"+f[1]+":"+f[2])
			return hexs(e)
		case "list":
			seq, _ := strconv.ParseInt(f[3], 10, 64)
			e := rockredis.VerifLEncodeListKey(unhex(f[1]), unhex(f[2]), seq)
			record(e, "list:"+f[1]+":"+f[2]+":"+f[3])
			t2, k2, s2, err := rockredis.VerifLDecodeListKey(e)
			if err != nil || !bytes.Equal(t2, unhex(f[1])) || !bytes.Equal(k2, unhex(f[2])) || s2 != seq {
				c.Violation("decode-encode", line)
			}
			return hexs(e)
		case "ver":
			v, _ := strconv.ParseInt(f[2], 10, 64)
			e := rockredis.VerifEncodeVerKey(unhex(f[1]), v)
			k2, v2, err := rockredis.VerifDecodeVerKey(e)
			if err != nil || !bytes.Equal(k2, unhex(f[1])) || v2 != v {
				c.Violation("decode-encode", line)
			}
			record(e, "ver:"+f[1]+":"+f[2])
			return hexs(e)
		case "mbytes":
			b := unhex(f[1])
			e := rockredis.EncodeBytes(nil, b)
			if haveB && sign(bytes.Compare(lastB, b)) != sign(bytes.Compare(lastBE, e)) {
				c.Violation("memcmp-order:bytes", fmt.Sprintf("%x vs %x", lastB, b))
			}
			lastB, lastBE, haveB = b, e, true
			_, d, err := rockredis.DecodeBytes(e)
			if err != nil || !bytes.Equal(d, b) {
				c.Violation("decode-encode", line)
			}
			return hexs(e)
		case "mint":
			v, _ := strconv.ParseInt(f[1], 10, 64)
			e := rockredis.EncodeInt(nil, v)
			cmp := 0
			if lastI < v {
				cmp = -1
			} else if lastI > v {
				cmp = 1
			}
			if haveI && cmp != sign(bytes.Compare(lastIE, e)) {
				c.Violation("memcmp-order:int", fmt.Sprintf("%d vs %d", lastI, v))
			}
			lastI, lastIE, haveI = v, e, true
			return hexs(e)
		case "mfloat":
			u, _ := strconv.ParseUint(f[1], 16, 64)
			v := math.Float64frombits(u)
			e := rockredis.EncodeFloat(nil, v)
			if haveF && !math.IsNaN(v) && !math.IsNaN(lastF) {
				cmp := 0
				if lastF < v {
					cmp = -1
				} else if lastF > v {
					cmp = 1
				}
				if cmp != sign(bytes.Compare(lastFE, e)) {
					c.Violation("memcmp-order:float", fmt.Sprintf("%v vs %v", lastF, v))
				}
			}
			lastF, lastFE, haveF = v, e, true
			return hexs(e)
		case "zscore":
			u, _ := strconv.ParseUint(f[4], 16, 64)
			v := math.Float64frombits(u)
			e := rockredis.VerifZEncodeScoreKey(unhex(f[1]), unhex(f[2]), unhex(f[3]), v)
			if !math.IsNaN(v) {
				t2, k2, m2, s2, err := rockredis.VerifZDecodeScoreKey(e)
				if err != nil || !bytes.Equal(t2, unhex(f[1])) || !bytes.Equal(k2, unhex(f[2])) || !bytes.Equal(m2, unhex(f[3])) || s2 != v {
					c.Violation("decode-encode", line)
				}
				st, sp := rockredis.VerifZEncodeStartKey(unhex(f[1]), unhex(f[2])), rockredis.VerifZEncodeStopKey(unhex(f[1]), unhex(f[2]))
				if !(bytes.Compare(st, e) < 0 && bytes.Compare(e, sp) < 0) {
					c.Violation("range-miss", line)
				}
				if u != 0x8000000000000000 {
					record(e, "zscore:"+f[1]+":"+f[2]+":"+f[3]+":"+f[4])
				}
			}
			return hexs(e)
		case "trange":
			dt, _ := strconv.Atoi(f[1])
			return hexs(rockredis.VerifEncodeDataTableStart(byte(dt), unhex(f[2]))) + " " + hexs(rockredis.VerifEncodeDataTableEnd(byte(dt), unhex(f[2])))
		case "crange":
			dt, _ := strconv.Atoi(f[1])
			a, b := rockredis.VerifCollRange(byte(dt), unhex(f[2]), unhex(f[3]))
			return hexs(a) + " " + hexs(b)
		case "dsub":
			// decoders only ever see keys read back from the store; on damaged input some of them index out
			// of range. That is modelled behaviour (outcome `panic`), not a C12 violation.
			return quiet(func() string {
				dt, t, k, s, err := rockredis.VerifDecodeCollSubKey(unhex(f[1]))
				if err != nil {
					return "err"
				}
				return fmt.Sprintf("%d %s %s %s", dt, hexs(t), hexs(k), hexs(s))
			})
		case "dver":
			return quiet(func() string {
				k, v, err := rockredis.VerifDecodeVerKey(unhex(f[1]))
				if err != nil {
					return "err"
				}
				return fmt.Sprintf("%s %d", hexs(k), v)
			})
		case "xtable":
			t, k, err := rockredis.VerifExtractTable(unhex(f[1]))
			if err != nil {
				return "err"
			}
			return hexs(t) + " " + hexs(k)
		}
		return "bad-op"
	}
}
