package main

import (
	"fmt"
	"math/rand"
	"runtime"
	"runtime/debug"
	"sort"
	"strconv"
	"strings"
	"sync"
	"time"

	"github.com/youzan/ZanRedisDB/node"
	"github.com/youzan/ZanRedisDB/pkg/wait"
)

// Protocol waittable (C04): schedules of the wait-table model (lean/ZanVerif/Node/WaitTable.lean) replayed on the REAL
// KVNode.queueRequest / ProposeInternal / wait function, the REAL pkg/wait registry and the REAL sync.Pool of request
// headers (node.VerifWaitNode), line by line against the model (diff mode; lean/Driver/WaitTable.lean).
//
//	reset                a new node (empty registry, empty pool)
//	propose              queueRequest of a new request            → proposed r<k> c<ch>
//	proposefail          the same, the propose call is refused     → failed r<k> c<ch>
//	applied <k> <res>    a goroutine calls Trigger(id_k, res). It is stopped at the hook BETWEEN the delete and the store + signal
//	                     of Trigger (tools/instrument point trace:triggergap) and the harness probes the registry lock: HELD
//	                     (the code since fix 184e1b3) — the Trigger is let go at once and the op is ONE step; NOT held (the code
//	                     before the fix) — it stays stopped until `signal`   → applied r<k> reg | applied r<k> unreg | noop | panic r<k>
//	signal <k>           a stopped Trigger is let go (stores, signals)  → signaled r<k> | nosignal | panic r<k>
//	                     (always nosignal on a tree whose Trigger signals under the lock)
//	timeout <k>          the drop callback (cancel) of request k, then its wait function → gaveup r<k> | ended | both-ready
//	giveup-in-window <k> <res>   THE RACE OF THE REPAIRED DEFECT: Trigger(id_k, res) is stopped at the hook, THEN request k is
//	                     cancelled and its wait function runs on a second goroutine (only its ctx.Done() arm is ready). With
//	                     the lock held the waiter's own Trigger(id_k, err) has to WAIT (checked: the wait function has not
//	                     returned while the Trigger is stopped); the Trigger is let go, stores and signals, the waiter finds its
//	                     id unregistered and pools a header whose channel HOLDS the signal   → applied r<k> reg; gaveup r<k>
//	                     (on a tree whose Trigger dropped the lock: the waiter returns while the Trigger is still stopped and
//	                     pools an EMPTY channel → applied r<k> reg; gaveup r<k> in-gap; the Trigger stays stopped until `signal`)
//	                     | skip (request ended, unregistered, or its channel already holds a signal)
//	wake <k>             the wait function of request k while its channel holds a signal → woke r<k> <res> | ended | blocked
//
// k is taken modulo the number of requests of the session; <res> is v<n> (v0 = nil) or e<n> (an error value); r<k> is the
// k-th request of the session (= the model's id), c<ch> the channel it was registered with, numbered by first appearance
// (= the model's allocation order). Everything that touches the pool runs with GOMAXPROCS = 1 and the collector off, so
// sync.Pool is the deterministic private-slot + LIFO structure the driver mirrors.
// Oracle (stated on the real code): a wait function that returns success must have been preceded by `applied` of ITS OWN
// request with that result (early-wake); a request whose wait function returned is no longer registered
// (registration-leak); log.Panicf of Trigger (chan-full-panic); a waiter that gives up inside the Trigger window of its own
// id although the lock is held (window-not-exclusive). Sessions in which a waiter gave up inside an OPEN window (lock not
// held: the defect repaired by 184e1b3) are tagged @gap-giveup.
func init() {
	register(&Proto{Name: "waittable", Gen: genWaitTable, New: newWaitTable})
}

func genWaitTable(rng *rand.Rand, tier string, emit func(string)) {
	res := func() string {
		if rng.Intn(4) == 0 {
			return "e" + strconv.Itoa(1+rng.Intn(3))
		}
		return "v" + strconv.Itoa(rng.Intn(4))
	}
	// fixed scenarios first: the witness schedules of Props/C04Wait.lean and their clean counterparts
	for _, sc := range [][]string{
		{"propose", "timeout 0", "propose", "wake 1", "applied 1 v7", "wake 1"},                             // stale signal of a give-up: replaced
		{"propose", "timeout 0", "propose", "applied 0 v7", "signal 0", "wake 1", "applied 1 v3", "wake 1"}, // late apply of a request that gave up
		{"propose", "applied 0 v7", "timeout 0", "propose", "wake 1", "applied 1 v0", "wake 1", "wake 0"},   // both ready: skipped
		{"proposefail", "propose", "wake 1", "applied 1 e2", "wake 1", "propose", "propose", "applied 3 v1", "applied 2 v2", "wake 3", "wake 2"},
		// the race of the defect repaired by 184e1b3: the waiter gives up inside the Trigger of its own id (corpus/C04/waittable-trigger-gap.txt)
		{"propose", "giveup-in-window 0 v7", "propose", "signal 0", "wake 1", "applied 1 v5", "signal 1", "wake 1", "propose", "wake 2"},
	} {
		emit("reset")
		for _, l := range sc {
			emit(l)
		}
	}
	sessions := 400
	if tier == "thorough" {
		sessions = 20000
	}
	for s := 0; s < sessions; s++ {
		emit("reset")
		n := 0
		steps := 8 + rng.Intn(40)
		for i := 0; i < steps; i++ {
			pickReq := func() int {
				if n == 0 {
					return 0
				}
				if rng.Intn(4) != 0 { // prefer a recent request
					k := n - 1 - rng.Intn(minInt(n, 3))
					return k
				}
				return rng.Intn(n)
			}
			switch r := rng.Intn(100); {
			case r < 24 || n == 0:
				emit("propose")
				n++
			case r < 28:
				emit("proposefail")
				n++
			case r < 52:
				emit(fmt.Sprintf("applied %d %s", pickReq(), res()))
			case r < 62:
				emit(fmt.Sprintf("giveup-in-window %d %s", pickReq(), res()))
			case r < 65:
				emit(fmt.Sprintf("signal %d", pickReq())) // nothing to let go on a tree whose Trigger signals under the lock
			case r < 80:
				emit(fmt.Sprintf("timeout %d", pickReq()))
			default:
				emit(fmt.Sprintf("wake %d", pickReq()))
			}
		}
	}
}

func minInt(a, b int) int {
	if a < b {
		return a
	}
	return b
}

type wtErr int

func (e wtErr) Error() string { return "e" + strconv.Itoa(int(e)) }

type wtReq struct {
	id      uint64
	ch      chan struct{}
	chNo    int
	fr      *node.FutureRsp
	ended   bool
	applied map[string]bool // results handed to `applied` so far
}

type wtPause struct {
	reached chan bool     // the Trigger goroutine is in the gap; value: was the id registered
	release chan struct{} // closed by `signal`
	done    chan string   // the Trigger call returned ("" or the panic text)
}

func newWaitTable(c *Ctx) func(string) string {
	runtime.GOMAXPROCS(1)
	debug.SetGCPercent(-1)
	var (
		vn      *node.VerifWaitNode
		reqs    []*wtReq
		chNo    map[chan struct{}]int
		paused  map[int]*wtPause
		dead    bool
		gapTag  string
		mu      sync.Mutex
		pending = map[uint64]*wtPause{} // pause requests by real id, consumed by the hook
	)
	wait.SetVerifTriggerGap(func(id uint64, registered bool) {
		mu.Lock()
		p := pending[id]
		delete(pending, id)
		mu.Unlock()
		if p == nil {
			return
		}
		p.reached <- registered
		if registered {
			<-p.release
		}
	})
	letGo := func() {
		for k, p := range paused {
			close(p.release)
			select {
			case <-p.done:
			case <-time.After(5 * time.Second):
			}
			delete(paused, k)
		}
	}
	atExit = append(atExit, func() { letGo() })
	viol := func(class, what string) { c.Violation(class+gapTag, what) }
	checkLeak := func(k int, how string) {
		if vn.IsRegistered(reqs[k].id) {
			viol("registration-leak", fmt.Sprintf("r%d %s but its id is still registered (channel c%d)", k, how, reqs[k].chNo))
		}
	}
	parseRes := func(s string) (interface{}, bool) {
		if len(s) < 2 {
			return nil, false
		}
		n, err := strconv.Atoi(s[1:])
		if err != nil || n < 0 {
			return nil, false
		}
		switch s[0] {
		case 'v':
			if n == 0 {
				return nil, true
			}
			return int64(n), true
		case 'e':
			return wtErr(n), true
		}
		return nil, false
	}
	showRes := func(rsp interface{}, err error) string {
		if err != nil {
			if e, ok := err.(wtErr); ok {
				return e.Error()
			}
			return "err:" + err.Error()
		}
		switch v := rsp.(type) {
		case nil:
			return "v0"
		case int64:
			return "v" + strconv.FormatInt(v, 10)
		}
		return fmt.Sprintf("?%v", rsp)
	}
	propose := func(refuse bool) string {
		id, ch, fr, err := vn.Propose(refuse)
		if ch == nil {
			return "err:" + fmt.Sprint(err)
		}
		no, ok := chNo[ch]
		if !ok {
			no = len(chNo)
			chNo[ch] = no
		}
		k := len(reqs)
		r := &wtReq{id: id, ch: ch, chNo: no, fr: fr, applied: map[string]bool{}}
		reqs = append(reqs, r)
		if refuse {
			if err == nil {
				return fmt.Sprintf("failed-but-accepted r%d c%d", k, no)
			}
			r.ended = true
			c.Note("propose-refused")
			checkLeak(k, "was refused by raft")
			return fmt.Sprintf("failed r%d c%d", k, no)
		}
		if err != nil {
			r.ended = true
			return fmt.Sprintf("err:r%d %v", k, err)
		}
		if len(ch) != 0 {
			c.Note("registered-with-a-signalled-channel")
		}
		return fmt.Sprintf("proposed r%d c%d", k, no)
	}
	// startTrigger runs Trigger(id, val) on its own goroutine up to the hook between its two parts. "reg": the id was
	// registered, the goroutine is stopped there (let it go with close(p.release), then read p.done); "unreg": the id was not
	// registered, the call is over.
	startTrigger := func(r *wtReq, val interface{}) (*wtPause, string) {
		p := &wtPause{reached: make(chan bool, 1), release: make(chan struct{}), done: make(chan string, 1)}
		mu.Lock()
		pending[r.id] = p
		mu.Unlock()
		go func() {
			defer func() {
				if x := recover(); x != nil {
					p.done <- strings.SplitN(fmt.Sprint(x), "\n", 2)[0]
					return
				}
				p.done <- ""
			}()
			vn.Trigger(r.id, val)
		}()
		select {
		case reg := <-p.reached:
			if reg {
				c.Note("trigger-stopped-between-parts")
				return p, "reg"
			}
			<-p.done
			return p, "unreg"
		case msg := <-p.done:
			select {
			case <-p.reached: // an unregistered id: the hook was passed and the call is over, both are ready
				return p, "unreg"
			default:
			}
			c.Violation("harness-hook", "wait.Trigger returned without passing the hook between its parts (instrument point trace:triggergap missing?) "+msg)
			return p, "nohook"
		case <-time.After(10 * time.Second):
			c.Violation("harness-hook", "Trigger goroutine neither reached the hook nor returned")
			return p, "stuck"
		}
	}
	return func(line string) string {
		f := strings.Fields(line)
		if len(f) == 0 {
			return "bad-op"
		}
		if f[0] == "reset" {
			if paused != nil {
				letGo()
			}
			vn = node.NewVerifWaitNode()
			reqs, chNo, paused, dead, gapTag = nil, map[chan struct{}]int{}, map[int]*wtPause{}, false, ""
			return "ok"
		}
		if vn == nil {
			return "no-session"
		}
		if dead {
			return "dead"
		}
		arg := func(i int) (int, bool) {
			if len(f) <= i {
				return 0, false
			}
			k, err := strconv.Atoi(f[i])
			if err != nil || k < 0 {
				return 0, false
			}
			if len(reqs) == 0 {
				return 0, true
			}
			return k % len(reqs), true
		}
		switch f[0] {
		case "propose":
			return propose(false)
		case "proposefail":
			return propose(true)
		case "applied":
			k, ok := arg(1)
			if !ok || len(f) != 3 {
				return "bad-op"
			}
			val, ok := parseRes(f[2])
			if !ok {
				return "bad-op"
			}
			if len(reqs) == 0 {
				return "noop"
			}
			r := reqs[k]
			r.applied[f[2]] = true
			p, st := startTrigger(r, val)
			switch st {
			case "unreg":
				return fmt.Sprintf("applied r%d unreg", k)
			case "reg":
				if vn.ShardLocked(r.id) { // the store and the signal happen under the lock: nothing can come in between
					c.Note("trigger-window-under-lock")
					close(p.release)
					if msg := <-p.done; msg != "" {
						viol("chan-full-panic", fmt.Sprintf("Trigger of r%d: %s", k, msg))
						dead = true
						return fmt.Sprintf("panic r%d", k)
					}
					return fmt.Sprintf("applied r%d reg", k)
				}
				c.Note("trigger-window-open")
				if old := paused[k]; old != nil { // cannot happen: the second Trigger finds the id unregistered
					close(old.release)
				}
				paused[k] = p
				return fmt.Sprintf("applied r%d reg", k)
			}
			return fmt.Sprintf("applied r%d %s", k, st)
		case "giveup-in-window":
			k, ok := arg(1)
			if !ok || len(f) != 3 {
				return "bad-op"
			}
			val, ok := parseRes(f[2])
			if !ok {
				return "bad-op"
			}
			if len(reqs) == 0 || reqs[k].ended || len(reqs[k].ch) != 0 || !vn.IsRegistered(reqs[k].id) {
				return "skip"
			}
			r := reqs[k]
			r.applied[f[2]] = true
			p, st := startTrigger(r, val)
			if st != "reg" {
				return fmt.Sprintf("applied r%d %s", k, st)
			}
			if !vn.ShardLocked(r.id) {
				// the window is OPEN (a tree whose Trigger drops the lock before it stores and signals): the waiter gets through
				c.Note("trigger-window-open")
				c.Note("give-up-inside-trigger-gap")
				gapTag = "@gap-giveup"
				paused[k] = p
				if !vn.GiveUp(r.id) {
					return "err:no-cancel"
				}
				_, err := r.fr.WaitRsp()
				r.ended = true
				if !node.VerifIsProposalCanceled(err) {
					return fmt.Sprintf("applied r%d reg; gaveup r%d unexpected:%v", k, k, err)
				}
				checkLeak(k, "gave up")
				return fmt.Sprintf("applied r%d reg; gaveup r%d in-gap", k, k)
			}
			c.Note("trigger-window-under-lock")
			if !vn.GiveUp(r.id) {
				close(p.release)
				<-p.done
				return "err:no-cancel"
			}
			wdone := make(chan error, 1)
			go func() {
				_, err := r.fr.WaitRsp()
				wdone <- err
			}()
			for i := 0; i < 50; i++ { // one P: the waiter runs until it blocks (on the registry lock) or returns
				runtime.Gosched()
			}
			early := false
			var werr error
			select {
			case werr = <-wdone:
				early = true
				c.Violation("window-not-exclusive", fmt.Sprintf("the wait function of r%d returned (%v) while the Trigger of its id was stopped between delete and signal WITH the registry lock held", k, werr))
			default:
				c.Note("give-up-waits-for-trigger")
			}
			close(p.release)
			if msg := <-p.done; msg != "" {
				viol("chan-full-panic", fmt.Sprintf("Trigger of r%d: %s", k, msg))
				dead = true
				return fmt.Sprintf("panic r%d", k)
			}
			if !early {
				select {
				case werr = <-wdone:
				case <-time.After(10 * time.Second):
					c.Violation("harness-hook", fmt.Sprintf("the wait function of r%d did not return after its context was cancelled and the Trigger was let go", k))
					dead = true
					return "giveup-stuck"
				}
			}
			r.ended = true
			if !node.VerifIsProposalCanceled(werr) {
				return fmt.Sprintf("applied r%d reg; gaveup r%d unexpected:%v", k, k, werr)
			}
			checkLeak(k, "gave up")
			if early {
				return fmt.Sprintf("applied r%d reg; gaveup r%d early", k, k)
			}
			return fmt.Sprintf("applied r%d reg; gaveup r%d", k, k)
		case "signal":
			k, ok := arg(1)
			if !ok {
				return "bad-op"
			}
			p := paused[k]
			if p == nil {
				return "nosignal"
			}
			delete(paused, k)
			close(p.release)
			msg := <-p.done
			if msg != "" {
				viol("chan-full-panic", fmt.Sprintf("Trigger of r%d: %s", k, msg))
				dead = true
				return fmt.Sprintf("panic r%d", k)
			}
			return fmt.Sprintf("signaled r%d", k)
		case "timeout":
			k, ok := arg(1)
			if !ok {
				return "bad-op"
			}
			if len(reqs) == 0 || reqs[k].ended {
				return "ended"
			}
			r := reqs[k]
			if len(r.ch) != 0 {
				return "both-ready" // select would pick either arm: not replayed
			}
			if paused[k] != nil {
				gapTag = "@gap-giveup"
				c.Note("give-up-inside-trigger-gap")
			}
			if !vn.GiveUp(r.id) {
				return "err:no-cancel"
			}
			_, err := r.fr.WaitRsp()
			r.ended = true
			if !node.VerifIsProposalCanceled(err) {
				return fmt.Sprintf("gaveup r%d unexpected:%v", k, err)
			}
			checkLeak(k, "gave up")
			return fmt.Sprintf("gaveup r%d", k)
		case "wake":
			k, ok := arg(1)
			if !ok {
				return "bad-op"
			}
			if len(reqs) == 0 || reqs[k].ended {
				return "ended"
			}
			r := reqs[k]
			if len(r.ch) == 0 {
				return "blocked"
			}
			rsp, err := r.fr.WaitRsp()
			r.ended = true
			out := showRes(rsp, err)
			if err == nil && !r.applied[out] {
				viol("early-wake", fmt.Sprintf("r%d was acknowledged with %s although its entry was never applied with that result (applied so far: %v); it waited on channel c%d", k, out, keysOf(r.applied), r.chNo))
			}
			if _, isOwn := err.(wtErr); err != nil && (!isOwn || !r.applied[out]) {
				viol("early-wake", fmt.Sprintf("r%d was woken with error %s that is not a result of its own entry (applied so far: %v)", k, out, keysOf(r.applied)))
			}
			checkLeak(k, "woke")
			c.Note("woke")
			return fmt.Sprintf("woke r%d %s", k, out)
		}
		return "bad-op"
	}
}

func keysOf(m map[string]bool) []string {
	var ks []string
	for k := range m {
		ks = append(ks, k)
	}
	sort.Strings(ks)
	return ks
}
