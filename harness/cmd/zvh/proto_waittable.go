package main

import (
	"fmt"
	"math/rand"
	"runtime"
	"runtime/debug"
	"sort"
	"strconv"
	"strings"
	"sync"
	"time"

	"github.com/youzan/ZanRedisDB/node"
	"github.com/youzan/ZanRedisDB/pkg/wait"
)

// Protocol waittable (C04): schedules of the wait-table model (lean/ZanVerif/Node/WaitTable.lean) replayed on the REAL
// KVNode.queueRequest / ProposeInternal / wait function, the REAL pkg/wait registry and the REAL sync.Pool of request
// headers (node.VerifWaitNode), line by line against the model (diff mode; lean/Driver/WaitTable.lean).
//
//	reset                a new node (empty registry, empty pool)
//	propose              queueRequest of a new request            → proposed r<k> c<ch>
//	proposefail          the same, the propose call is refused     → failed r<k> c<ch>
//	applied <k> <res>    a goroutine calls Trigger(id_k, res); it is stopped BETWEEN the two parts of Trigger (hook after
//	                     w.l.Unlock(), tools/instrument point trace:triggergap)  → applied r<k> reg | applied r<k> unreg | noop
//	signal <k>           that Trigger is let go (stores, signals)  → signaled r<k> | nosignal | panic r<k>
//	timeout <k>          the drop callback (cancel) of request k, then its wait function → gaveup r<k> | ended | both-ready
//	wake <k>             the wait function of request k while its channel holds a signal → woke r<k> <res> | ended | blocked
//
// k is taken modulo the number of requests of the session; <res> is v<n> (v0 = nil) or e<n> (an error value); r<k> is the
// k-th request of the session (= the model's id), c<ch> the channel it was registered with, numbered by first appearance
// (= the model's allocation order). Everything that touches the pool runs on the executor goroutine with GOMAXPROCS = 1
// and the collector off, so sync.Pool is the deterministic private-slot + LIFO structure the driver mirrors.
// Oracle (stated on the real code): a wait function that returns success must have been preceded by `applied` of ITS OWN
// request with that result (early-wake); a request whose wait function returned is no longer registered
// (registration-leak); log.Panicf of Trigger (chan-full-panic). Sessions in which a waiter gave up inside the Trigger window
// of its own id are tagged @gap-giveup (known finding C04-trigger-gap).
func init() {
	register(&Proto{Name: "waittable", Gen: genWaitTable, New: newWaitTable})
}

func genWaitTable(rng *rand.Rand, tier string, emit func(string)) {
	res := func() string {
		if rng.Intn(4) == 0 {
			return "e" + strconv.Itoa(1+rng.Intn(3))
		}
		return "v" + strconv.Itoa(rng.Intn(4))
	}
	// fixed scenarios first: the three witness schedules of Props/C04Wait.lean and their clean counterparts
	for _, sc := range [][]string{
		{"propose", "timeout 0", "propose", "wake 1", "applied 1 v7", "signal 1", "wake 1"},                             // stale signal of a give-up: replaced
		{"propose", "timeout 0", "propose", "applied 0 v7", "signal 0", "wake 1", "applied 1 v3", "signal 1", "wake 1"}, // late apply of a request that gave up
		{"propose", "applied 0 v7", "signal 0", "timeout 0", "propose", "wake 1", "applied 1 v0", "signal 1", "wake 1"}, // both ready: skipped
		{"proposefail", "propose", "wake 1", "applied 1 e2", "signal 1", "wake 1", "propose", "propose", "applied 3 v1", "applied 2 v2", "signal 2", "signal 3", "wake 3", "wake 2"},
		{"propose", "applied 0 v7", "timeout 0", "propose", "signal 0", "wake 1", "applied 1 v5", "signal 1", "propose", "wake 2"}, // the Trigger gap
	} {
		emit("reset")
		for _, l := range sc {
			emit(l)
		}
	}
	sessions := 400
	if tier == "thorough" {
		sessions = 20000
	}
	for s := 0; s < sessions; s++ {
		emit("reset")
		gapFree := rng.Intn(3) != 0 // two thirds of the sessions keep every Trigger atomic w.r.t. the give-up of its own id
		n := 0
		inGap := map[int]bool{}
		steps := 8 + rng.Intn(40)
		for i := 0; i < steps; i++ {
			pickReq := func() int {
				if n == 0 {
					return 0
				}
				if rng.Intn(4) != 0 { // prefer a recent request
					k := n - 1 - rng.Intn(minInt(n, 3))
					return k
				}
				return rng.Intn(n)
			}
			switch r := rng.Intn(100); {
			case r < 22 || n == 0:
				emit("propose")
				n++
			case r < 26:
				emit("proposefail")
				n++
			case r < 48:
				k := pickReq()
				emit(fmt.Sprintf("applied %d %s", k, res()))
				inGap[k] = true
				if gapFree || rng.Intn(2) == 0 {
					emit(fmt.Sprintf("signal %d", k))
					delete(inGap, k)
				}
			case r < 60:
				if len(inGap) > 0 {
					k := -1
					for x := range inGap { // the oldest one (map order must not decide)
						if k < 0 || x < k {
							k = x
						}
					}
					emit(fmt.Sprintf("signal %d", k))
					delete(inGap, k)
				} else {
					emit(fmt.Sprintf("signal %d", pickReq()))
				}
			case r < 78:
				k := pickReq()
				if gapFree && inGap[k] {
					emit(fmt.Sprintf("signal %d", k))
					delete(inGap, k)
				}
				emit(fmt.Sprintf("timeout %d", k))
			default:
				emit(fmt.Sprintf("wake %d", pickReq()))
			}
		}
	}
}

func minInt(a, b int) int {
	if a < b {
		return a
	}
	return b
}

type wtErr int

func (e wtErr) Error() string { return "e" + strconv.Itoa(int(e)) }

type wtReq struct {
	id      uint64
	ch      chan struct{}
	chNo    int
	fr      *node.FutureRsp
	ended   bool
	applied map[string]bool // results handed to `applied` so far
}

type wtPause struct {
	reached chan bool     // the Trigger goroutine is in the gap; value: was the id registered
	release chan struct{} // closed by `signal`
	done    chan string   // the Trigger call returned ("" or the panic text)
}

func newWaitTable(c *Ctx) func(string) string {
	runtime.GOMAXPROCS(1)
	debug.SetGCPercent(-1)
	var (
		vn      *node.VerifWaitNode
		reqs    []*wtReq
		chNo    map[chan struct{}]int
		paused  map[int]*wtPause
		dead    bool
		gapTag  string
		mu      sync.Mutex
		pending = map[uint64]*wtPause{} // pause requests by real id, consumed by the hook
	)
	wait.SetVerifTriggerGap(func(id uint64, registered bool) {
		mu.Lock()
		p := pending[id]
		delete(pending, id)
		mu.Unlock()
		if p == nil {
			return
		}
		p.reached <- registered
		if registered {
			<-p.release
		}
	})
	letGo := func() {
		for k, p := range paused {
			close(p.release)
			select {
			case <-p.done:
			case <-time.After(5 * time.Second):
			}
			delete(paused, k)
		}
	}
	atExit = append(atExit, func() { letGo() })
	viol := func(class, what string) { c.Violation(class+gapTag, what) }
	checkLeak := func(k int, how string) {
		if vn.IsRegistered(reqs[k].id) {
			viol("registration-leak", fmt.Sprintf("r%d %s but its id is still registered (channel c%d)", k, how, reqs[k].chNo))
		}
	}
	parseRes := func(s string) (interface{}, bool) {
		if len(s) < 2 {
			return nil, false
		}
		n, err := strconv.Atoi(s[1:])
		if err != nil || n < 0 {
			return nil, false
		}
		switch s[0] {
		case 'v':
			if n == 0 {
				return nil, true
			}
			return int64(n), true
		case 'e':
			return wtErr(n), true
		}
		return nil, false
	}
	showRes := func(rsp interface{}, err error) string {
		if err != nil {
			if e, ok := err.(wtErr); ok {
				return e.Error()
			}
			return "err:" + err.Error()
		}
		switch v := rsp.(type) {
		case nil:
			return "v0"
		case int64:
			return "v" + strconv.FormatInt(v, 10)
		}
		return fmt.Sprintf("?%v", rsp)
	}
	propose := func(refuse bool) string {
		id, ch, fr, err := vn.Propose(refuse)
		if ch == nil {
			return "err:" + fmt.Sprint(err)
		}
		no, ok := chNo[ch]
		if !ok {
			no = len(chNo)
			chNo[ch] = no
		}
		k := len(reqs)
		r := &wtReq{id: id, ch: ch, chNo: no, fr: fr, applied: map[string]bool{}}
		reqs = append(reqs, r)
		if refuse {
			if err == nil {
				return fmt.Sprintf("failed-but-accepted r%d c%d", k, no)
			}
			r.ended = true
			c.Note("propose-refused")
			checkLeak(k, "was refused by raft")
			return fmt.Sprintf("failed r%d c%d", k, no)
		}
		if err != nil {
			r.ended = true
			return fmt.Sprintf("err:r%d %v", k, err)
		}
		if len(ch) != 0 {
			c.Note("registered-with-a-signalled-channel")
		}
		return fmt.Sprintf("proposed r%d c%d", k, no)
	}
	return func(line string) string {
		f := strings.Fields(line)
		if len(f) == 0 {
			return "bad-op"
		}
		if f[0] == "reset" {
			if paused != nil {
				letGo()
			}
			vn = node.NewVerifWaitNode()
			reqs, chNo, paused, dead, gapTag = nil, map[chan struct{}]int{}, map[int]*wtPause{}, false, ""
			return "ok"
		}
		if vn == nil {
			return "no-session"
		}
		if dead {
			return "dead"
		}
		arg := func(i int) (int, bool) {
			if len(f) <= i {
				return 0, false
			}
			k, err := strconv.Atoi(f[i])
			if err != nil || k < 0 {
				return 0, false
			}
			if len(reqs) == 0 {
				return 0, true
			}
			return k % len(reqs), true
		}
		switch f[0] {
		case "propose":
			return propose(false)
		case "proposefail":
			return propose(true)
		case "applied":
			k, ok := arg(1)
			if !ok || len(f) != 3 {
				return "bad-op"
			}
			val, ok := parseRes(f[2])
			if !ok {
				return "bad-op"
			}
			if len(reqs) == 0 {
				return "noop"
			}
			r := reqs[k]
			r.applied[f[2]] = true
			p := &wtPause{reached: make(chan bool, 1), release: make(chan struct{}), done: make(chan string, 1)}
			mu.Lock()
			pending[r.id] = p
			mu.Unlock()
			go func() {
				defer func() {
					if x := recover(); x != nil {
						p.done <- strings.SplitN(fmt.Sprint(x), "\n", 2)[0]
						return
					}
					p.done <- ""
				}()
				vn.Trigger(r.id, val)
			}()
			select {
			case reg := <-p.reached:
				if reg {
					if old := paused[k]; old != nil { // cannot happen: the second Trigger finds the id unregistered
						close(old.release)
					}
					paused[k] = p
					c.Note("trigger-stopped-in-gap")
					return fmt.Sprintf("applied r%d reg", k)
				}
				<-p.done
				return fmt.Sprintf("applied r%d unreg", k)
			case msg := <-p.done:
				select {
				case <-p.reached: // an unregistered id: the hook was passed and the call is over, both are ready
					return fmt.Sprintf("applied r%d unreg", k)
				default:
				}
				c.Violation("harness-hook", "wait.Trigger returned without passing the gap hook (instrument point trace:triggergap missing?) "+msg)
				return fmt.Sprintf("applied r%d atomic", k)
			case <-time.After(10 * time.Second):
				c.Violation("harness-hook", "Trigger goroutine neither reached the gap hook nor returned")
				return "applied-stuck"
			}
		case "signal":
			k, ok := arg(1)
			if !ok {
				return "bad-op"
			}
			p := paused[k]
			if p == nil {
				return "nosignal"
			}
			delete(paused, k)
			close(p.release)
			msg := <-p.done
			if msg != "" {
				viol("chan-full-panic", fmt.Sprintf("Trigger of r%d: %s", k, msg))
				dead = true
				return fmt.Sprintf("panic r%d", k)
			}
			return fmt.Sprintf("signaled r%d", k)
		case "timeout":
			k, ok := arg(1)
			if !ok {
				return "bad-op"
			}
			if len(reqs) == 0 || reqs[k].ended {
				return "ended"
			}
			r := reqs[k]
			if len(r.ch) != 0 {
				return "both-ready" // select would pick either arm: not replayed
			}
			if paused[k] != nil {
				gapTag = "@gap-giveup"
				c.Note("give-up-inside-trigger-gap")
			}
			if !vn.GiveUp(r.id) {
				return "err:no-cancel"
			}
			_, err := r.fr.WaitRsp()
			r.ended = true
			if !node.VerifIsProposalCanceled(err) {
				return fmt.Sprintf("gaveup r%d unexpected:%v", k, err)
			}
			checkLeak(k, "gave up")
			return fmt.Sprintf("gaveup r%d", k)
		case "wake":
			k, ok := arg(1)
			if !ok {
				return "bad-op"
			}
			if len(reqs) == 0 || reqs[k].ended {
				return "ended"
			}
			r := reqs[k]
			if len(r.ch) == 0 {
				return "blocked"
			}
			rsp, err := r.fr.WaitRsp()
			r.ended = true
			out := showRes(rsp, err)
			if err == nil && !r.applied[out] {
				viol("early-wake", fmt.Sprintf("r%d was acknowledged with %s although its entry was never applied with that result (applied so far: %v); it waited on channel c%d", k, out, keysOf(r.applied), r.chNo))
			}
			if _, isOwn := err.(wtErr); err != nil && (!isOwn || !r.applied[out]) {
				viol("early-wake", fmt.Sprintf("r%d was woken with error %s that is not a result of its own entry (applied so far: %v)", k, out, keysOf(r.applied)))
			}
			checkLeak(k, "woke")
			c.Note("woke")
			return fmt.Sprintf("woke r%d %s", k, out)
		}
		return "bad-op"
	}
}

func keysOf(m map[string]bool) []string {
	var ks []string
	for k := range m {
		ks = append(ks, k)
	}
	sort.Strings(ks)
	return ks
}
