package main

import (
	"fmt"
	"hash/crc32"
	"io"
	"io/ioutil"
	"math/rand"
	"os"
	"path/filepath"
	"sort"
	"strconv"
	"strings"
	"syscall"

	"github.com/coreos/pkg/capnslog"
	"github.com/youzan/ZanRedisDB/pkg/pbutil"
	"github.com/youzan/ZanRedisDB/raft"
	"github.com/youzan/ZanRedisDB/raft/raftpb"
	"github.com/youzan/ZanRedisDB/wal"
	"github.com/youzan/ZanRedisDB/wal/walpb"
)

// C05 — WAL reopen after a crash returns exactly a durable prefix.  Protocol `wal` (diff mode).
//
//	reset seg=<bytes> opt=<0|1> meta=<hex>          wal.Create in a fresh dir, wal.SegmentSizeBytes=seg
//	save st=<t>,<v>,<c> ents=<E>;<E>…|-             WAL.Save;  E = type:term:index:datahex|~:id:datatype:ts  (~ = nil Data)
//	snap <index> <term>                              WAL.SaveSnapshot
//	sync                                             WAL.Sync
//	    → ok segs=<n> tail=<seq>-<firstindex> w=<written offset of the tail> s=<fdatasync'ed offset> size=<file size>
//	bytes                                            → n=<k> <seq>-<index>/<size>/<hex of the file, trailing zeros trimmed> …
//	fenc <n> / fdec <u64>                            encodeFrameSize / decodeFrameSize of the real code
//	reopen none|cut=<n>|trunc=<n>|zero=<a>-<b>,…|flip=<off>:<bit> [snap=<k>] [at=<index>,<term>]
//	    the WAL dir is copied, the damage is applied to the tail segment of the copy, then the restart
//	    sequence of node/raft.go (startRaft → ValidSnapshotEntries, newest snapshot, openWAL: Open+ReadAll,
//	    Repair once on error, Open+ReadAll again) runs on the copy
//	    → ok rep=<0|1> start=(i,t) state=(t,v,c) ents=[(i,t,crc32c of the marshalled entry)…] snaps=[(i,t)…] meta=<hex>
//	    → err:<class> rep=<0|1>
//
// Oracle (independent of the Lean model): the answer of a reopen must be an error or the effect of a
// PREFIX of the saved items (entries / hard states / snapshot markers, in save order) that contains
// every item the WAL had promised to be durable before the damaged region was written.
func init() {
	register(&Proto{Name: "wal", Gen: genWal, New: newWal})
}

var walCrcTab = crc32.MakeTable(crc32.Castagnoli)

// at most 12 reports per violation class and run: the runner keeps 200 violations in all, and the bit-flip findings
// (known_findings.json) would otherwise crowd out anything else
var walViolCount = map[string]int{}

func walViol(c *Ctx, class, what string) {
	walViolCount[class]++
	if walViolCount[class] <= 12 {
		c.Violation(class, what)
	} else {
		c.Note("violations-not-listed:" + class)
	}
}

type walItem struct {
	kind byte // 'e' entry, 's' hard state, 'n' snapshot marker
	ent  raftpb.Entry
	raw  []byte // marshalled entry
	st   raftpb.HardState
	snap walpb.Snapshot
	seg  int // number of the segment file the record went into (the tail at the time of the call)
}

type walSess struct {
	root, dir string
	w         *wal.WAL
	seg       int64
	opt       bool
	meta      []byte
	items     []walItem
	dur       int   // items promised durable after the last completed operation
	prevDur   int   // … before the last mutating operation
	prevA     int64 // fdatasync'ed offset of the current tail before the last mutating operation (0 if the tail is new)
	prevTail  string
	prevSt    raftpb.HardState
	synced    map[uint64]int64 // inode → offset of the last real fdatasync
	version   int
	crashVer  int
	crashDir  string
	spec      []string // spec[j] = canonical effect of items[:j]; built lazily
	specFor   map[string]int
	specStart int
	dead      bool
}

func inodeOf(f *os.File) uint64 {
	fi, err := f.Stat()
	if err != nil {
		return 0
	}
	if st, ok := fi.Sys().(*syscall.Stat_t); ok {
		return st.Ino
	}
	return 0
}

func walTmpRoot() string {
	if fi, err := os.Stat("/dev/shm"); err == nil && fi.IsDir() {
		return "/dev/shm"
	}
	return os.TempDir()
}

// walSweepTmp removes the directories left behind by runs that ended without `end` (replays, shrunk op lists, killed
// processes): their names carry the pid of the process that made them.
func walSweepTmp() {
	fis, _ := ioutil.ReadDir(walTmpRoot())
	for _, fi := range fis {
		var pid int
		if n, _ := fmt.Sscanf(fi.Name(), "zvh-wal-%d-", &pid); n == 1 && pid != os.Getpid() {
			if _, err := os.Stat(fmt.Sprintf("/proc/%d", pid)); os.IsNotExist(err) {
				os.RemoveAll(filepath.Join(walTmpRoot(), fi.Name()))
			}
		}
	}
}

func walErrClass(err error) string {
	if _, ok := err.(walPanic); ok {
		return "panic-unmarshal"
	}
	switch err {
	case io.EOF:
		return "eof"
	case io.ErrUnexpectedEOF:
		return "unexpected-eof"
	case wal.ErrCRCMismatch, walpb.ErrCRCMismatch:
		return "crc"
	case wal.ErrSnapshotNotFound:
		return "snap-not-found"
	case wal.ErrSnapshotMismatch:
		return "snap-mismatch"
	case wal.ErrMetadataConflict:
		return "metadata-conflict"
	case wal.ErrFileNotFound:
		return "file-not-found"
	case wal.ErrMaxWALEntrySizeLimitExceeded:
		return "max-size"
	}
	m := err.Error()
	switch {
	case strings.HasPrefix(m, "index out of range"):
		return "index-gap"
	case strings.HasPrefix(m, "unexpected block type"):
		return "block-type"
	case strings.HasPrefix(m, "proto:"):
		return "unmarshal"
	}
	return "other"
}

func walParseKV(f []string) map[string]string {
	m := map[string]string{}
	for _, x := range f {
		if i := strings.Index(x, "="); i > 0 {
			m[x[:i]] = x[i+1:]
		}
	}
	return m
}

func atoiU(s string) uint64 { v, _ := strconv.ParseUint(s, 10, 64); return v }
func atoiI(s string) int64  { v, _ := strconv.ParseInt(s, 10, 64); return v }

func parseEnts(s string) ([]raftpb.Entry, bool) {
	if s == "-" || s == "" {
		return nil, true
	}
	var out []raftpb.Entry
	for _, p := range strings.Split(s, ";") {
		q := strings.Split(p, ":")
		if len(q) != 7 {
			return nil, false
		}
		e := raftpb.Entry{Type: raftpb.EntryType(atoiI(q[0])), Term: atoiU(q[1]), Index: atoiU(q[2]),
			ID: atoiU(q[4]), DataType: int32(atoiI(q[5])), Timestamp: atoiI(q[6])}
		if q[3] != "~" {
			e.Data = unhex(q[3])
		}
		out = append(out, e)
	}
	return out, true
}

func fmtEnt(e raftpb.Entry) string {
	d := "~"
	if e.Data != nil {
		d = hexs(e.Data)
	}
	return fmt.Sprintf("%d:%d:%d:%s:%d:%d:%d", int64(e.Type), e.Term, e.Index, d, e.ID, e.DataType, e.Timestamp)
}

func canonEnt(e *raftpb.Entry) string {
	return fmt.Sprintf("(%d,%d,%d)", e.Index, e.Term, crc32.Checksum(pbutil.MustMarshal(e), walCrcTab))
}

func trimZeros(b []byte) []byte {
	n := len(b)
	for n > 0 && b[n-1] == 0 {
		n--
	}
	return b[:n]
}

func walNames(dir string) []string {
	fis, _ := ioutil.ReadDir(dir)
	var ns []string
	for _, fi := range fis {
		if strings.HasSuffix(fi.Name(), ".wal") {
			ns = append(ns, fi.Name())
		}
	}
	sort.Strings(ns)
	return ns
}

func shortName(n string) string {
	var seq, idx uint64
	fmt.Sscanf(n, "%016x-%016x.wal", &seq, &idx)
	return fmt.Sprintf("%d-%d", seq, idx)
}

func (s *walSess) close() {
	if s.w != nil {
		func() {
			defer func() { recover() }()
			s.w.Close()
		}()
		s.w = nil
	}
	if s.root != "" {
		os.RemoveAll(s.root)
		s.root = ""
	}
}

// layout answers the common "ok …" line and performs the segment-level oracle check.
func (s *walSess) layout(c *Ctx) string {
	f, name, off := s.w.VerifTail()
	a := s.synced[inodeOf(f)]
	fi, _ := f.Stat()
	names := walNames(s.dir)
	if !s.opt {
		// every closed segment must have been fdatasync'ed completely before the next one became visible
		for _, n := range names[:len(names)-1] {
			st, err := os.Stat(filepath.Join(s.dir, n))
			if err == nil {
				if so := s.synced[st.Sys().(*syscall.Stat_t).Ino]; so != st.Size() {
					walViol(c, "unsynced-segment", fmt.Sprintf("segment %s has %d bytes but was fdatasync'ed only up to %d", n, st.Size(), so))
				}
			}
		}
	}
	return fmt.Sprintf("ok segs=%d tail=%s w=%d s=%d size=%d", len(names), shortName(name), off, a, fi.Size())
}

func (s *walSess) beginMut() {
	f, name, _ := s.w.VerifTail()
	s.prevDur = s.dur
	s.prevA = s.synced[inodeOf(f)]
	s.prevTail = name
	s.version++
}

func (s *walSess) endMut() {
	_, name, _ := s.w.VerifTail()
	if name != s.prevTail {
		s.prevA = 0
	}
	s.spec = nil
}

// ---- the property's own statement of "effect of a prefix of the saved items" (oracle side)

func (s *walSess) specOf(j int, pick int) string {
	var st raftpb.HardState
	var snaps []walpb.Snapshot
	for _, it := range s.items[:j] {
		switch it.kind {
		case 's':
			st = it.st
		case 'n':
			snaps = append(snaps, it.snap)
		}
	}
	valid := []walpb.Snapshot{{}} // Create writes the empty marker
	for _, sn := range snaps {
		if sn.Index <= st.Commit {
			valid = append(valid, sn)
		}
	}
	start := pickSnap(valid, pick)
	// the restart reads the segment files from the last one whose name index is <= the snapshot index on (wal.Open ->
	// searchIndex): entries that sit in older files are not seen, stale ones beyond the snapshot index included
	first := 0
	for i, n := range walNames(s.dir) {
		var seq, idx uint64
		if _, err := fmt.Sscanf(n, "%016x-%016x.wal", &seq, &idx); err == nil && idx <= start.Index {
			first = i
		}
	}
	var ents []raftpb.Entry
	for _, it := range s.items[:j] {
		if it.kind != 'e' || it.ent.Index <= start.Index || it.seg < first {
			continue
		}
		up := it.ent.Index - start.Index - 1
		if up > uint64(len(ents)) {
			return "err"
		}
		ents = append(ents[:up], it.ent) // a later entry with the same index replaces it and cuts the tail
	}
	return canonResult(start, st, ents, valid, s.meta)
}

func pickSnap(valid []walpb.Snapshot, pick int) walpb.Snapshot {
	// newest snapshot file (names sort by term, then index) whose marker is valid; pick=k skips k of them
	srt := append([]walpb.Snapshot{}, valid...)
	sort.SliceStable(srt, func(i, j int) bool {
		if srt[i].Term != srt[j].Term {
			return srt[i].Term > srt[j].Term
		}
		return srt[i].Index > srt[j].Index
	})
	if len(srt) == 0 {
		return walpb.Snapshot{}
	}
	return srt[pick%len(srt)]
}

func canonResult(start walpb.Snapshot, st raftpb.HardState, ents []raftpb.Entry, snaps []walpb.Snapshot, meta []byte) string {
	var b strings.Builder
	fmt.Fprintf(&b, "start=(%d,%d) state=(%d,%d,%d) ents=[", start.Index, start.Term, st.Term, st.Vote, st.Commit)
	for i := range ents {
		if i > 0 {
			b.WriteByte(',')
		}
		b.WriteString(canonEnt(&ents[i]))
	}
	b.WriteString("] snaps=[")
	for i, sn := range snaps {
		if i > 0 {
			b.WriteByte(',')
		}
		fmt.Fprintf(&b, "(%d,%d)", sn.Index, sn.Term)
	}
	b.WriteString("] meta=" + hexs(meta))
	return b.String()
}

// ---- the restart sequence of node/raft.go on a directory

type walPanic struct{ msg string }

func (p walPanic) Error() string { return p.msg }

func walRestart(dir string, opt bool, pick int, at *walpb.Snapshot) (res string, repaired bool, ents []raftpb.Entry, err error) {
	var open *wal.WAL
	defer func() {
		// pbutil.MustUnmarshal panics on a record whose payload does not parse (the node would die at restart)
		if r := recover(); r != nil {
			msg := strings.SplitN(fmt.Sprint(r), "\n", 2)[0]
			if !strings.Contains(msg, "unmarshal should never fail") {
				panic(r)
			}
			if open != nil {
				func() {
					defer func() { recover() }()
					open.Close()
				}()
			}
			res, ents, err = "", nil, walPanic{msg}
		}
	}()
	walSnaps, err := wal.ValidSnapshotEntries(dir)
	if err != nil {
		return "", false, nil, err
	}
	start := pickSnap(walSnaps, pick)
	if at != nil {
		start = *at // a snapshot file whose marker may be missing from the WAL
	}
	for {
		w, err := wal.Open(dir, start, opt)
		if err != nil {
			return "", repaired, nil, err
		}
		open = w
		meta, st, ents, err := w.ReadAll()
		if err != nil {
			w.Close()
			open = nil
			if repaired || !wal.Repair(dir) {
				return "", repaired, nil, err
			}
			repaired = true
			continue
		}
		w.Close()
		open = nil
		return canonResult(start, st, ents, walSnaps, meta), repaired, ents, nil
	}
}

func (s *walSess) prepareCrashDir() (tailName string, orig []byte, err error) {
	names := walNames(s.dir)
	if len(names) == 0 {
		return "", nil, fmt.Errorf("no wal files")
	}
	tailName = names[len(names)-1]
	if s.crashDir == "" || s.crashVer != s.version {
		s.crashDir = filepath.Join(s.root, "crash")
		os.RemoveAll(s.crashDir)
		if err = os.MkdirAll(s.crashDir, 0755); err != nil {
			return
		}
		for _, n := range names[:len(names)-1] {
			b, e := ioutil.ReadFile(filepath.Join(s.dir, n))
			if e != nil {
				return "", nil, e
			}
			if e = ioutil.WriteFile(filepath.Join(s.crashDir, n), b, 0600); e != nil {
				return "", nil, e
			}
		}
		s.crashVer = s.version
	} else {
		// leftovers of the previous run on this copy
		fis, _ := ioutil.ReadDir(s.crashDir)
		for _, fi := range fis {
			keep := false
			for _, n := range names[:len(names)-1] {
				if fi.Name() == n {
					keep = true
				}
			}
			if !keep {
				os.Remove(filepath.Join(s.crashDir, fi.Name()))
			}
		}
	}
	orig, err = ioutil.ReadFile(filepath.Join(s.dir, tailName))
	return
}

func (s *walSess) reopen(c *Ctx, f []string) string {
	if s.w == nil {
		return "err:no-session"
	}
	kv := walParseKV(f[1:])
	pick := int(atoiI(kv["snap"]))
	tailName, orig, err := s.prepareCrashDir()
	if err != nil {
		return "err:harness " + err.Error()
	}
	tf, _, W := s.w.VerifTail()
	A := s.synced[inodeOf(tf)]
	img := append([]byte{}, orig...)
	dmgStart := int64(len(img)) + 1 // first damaged byte
	kind := "none"
	inModel := true // is this damage one that a crash can produce (sector-atomic writes, zero-filled preallocation)?
	switch {
	case kv["cut"] != "":
		// the file simply ends at byte n (size not preallocated / lost): every n is a possible crash state
		kind = "cut"
		n := atoiI(kv["cut"])
		if n > int64(len(img)) {
			n = int64(len(img))
		}
		if n < 0 {
			n = 0
		}
		img = img[:n]
		if n < W {
			dmgStart = n
		}
	case kv["trunc"] != "":
		// bytes from n on read as zeros (preallocated file): a crash state only when n is a sector boundary,
		// the offset where the last write started, or nothing written is lost
		kind = "trunc"
		n := atoiI(kv["trunc"])
		if n > int64(len(img)) {
			n = int64(len(img))
		}
		if n < 0 {
			n = 0
		}
		for i := n; i < int64(len(img)); i++ {
			img[i] = 0
		}
		if n < W {
			dmgStart = n
			inModel = n%512 == 0 || n == s.prevA
			if !inModel {
				kind = "trunc-unaligned"
			}
		}
	case kv["zero"] != "":
		kind = "zero"
		for _, r := range strings.Split(kv["zero"], ",") {
			ab := strings.Split(r, "-")
			if len(ab) != 2 {
				return "bad-op"
			}
			a, b := atoiI(ab[0]), atoiI(ab[1])
			if b > int64(len(img)) {
				b = int64(len(img))
			}
			if a < 0 {
				a = 0
			}
			for i := a; i < b; i++ {
				img[i] = 0
			}
			if a < b && a < dmgStart && a < W {
				dmgStart = a
			}
			// whole sectors, except that the sector holding the start of the last write keeps its old part
			if a < b && !((a%512 == 0 || a == s.prevA) && (b%512 == 0 || b == int64(len(img)))) {
				inModel = false
			}
		}
	case kv["flip"] != "":
		kind = "flip"
		ob := strings.Split(kv["flip"], ":")
		if len(ob) != 2 {
			return "bad-op"
		}
		off, bit := atoiI(ob[0]), uint(atoiI(ob[1]))%8
		if off >= 0 && off < int64(len(img)) {
			img[off] ^= 1 << bit
			kind = "flip-" + walRegion(orig, off)
		} else {
			kind = "flip-outside"
		}
	}
	if err := ioutil.WriteFile(filepath.Join(s.crashDir, tailName), img, 0600); err != nil {
		return "err:harness " + err.Error()
	}
	var at *walpb.Snapshot
	if p := strings.Split(kv["at"], ","); len(p) == 2 {
		at = &walpb.Snapshot{Index: atoiU(p[0]), Term: atoiU(p[1])}
	}
	res, repaired, ents, rerr := walRestart(s.crashDir, s.opt, pick, at)
	if at != nil {
		// Open at a snapshot whose marker is not in the WAL: ReadAll's contract is ErrSnapshotNotFound
		// ("If it cannot read out the expected snap, it will return ErrSnapshotNotFound")
		known := at.Index == 0 && at.Term == 0
		for _, it := range s.items {
			if it.kind == 'n' && it.snap.Index == at.Index {
				known = true
			}
		}
		if !known && rerr == nil {
			// not a violation of C05 (every returned record is one that was saved); kept as a counted observation:
			// ReadAll's own contract promises ErrSnapshotNotFound here, the assignment is overwritten before the return
			c.Note("observation:snap-not-found-masked")
		}
		rep := 0
		if repaired {
			rep = 1
		}
		if rerr != nil {
			return fmt.Sprintf("err:%s rep=%d", walErrClass(rerr), rep)
		}
		return fmt.Sprintf("ok rep=%d %s", rep, res)
	}
	rep := 0
	if repaired {
		rep = 1
	}
	isFlip := strings.HasPrefix(kind, "flip")
	s.buildSpec(pick)
	need := 0
	switch {
	case isFlip:
		// "corrupted bytes are reported as an error or cut off, never returned as data": after a bit flip ANY prefix is
		// admissible (the log may be cut at the damaged record even if later records were synced); how often synced
		// records are dropped this way is counted below (observation:flip-cut-off-drops-synced)
		need = -2
	case dmgStart >= A:
		need = s.dur
	case dmgStart >= s.prevA:
		need = s.prevDur
	default:
		need = 0 // damage inside the fdatasync'ed region is outside the crash model: only "a prefix" is required
	}
	if need == 0 && s.opt && !isFlip {
		need = -2 // optimized-fsync mode does not even fdatasync the records written by Create
	}
	what := fmt.Sprintf("%s (tail w=%d synced=%d, synced before the last operation=%d, items=%d promised durable=%d/%d)",
		strings.Join(f[1:], " "), W, A, s.prevA, len(s.items), s.prevDur, s.dur)
	if rerr != nil {
		cls := walErrClass(rerr)
		c.Note("reopen:" + kind + ":err:" + cls)
		specErr := false // does the property's own reading of an admissible prefix fail as well (e.g. a gap in the saved indexes)?
		for j := need; j <= len(s.items); j++ {
			if j >= 0 && s.spec[j] == "err" {
				specErr = true
			}
		}
		switch {
		case cls == "panic-unmarshal" && isFlip:
			// the restart dies in MustUnmarshal: a loud failure, which the property admits for corrupted bytes
			c.Note("observation:" + kind + "-restart-panics")
		case cls == "panic-unmarshal":
			walViol(c, kind+"-restart-panics", fmt.Sprintf("%s: %v", what, rerr))
		case kind == "none" && !specErr:
			walViol(c, "undamaged-fails", fmt.Sprintf("reopening the undamaged WAL fails: %v", rerr))
		case kind == "flip-pad" && !specErr:
			walViol(c, "flip-pad-fails", fmt.Sprintf("%s: restart fails with %v", what, rerr))
		case !isFlip && inModel && dmgStart >= s.prevA && !specErr:
			// a crash (lost / torn unsynced tail) must be recoverable
			walViol(c, "crash-unrecoverable", fmt.Sprintf("%s: restart fails with %v although only bytes at or after the last fdatasync'ed offset were lost (first lost byte %d)",
				what, rerr, dmgStart))
		}
		return fmt.Sprintf("err:%s rep=%d", cls, rep)
	}
	c.Note(fmt.Sprintf("reopen:%s:ok:rep=%d", kind, rep))
	// ---- oracle on a successful restart
	j, isPrefix := s.specFor[res]
	pre := ""
	if isFlip {
		pre = kind + "-" // violations after a bit flip are classified by the region that was hit
	}
	if !isPrefix {
		// a returned entry that was never written with these bytes?
		written := map[string]bool{}
		for _, it := range s.items {
			if it.kind == 'e' {
				written[string(it.raw)] = true
			}
		}
		for i := range ents {
			if !written[string(pbutil.MustMarshal(&ents[i]))] {
				walViol(c, pre+"corrupt-returned", fmt.Sprintf("%s: entry %d/%d returned with bytes that were never saved", what, ents[i].Index, ents[i].Term))
				return fmt.Sprintf("ok rep=%d %s", rep, res)
			}
		}
		walViol(c, pre+"not-a-prefix", fmt.Sprintf("%s: result is not the effect of any prefix of the saved items: %s", what, res))
	} else if isFlip && j < s.dur {
		c.Note("observation:flip-cut-off-drops-synced")
	} else if j < need {
		walViol(c, pre+"lost-synced", fmt.Sprintf("%s: result is the effect of the first %d items only, %d were promised durable", what, j, need))
	}
	return fmt.Sprintf("ok rep=%d %s", rep, res)
}

func (s *walSess) buildSpec(pick int) {
	if s.spec != nil && s.specStart == pick {
		return
	}
	s.spec = make([]string, len(s.items)+1)
	s.specFor = map[string]int{}
	for j := 0; j <= len(s.items); j++ {
		s.spec[j] = s.specOf(j, pick)
		if s.spec[j] != "err" {
			s.specFor[s.spec[j]] = j // the largest prefix with that effect
		}
	}
	// the records written by Create (crc, metadata, empty snapshot marker) precede the first item
	var none []byte
	s.specFor[canonResult(walpb.Snapshot{}, raftpb.HardState{}, nil, nil, none)] = -2
	s.specFor[canonResult(walpb.Snapshot{}, raftpb.HardState{}, nil, nil, s.meta)] = -1
	s.specStart = pick
}

// walRegion classifies a byte offset of an (undamaged) segment image: len = the 8-byte length word,
// hdr = the protobuf framing of the record (type, crc, data length), data = the record's data bytes (the
// CRC-protected part), pad = padding, free = behind the last record.  Uses the real frame arithmetic and the
// real Record.Unmarshal.
func walRegion(img []byte, off int64) string {
	pos := int64(0)
	for pos+8 <= int64(len(img)) {
		var l uint64
		for k := 0; k < 8; k++ {
			l |= uint64(img[pos+int64(k)]) << (8 * uint(k))
		}
		if l == 0 {
			return "free"
		}
		rb, pb := wal.VerifDecodeFrameSize(int64(l))
		end := pos + 8 + rb + pb
		if rb < 0 || end > int64(len(img)) {
			return "free"
		}
		if off < pos+8 {
			return "len"
		}
		if off < end {
			var rec walpb.Record
			if err := rec.Unmarshal(img[pos+8 : pos+8+rb]); err != nil {
				return "free"
			}
			ds := pos + 8 + rb - int64(len(rec.Data))
			switch {
			case off < ds:
				return "hdr"
			case off < pos+8+rb:
				return "data"
			}
			return "pad"
		}
		pos = end
	}
	return "free"
}

func newWal(c *Ctx) func(string) string {
	s := &walSess{}
	walSweepTmp()
	walViolCount = map[string]int{}
	wal.VerifQuiet()
	capnslog.SetFormatter(capnslog.NewNilFormatter())
	wal.VerifOnFdatasync = func(f *os.File, off int64) {
		if s.synced != nil {
			s.synced[inodeOf(f)] = off
		}
	}
	return func(line string) string {
		f := strings.Fields(line)
		if len(f) == 0 {
			return "bad-op"
		}
		switch f[0] {
		case "reset":
			s.close()
			kv := walParseKV(f[1:])
			root, err := ioutil.TempDir(walTmpRoot(), fmt.Sprintf("zvh-wal-%d-", os.Getpid()))
			if err != nil {
				return "err:harness " + err.Error()
			}
			*s = walSess{root: root, dir: filepath.Join(root, "wal"), seg: atoiI(kv["seg"]), opt: kv["opt"] == "1",
				meta: unhex(kv["meta"]), synced: map[uint64]int64{}}
			if s.seg <= 0 {
				s.seg = 1024
			}
			wal.SegmentSizeBytes = s.seg
			w, err := wal.Create(s.dir, s.meta, s.opt)
			if err != nil {
				return "err:create " + err.Error()
			}
			s.w = w
			s.version++
			if !s.opt && len(s.synced) == 0 {
				// Create must fdatasync the first segment; if nothing was observed, WAL.sync no longer reaches
				// fileutil.Fdatasync(w.tail().File) (tools/instrument could not place the hook) or never syncs
				walViol(c, "no-fdatasync-observed", "wal.Create returned without an observable fdatasync of the segment file")
			}
			ans := s.layout(c)
			// Create is atomic (the directory is renamed into place after the sync): nothing of it can be lost
			tf, tn, _ := s.w.VerifTail()
			s.prevA, s.prevTail = s.synced[inodeOf(tf)], tn
			return ans
		case "save":
			if s.w == nil {
				return "err:no-session"
			}
			kv := walParseKV(f[1:])
			var st raftpb.HardState
			if p := strings.Split(kv["st"], ","); len(p) == 3 {
				st = raftpb.HardState{Term: atoiU(p[0]), Vote: atoiU(p[1]), Commit: atoiU(p[2])}
			}
			ents, ok := parseEnts(kv["ents"])
			if !ok {
				return "bad-op"
			}
			s.beginMut()
			// what the WAL promises for this call (raft's contract; in optimized-fsync mode the fork
			// only promises vote/term changes)
			// Raft's persistent state — current term, vote, log entries — must be on stable storage before the call
			// returns (stated here, not taken from raft.MustSync, which is part of the code under test)
			promised := len(ents) != 0 || st.Vote != s.prevSt.Vote || st.Term != s.prevSt.Term
			if s.opt {
				promised = !raft.IsEmptyHardState(st) && (st.Vote != s.prevSt.Vote || st.Term != s.prevSt.Term)
			}
			if raft.IsEmptyHardState(st) && len(ents) == 0 {
				promised = false
			}
			seg := len(walNames(s.dir)) - 1 // a Save writes into the current tail and cuts afterwards
			err := s.w.Save(st, ents)
			if err != nil {
				return "err:save " + err.Error()
			}
			for i := range ents {
				s.items = append(s.items, walItem{kind: 'e', ent: ents[i], raw: pbutil.MustMarshal(&ents[i]), seg: seg})
			}
			if !raft.IsEmptyHardState(st) {
				s.items = append(s.items, walItem{kind: 's', st: st, seg: seg})
				s.prevSt = st
			}
			if promised {
				s.dur = len(s.items)
			}
			s.endMut()
			return s.layout(c)
		case "snap":
			if s.w == nil || len(f) < 3 {
				return "err:no-session"
			}
			sn := walpb.Snapshot{Index: atoiU(f[1]), Term: atoiU(f[2])}
			s.beginMut()
			if err := s.w.SaveSnapshot(sn); err != nil {
				return "err:snap " + err.Error()
			}
			s.items = append(s.items, walItem{kind: 'n', snap: sn, seg: len(walNames(s.dir)) - 1})
			if !s.opt {
				s.dur = len(s.items)
			}
			s.endMut()
			return s.layout(c)
		case "sync":
			if s.w == nil {
				return "err:no-session"
			}
			s.beginMut()
			if err := s.w.Sync(); err != nil {
				return "err:sync " + err.Error()
			}
			s.dur = len(s.items)
			s.endMut()
			return s.layout(c)
		case "bytes":
			if s.w == nil {
				return "err:no-session"
			}
			names := walNames(s.dir)
			var b strings.Builder
			fmt.Fprintf(&b, "n=%d", len(names))
			for _, n := range names {
				data, _ := ioutil.ReadFile(filepath.Join(s.dir, n))
				fmt.Fprintf(&b, " %s/%d/%s", shortName(n), len(data), hexs(trimZeros(data)))
			}
			return b.String()
		case "fenc":
			n, _ := strconv.Atoi(f[1])
			l, p := wal.VerifEncodeFrameSize(n)
			return fmt.Sprintf("len=%d pad=%d", l, p)
		case "fdec":
			u, _ := strconv.ParseUint(f[1], 10, 64)
			r, p := wal.VerifDecodeFrameSize(int64(u))
			return fmt.Sprintf("rec=%d pad=%d", r, p)
		case "consts":
			m := wal.VerifConsts()
			var ks []string
			for k := range m {
				ks = append(ks, k)
			}
			sort.Strings(ks)
			var b []string
			for _, k := range ks {
				b = append(b, fmt.Sprintf("%s=%d", k, m[k]))
			}
			return strings.Join(b, " ")
		case "reopen":
			return s.reopen(c, f)
		case "end":
			s.close()
			return "ok"
		}
		return "bad-op"
	}
}

// ---------------------------------------------------------------- generator

type walGen struct {
	rng   *rand.Rand
	emit  func(string)
	ex    func(string) string
	last  uint64 // last entry index
	term  uint64
	vote  uint64
	comm  uint64
	snapI uint64
	terms map[uint64]uint64
}

type walLay struct {
	segs       int
	w, s, size int64
	tail       string
}

func parseLay(ans string) (l walLay, ok bool) {
	if !strings.HasPrefix(ans, "ok ") {
		return l, false
	}
	kv := walParseKV(strings.Fields(ans))
	l.segs = int(atoiI(kv["segs"]))
	l.w, l.s, l.size, l.tail = atoiI(kv["w"]), atoiI(kv["s"]), atoiI(kv["size"]), kv["tail"]
	return l, true
}

func (g *walGen) do(line string) (l walLay, ok bool) {
	g.emit(line)
	if strings.HasPrefix(line, "reopen") || strings.HasPrefix(line, "f") || line == "bytes" {
		return walLay{}, true // the generator only needs the layout after mutating operations
	}
	defer func() {
		if r := recover(); r != nil {
			l, ok = walLay{}, false
		}
	}()
	return parseLay(g.ex(line))
}

func (g *walGen) randData() []byte {
	r := g.rng
	n := r.Intn(40)
	switch r.Intn(12) {
	case 0:
		n = 0
	case 1, 2:
		n = 100 + r.Intn(500)
	case 3:
		n = 500 + r.Intn(900)
	}
	b := make([]byte, n)
	switch r.Intn(8) {
	case 0: // zeros: whole sectors of a record may legitimately be zero
	case 1:
		for i := range b {
			if r.Intn(40) == 0 {
				b[i] = byte(1 + r.Intn(255))
			}
		}
	default:
		r.Read(b)
	}
	return b
}

func (g *walGen) saveLine() string {
	r := g.rng
	var ents []string
	k := 0
	switch r.Intn(10) {
	case 0:
		k = 0
	case 1, 2, 3, 4:
		k = 1
	case 5, 6, 7:
		k = 2 + r.Intn(2)
	default:
		k = 1 + r.Intn(6)
	}
	termChanged := false
	if r.Intn(6) == 0 {
		g.term += 1 + uint64(r.Intn(2))
		g.vote = uint64(r.Intn(4))
		termChanged = true
	} else if r.Intn(15) == 0 {
		g.vote = uint64(1 + r.Intn(3))
		termChanged = true
	}
	if k > 0 && g.last > g.comm && (termChanged && r.Intn(2) == 0 || r.Intn(12) == 0) {
		// a new leader overwrites an uncommitted suffix: the index goes back
		g.last = g.comm + uint64(r.Intn(int(g.last-g.comm)))
	}
	for i := 0; i < k; i++ {
		g.last++
		e := raftpb.Entry{Term: g.term, Index: g.last, ID: uint64(r.Intn(1000)), Timestamp: int64(r.Intn(1 << 30))}
		if r.Intn(10) == 0 {
			e.Type = raftpb.EntryConfChange
		}
		if r.Intn(5) == 0 {
			e.DataType = int32(r.Intn(3))
		}
		if r.Intn(25) != 0 {
			e.Data = g.randData()
		}
		g.terms[e.Index] = e.Term
		ents = append(ents, fmtEnt(e))
	}
	if g.last > g.comm && r.Intn(3) != 0 {
		g.comm += uint64(r.Intn(int(g.last-g.comm) + 1))
	}
	st := fmt.Sprintf("%d,%d,%d", g.term, g.vote, g.comm)
	if r.Intn(12) == 0 && k > 0 {
		st = "0,0,0" // entries only
	}
	es := "-"
	if len(ents) > 0 {
		es = strings.Join(ents, ";")
	}
	return "save st=" + st + " ents=" + es
}

// crash variants of the current state: lay = layout after the last mutating op, prevA = synced offset of
// the tail before it (0 when the tail is new)
func (g *walGen) crashes(lay walLay, prevA int64, budget int, exhaustive bool) {
	r := g.rng
	g.do("reopen none")
	lo, hi := prevA, lay.w
	if hi < lo {
		lo = hi
	}
	var offs []int64
	if exhaustive || hi-lo <= int64(budget) {
		for n := lo; n <= hi; n++ {
			offs = append(offs, n)
		}
	} else {
		seen := map[int64]bool{}
		add := func(n int64) {
			if n >= lo && n <= hi && !seen[n] {
				seen[n] = true
				offs = append(offs, n)
			}
		}
		add(lo)
		add(hi)
		// around every 8-byte boundary (frames are 8-aligned) with a random phase, sector boundaries densely
		for n := lo - lo%8; n <= hi && len(offs) < budget*2/3; n += 8 * (1 + (hi-lo)/int64(8*budget/4+1)) {
			add(n - 1)
			add(n)
			add(n + 1)
			add(n + 2 + int64(r.Intn(6)))
		}
		for n := lo - lo%512; n <= hi+512; n += 512 {
			for d := int64(-9); d <= 9; d++ {
				add(n + d)
			}
		}
		for len(offs) < budget {
			add(lo + int64(r.Int63n(hi-lo+1)))
		}
		sort.Slice(offs, func(i, j int) bool { return offs[i] < offs[j] })
	}
	for _, n := range offs {
		// the file ends at n: every byte offset
		l := fmt.Sprintf("reopen cut=%d", n)
		if r.Intn(40) == 0 {
			l += fmt.Sprintf(" snap=%d", 1+r.Intn(2))
		}
		g.do(l)
		// zero-filled from n: sector boundaries and the start of the last write are crash states; a sample of the
		// other offsets is run for the model comparison only
		if n%512 == 0 || n == lo || n == hi || n%8 == 0 && r.Intn(4) == 0 || r.Intn(16) == 0 {
			g.do(fmt.Sprintf("reopen trunc=%d", n))
		}
	}
	// torn writes: any subset of the 512-byte sectors written since the last fdatasync may be missing
	if hi > lo {
		s0, s1 := lo/512, (hi-1)/512
		nv := 6
		if exhaustive {
			nv = 24
		}
		for v := 0; v < nv; v++ {
			var rs []string
			for sct := s0; sct <= s1; sct++ {
				if r.Intn(2) == 0 || (s1 == s0) {
					a, b := sct*512, (sct+1)*512
					if a < lo {
						a = lo
					}
					rs = append(rs, fmt.Sprintf("%d-%d", a, b))
				}
			}
			if len(rs) == 0 {
				continue
			}
			g.do("reopen zero=" + strings.Join(rs, ","))
			if s1 == s0 {
				break
			}
		}
	}
}

// Open at a snapshot that may or may not have a marker in the WAL
func (g *walGen) openAt() {
	r := g.rng
	i := uint64(r.Intn(int(g.last) + 3))
	t := g.terms[i]
	if r.Intn(3) == 0 {
		t = uint64(r.Intn(4))
	}
	g.do(fmt.Sprintf("reopen none at=%d,%d", i, t))
}

func (g *walGen) flips(lay walLay, n int) {
	r := g.rng
	if lay.w <= 0 {
		return
	}
	for i := 0; i < n; i++ {
		g.do(fmt.Sprintf("reopen flip=%d:%d", r.Int63n(lay.w), r.Intn(8)))
	}
}

func genWal(rng *rand.Rand, tier string, emit func(string)) {
	c := &Ctx{notes: map[string]int{}}
	g := &walGen{rng: rng, emit: emit, ex: newWal(c)}
	g.do("consts")
	// frame-size arithmetic against the real functions
	for i := 0; i < 300; i++ {
		n := rng.Intn(64)
		switch rng.Intn(4) {
		case 0:
			n = rng.Intn(1 << 20)
		case 1:
			n = rng.Intn(1 << 30)
		}
		g.do(fmt.Sprintf("fenc %d", n))
		var u uint64
		switch rng.Intn(4) {
		case 0:
			u = rng.Uint64()
		case 1:
			u = uint64(rng.Intn(1<<20)) | uint64(0x80|rng.Intn(8))<<56
		case 2:
			u = uint64(rng.Intn(1<<20)) | uint64(rng.Intn(256))<<56
		default:
			u = uint64(rng.Intn(1 << 16))
		}
		g.do(fmt.Sprintf("fdec %d", u))
	}
	nh, budget, exhaustive, nflip := 30, 60, false, 7
	if tier == "thorough" {
		nh, budget, exhaustive, nflip = 300, 400, true, 40
	}
	for h := 0; h < nh; h++ {
		*g = walGen{rng: rng, emit: emit, ex: g.ex, terms: map[uint64]uint64{}}
		g.term = 1
		seg := []int{256, 512, 1024, 2048, 4096}[rng.Intn(5)]
		if tier == "thorough" && rng.Intn(10) == 0 {
			seg = 16384
		}
		opt := 0
		if rng.Intn(6) == 0 {
			opt = 1
		}
		meta := make([]byte, 1+rng.Intn(24))
		rng.Read(meta)
		big := h%15 == 7 // one history in 15 has entries that overflow the PageWriter's 128 KiB buffer
		lay, ok := g.do(fmt.Sprintf("reset seg=%d opt=%d meta=%s", seg, opt, hexs(meta)))
		if !ok {
			continue
		}
		g.crashes(lay, lay.s, budget, exhaustive)
		steps := 4 + rng.Intn(22)
		if big {
			steps = 5 // the 200 KB segment is decoded again by every reopen: keep the history short
		}
		lagCutAt := -1 // at this step: a LAGGING snapshot marker, then hard-state-only saves until the segment is cut
		if !big && rng.Intn(3) == 0 {
			lagCutAt = 2 + rng.Intn(steps)
		}
		for st := 0; st < steps; st++ {
			if st == lagCutAt && g.comm > g.snapI && g.snapI+1 < g.last {
				// the segment cut that follows a snapshot marker BELOW the last saved entry and is triggered by a Save without
				// entries: the new segment must still be named after the last ENTRY (the marker must not rewind the writer's
				// entry index); then a newer marker lands in the new segment and the log is reopened at it
				hi := g.comm
				if hi >= g.last {
					hi = g.last - 1
				}
				if hi > g.snapI {
					i := g.snapI + 1 + uint64(rng.Intn(int(hi-g.snapI)))
					g.snapI = i
					if l2, ok := g.do(fmt.Sprintf("snap %d %d", i, g.terms[i])); ok {
						lay = l2
						tail0 := lay.tail
						for k := 0; k < 400 && lay.tail == tail0; k++ {
							if g.comm < g.last && rng.Intn(3) == 0 {
								g.comm++
							}
							l3, ok := g.do(fmt.Sprintf("save st=%d,%d,%d ents=-", g.term, g.vote, g.comm))
							if !ok {
								break
							}
							lay = l3
						}
						if lay.tail != tail0 && g.comm > g.snapI {
							g.snapI = g.comm
							if l4, ok := g.do(fmt.Sprintf("snap %d %d", g.snapI, g.terms[g.snapI])); ok {
								lay = l4
								g.openAt()
							}
						}
					}
				}
			}
			prevA, prevTail := lay.s, lay.tail
			var line string
			switch x := rng.Intn(20); {
			case x == 0 && g.comm > g.snapI:
				// local snapshot at a committed index
				i := g.snapI + 1 + uint64(rng.Intn(int(g.comm-g.snapI)))
				g.snapI = i
				line = fmt.Sprintf("snap %d %d", i, g.terms[i])
			case x == 1:
				line = "sync"
			case x == 2 && rng.Intn(4) == 0:
				// snapshot received from the leader, ahead of the log; the next state commits it
				i := g.last + 1 + uint64(rng.Intn(5))
				g.snapI, g.last, g.comm = i, i, i
				g.terms[i] = g.term
				lay, _ = g.do(fmt.Sprintf("snap %d %d", i, g.term))
				line = fmt.Sprintf("save st=%d,%d,%d ents=-", g.term, g.vote, g.comm)
			default:
				if !(big && st == 2) {
					line = g.saveLine()
				} else {
					d := make([]byte, 70000)
					rng.Read(d)
					var es []string
					for k := 0; k < 3; k++ {
						g.last++
						g.terms[g.last] = g.term
						es = append(es, fmtEnt(raftpb.Entry{Term: g.term, Index: g.last, Data: d[:60000+rng.Intn(10000)]}))
					}
					line = fmt.Sprintf("save st=%d,%d,%d ents=%s", g.term, g.vote, g.comm, strings.Join(es, ";"))
				}
			}
			var ok bool
			lay, ok = g.do(line)
			if !ok {
				break
			}
			if lay.tail != prevTail {
				prevA = 0
			}
			bigNow := lay.w-prevA > 20000
			if rng.Intn(3) == 0 || st == steps-1 || bigNow {
				b, nf := budget, nflip
				if big {
					b, nf = 24, 4
				}
				g.crashes(lay, prevA, b, exhaustive && !big)
				g.flips(lay, nf)
				g.openAt()
			}
			if rng.Intn(6) == 0 || st == steps-1 {
				g.do("bytes")
			}
		}
	}
	g.do("end")
}
