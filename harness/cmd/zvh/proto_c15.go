package main

import (
	"fmt"
	"math/rand"
	"strconv"
	"strings"

	"github.com/absolute8511/redcon"
	"github.com/youzan/ZanRedisDB/common"
	"github.com/youzan/ZanRedisDB/node"
	"github.com/youzan/ZanRedisDB/server"
	zanredisdb "github.com/youzan/go-zanredisdb"
)

// C15 partition routing: server vs SDK vs Lean model.
//
//	part  <hexpk> <n>        → p=<server partition>
//	route <hexrawkey> <n>    → ns=<hex> pk=<hex> p=<partition>  |  err
func init() {
	register(&Proto{Name: "c15", Gen: genC15, New: newC15})
}

func randKey(rng *rand.Rand) []byte {
	alpha := []byte{0, 1, ':', 'a', 'b', 0xff, 0x7f, 0x80, '-', ';'}
	n := rng.Intn(24)
	if rng.Intn(10) == 0 {
		n = rng.Intn(300)
	}
	b := make([]byte, n)
	for i := range b {
		if rng.Intn(3) == 0 {
			b[i] = byte(rng.Intn(256))
		} else {
			b[i] = alpha[rng.Intn(len(alpha))]
		}
	}
	return b
}

func genC15(rng *rand.Rand, tier string, emit func(string)) {
	n := 20000
	if tier == "thorough" {
		n = 1000000
	}
	for i := 0; i < n; i++ {
		pn := 1 + rng.Intn(1024)
		if rng.Intn(4) == 0 {
			pn = 1 + rng.Intn(8)
		}
		if rng.Intn(3) == 0 {
			k := randKey(rng)
			emit(fmt.Sprintf("part %s %d", hexs(k), pn))
		} else {
			// mostly valid raw keys ns:table:key, some malformed
			var raw []byte
			switch rng.Intn(10) {
			case 0:
				raw = randKey(rng)
			case 1:
				raw = append([]byte(":"), randKey(rng)...)
			default:
				ns := []string{"ns", "default", "n", "a-b"}[rng.Intn(4)]
				raw = append([]byte(ns+":"), randKey(rng)...)
			}
			emit(fmt.Sprintf("route %s %d", hexs(raw), pn))
		}
	}
}

func newC15(c *Ctx) func(string) string {
	return func(line string) string {
		f := strings.Fields(line)
		switch f[0] {
		case "part":
			pk := unhex(f[1])
			n, _ := strconv.Atoi(f[2])
			p := node.GetHashedPartitionID(pk, n)
			q := zanredisdb.GetHashedPartitionID(pk, n)
			if p != q {
				c.Violation("client-server-disagree", fmt.Sprintf("pk=%x n=%d server=%d sdk=%d", pk, n, p, q))
			}
			if p < 0 || p >= n {
				c.Violation("partition-out-of-range", fmt.Sprintf("pk=%x n=%d p=%d", pk, n, p))
			}
			return fmt.Sprintf("p=%d", p)
		case "route":
			raw := unhex(f[1])
			n, _ := strconv.Atoi(f[2])
			cmd := redcon.Command{Args: [][]byte{[]byte("get"), raw}}
			ns, pk, sum, err := server.GetPKAndHashSum("get", cmd)
			if err != nil {
				return "err"
			}
			p := sum % n // node.GetNamespaceNodeWithPrimaryKeySum: pid := pkSum % v.PartitionNum (regenerated anchor)
			if p2 := node.GetHashedPartitionID(pk, n); p2 != p {
				c.Violation("server-paths-disagree", fmt.Sprintf("raw=%x n=%d %d %d", raw, n, p, p2))
			}
			// what the SDK would compute for the same raw key: sharding key = raw[len(ns)+1:]
			ns2, rk, err2 := common.ExtractNamesapce(raw)
			if err2 == nil {
				sk := raw[len(ns2)+1:]
				q := zanredisdb.GetHashedPartitionID(sk, n)
				if q != p || string(rk) != string(sk) {
					c.Violation("client-server-disagree", fmt.Sprintf("raw=%x n=%d server=%d sdk=%d", raw, n, p, q))
				}
			}
			if p < 0 || p >= n {
				c.Violation("partition-out-of-range", fmt.Sprintf("raw=%x n=%d p=%d", raw, n, p))
			}
			return fmt.Sprintf("ns=%s pk=%s p=%d", hexs([]byte(ns)), hexs(pk), p)
		}
		return "bad-op"
	}
}
