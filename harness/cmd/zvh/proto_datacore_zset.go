package main

import (
	"fmt"
	"math/rand"
)

// datacorezset: the executor of protocol `data` (real KVNode, real leader-side handlers incl. the ZREM pre-check, real
// apply path, real read handlers) driven by a generator restricted to what the executable Lean sorted-set model
// (lean/ZanVerif/Data/ZSetExec.lean + ZSetCmd.lean, driver lean/Driver/DataZSet.lean) covers: the sorted-set family
// under the local-deletion layout, one entry per apply event, strictly increasing log time, scores that are
// half-integers (k/2), ±0 and ±Inf, so that EVERY answer line is compared with the Lean model in diff mode.
// The `inv` lines additionally run the C09 oracle of the executor on the real store.
func init() { register(&Proto{Name: "datacorezset", Gen: genDataCoreZSet, New: newData}) }

var zsKeys = []string{"default:t:z", "default:t:z:x", "default:tt:z", "default:t:\x00", "default:t:zz", "default:t:y"}

// prefix-related, binary, empty, ':'-containing members; 7/8/9 bytes long ones straddle the memcomparable group size
var zsMembers = []string{"m", "", "mm", "m:n", "\x00\xff", "n", "m\x00", "\xff", "abcdefg", "abcdefgh", "abcdefghi", "\x00", "a"}

// half-integers in several spellings; ties are frequent because the pool is small
var zsScores = []string{"1", "2", "-1", "0", "1.5", "2.5", "3", "-0.5", "1e2", "100", "-2", "0.5", "1000", "-1000", "7.5",
	"1", "1", "2", "2", "+3", "1.0", "2.50", ".5", "5e-1", "15e-1", "1.", "0.0"}
var zsSpecialScores = []string{"inf", "-inf", "+Inf", "Infinity", "-0", "-infinity"}
var zsBadScores = []string{"abc", "nan", "NaN", "", "1.5.5", "1e", " 1", "1 ", "--1", "+nan", "(1", "in"}
var zsIdx = []string{"0", "1", "-1", "-2", "2", "5", "-100", "100", "3", "-3", "4", "0", "-1", "4999", "5000", "5001", "-5001"}
var zsBadInts = []string{"x", "", "1.5", "99999999999999999999", "-99999999999999999999", "1e2", " 1", "0x1"}
var zsScoreBounds = []string{"-inf", "+inf", "0", "1", "2", "(1", "(2", "1.5", "(1.5", "-1", "3", "(0", "2.5", "(2.5", "-0.5", "(-1", "100", "(100",
	"-INF", "+INF", "1e2", "(.5", "-1000", "1000", "7.5"}
var zsBadScoreBounds = []string{"inf", "-Inf)", "(-inf", "(+inf", "", "x", "(", "[1", "1)", "(inf", "+infinity"}
var zsLexLo = []string{"-", "[", "(", "[m", "(m", "[n", "[\x00", "(m:", "[a", "(abcdefg", "[abcdefgh", "(\x00", "[mm", "[m\x00", "(\xff"}
var zsLexHi = []string{"+", "[n", "(n", "[m", "(mm", "[\xff", "[mm", "[m:n", "(abcdefghi", "[abcdefgh", "(\xff", "[", "(", "[m\x00", "(m:"}
var zsBadLex = []string{"m", "", "+", "-", "]m", "{", "inf"}

func genDataCoreZSet(rng *rand.Rand, tier string, emit func(string)) {
	sessions := 150
	if tier == "thorough" {
		sessions = 5000
	}
	// every tenth session ends with the ZINCRBY +Inf + -Inf witness (a NaN score entered the store before the fix of DESIGN §0.2)
	withNaN := true
	h := func(ss ...string) string {
		out := ""
		for _, s := range ss {
			out += " " + hexs([]byte(s))
		}
		return out
	}
	pick := func(xs []string) string { return xs[rng.Intn(len(xs))] }
	p := func(x float64) bool { return rng.Float64() < x }
	for s := 0; s < sessions; s++ {
		eng := "mem"
		if rng.Intn(4) == 0 {
			eng = "pebble"
		}
		emit(fmt.Sprintf("open engine=%s policy=local now=%d sh=", eng, dataNowFixed))
		ts := int64(1600000000000000000) + rng.Int63n(1e9)
		n := 25 + rng.Intn(90)
		ks := append([]string{}, zsKeys...)
		rng.Shuffle(len(ks), func(i, j int) { ks[i], ks[j] = ks[j], ks[i] })
		ks = ks[:1+rng.Intn(3)]
		nm := 3 + rng.Intn(len(zsMembers)-2)
		ms := append([]string{}, zsMembers...)
		rng.Shuffle(len(ms), func(i, j int) { ms[i], ms[j] = ms[j], ms[i] })
		ms = ms[:nm]
		special := p(0.25) // sessions with ±Inf and -0 scores
		bad := 0.06        // malformed arguments
		mem := func() string { return pick(ms) }
		score := func() string {
			if special && p(0.25) {
				return pick(zsSpecialScores)
			}
			return pick(zsScores)
		}
		// finite deltas only: +Inf + -Inf is the NaN witness, kept out of the compared sessions
		delta := func() string { return pick(zsScores) }
		scoreRange := func() (string, string) {
			a, b := pick(zsScoreBounds), pick(zsScoreBounds)
			if p(0.55) {
				a, b = pick([]string{"-inf", "0", "1", "(1", "-1", "(0", "1.5", "-1000", "(-0.5"}), pick([]string{"+inf", "2", "3", "(2", "2.5", "(3", "1", "100", "(100", "1000"})
			}
			return a, b
		}
		lexRange := func() (string, string) {
			if p(0.15) {
				return pick(zsLexHi), pick(zsLexLo) // inverted / mixed
			}
			return pick(zsLexLo), pick(zsLexHi)
		}
		for i := 0; i < n; i++ {
			k := pick(ks)
			if rng.Intn(100) < 45 {
				ts += 1 + rng.Int63n(1e6)
				var a string
				switch r := rng.Intn(40); {
				case r < 13:
					a = h("zadd", k)
					np := 1 + rng.Intn(4)
					if p(0.05) {
						np = 5 + rng.Intn(8)
					}
					for j := 0; j < np; j++ {
						sc := score()
						if p(bad / 2) {
							sc = pick(zsBadScores)
						}
						a += h(sc, mem()) // members may repeat inside one command (last score wins)
					}
					if p(bad / 2) {
						a += h(score()) // odd argument count
					}
				case r < 19:
					d := delta()
					if p(bad) {
						d = pick(zsBadScores)
					}
					a = h("zincrby", k, d, mem())
					if p(bad / 3) {
						a += h("x")
					}
				case r < 26:
					a = h("zrem", k)
					for j := 0; j < 1+rng.Intn(3); j++ {
						a += h(mem())
					}
					if p(bad / 3) {
						a = h("zrem", k)
					}
				case r < 31:
					x, y := pick(zsIdx), pick(zsIdx)
					if p(0.4) {
						x, y = pick([]string{"0", "1", "-2", "-1", "2"}), pick([]string{"0", "1", "-1", "2", "-2", "100"})
					}
					if p(bad) {
						x = pick(zsBadInts)
					} else if p(bad) {
						y = pick(zsBadInts)
					}
					a = h("zremrangebyrank", k, x, y)
				case r < 35:
					x, y := scoreRange()
					if p(bad) {
						x = pick(zsBadScoreBounds)
					} else if p(bad) {
						y = pick(zsBadScoreBounds)
					}
					a = h("zremrangebyscore", k, x, y)
				case r < 38:
					x, y := lexRange()
					if p(bad) {
						x = pick(zsBadLex)
					} else if p(bad) {
						y = pick(zsBadLex)
					}
					a = h("zremrangebylex", k, x, y)
				default:
					a = h("zclear", k)
					if p(bad / 2) {
						a += h("x")
					}
				}
				emit(fmt.Sprintf("w %d 1%s", ts, a))
				if rng.Intn(4) == 0 {
					emit("inv")
				}
			} else {
				var a string
				switch rng.Intn(16) {
				case 0:
					a = h("zcard", k)
				case 1:
					a = h("zscore", k, mem())
				case 2:
					a = h("zrank", k, mem())
				case 3:
					a = h("zrevrank", k, mem())
				case 4, 5, 6:
					x, y := pick(zsIdx), pick(zsIdx)
					if p(0.3) {
						x, y = "0", "-1"
					}
					if p(bad) {
						x = pick(zsBadInts)
					} else if p(bad) {
						y = pick(zsBadInts)
					}
					a = h(pick([]string{"zrange", "zrevrange"}), k, x, y)
					if p(0.5) {
						a += h(pick([]string{"withscores", "WITHSCORES", "WithScores"}))
					} else if p(bad) {
						a += h(pick([]string{"withscore", "limit", ""}))
					}
				case 7, 8, 9:
					lo, hi := scoreRange()
					if p(bad) {
						lo = pick(zsBadScoreBounds)
					} else if p(bad) {
						hi = pick(zsBadScoreBounds)
					}
					name := "zrangebyscore"
					if p(0.4) {
						name = "zrevrangebyscore"
						lo, hi = hi, lo
					}
					a = h(name, k, lo, hi)
					if p(0.4) {
						a += h(pick([]string{"withscores", "WITHSCORES"}))
					}
					if p(0.4) {
						a += h(pick([]string{"limit", "LIMIT"}), pick([]string{"0", "1", "2", "-1", "3"}), pick([]string{"1", "2", "-1", "0", "10", "5001"}))
					} else if p(bad) {
						a += h(pick([]string{"limit", "limit 1", "x", "withscores"}))
						if p(0.5) {
							a += h("0", "x")
						}
					}
				case 10:
					lo, hi := scoreRange()
					if p(bad) {
						hi = pick(zsBadScoreBounds)
					}
					a = h("zcount", k, lo, hi)
				case 11, 12:
					lo, hi := lexRange()
					if p(bad) {
						lo = pick(zsBadLex)
					} else if p(bad) {
						hi = pick(zsBadLex)
					}
					a = h("zrangebylex", k, lo, hi)
					if p(0.35) {
						a += h(pick([]string{"limit", "Limit"}), pick([]string{"0", "1", "2", "-1"}), pick([]string{"1", "2", "-1", "0", "5001"}))
					} else if p(bad) {
						a += h("limit", "0")
					} else if p(bad) {
						a += h("limi", "0", "1")
					} else if p(bad) {
						a += h("limit", "a", "1")
					}
				case 13:
					lo, hi := lexRange()
					if p(bad) {
						lo = pick(zsBadLex)
					}
					a = h("zlexcount", k, lo, hi)
				default:
					a = h("zkeyexist", k)
				}
				emit("r" + a)
			}
		}
		if withNaN && s%10 == 0 {
			k := ks[0]
			ts += 1000
			emit(fmt.Sprintf("w %d 1%s", ts, h("zadd", k, "inf", "nanm")))
			ts += 1000
			emit(fmt.Sprintf("w %d 1%s", ts, h("zincrby", k, "-inf", "nanm")))
			emit("r" + h("zscore", k, "nanm"))
			emit("r" + h("zrangebyscore", k, "-inf", "+inf", "withscores"))
			emit("r" + h("zrange", k, "0", "-1", "withscores"))
			emit("inv")
		}
		emit("inv")
		emit("dump")
		emit("end")
	}
}
