package main

// Generator of protocol "data": sessions of 30-200 ops over small adversarial pools (see notes/proto_data.md).

import (
	"fmt"
	"math/rand"
	"strconv"
	"strings"
)

// Read paths of rockredis use time.Now() for expiry (t_kv.go, t_hash.go, t_list.go, t_set.go, t_zset.go, t_ttl.go:
// KVTtl ... all take tn := time.Now().UnixNano()), write paths use the log timestamp. Sessions therefore live in one
// of two regimes whose expiry instants are decades away from the real clock:
//
//	past   : log clock starts at 1.6e18 ns (2020-09); TTLs of 1-3 s expire within the session in LOG time, and every
//	         stored expiry instant is in the past for the wall-clock reads (the rare huge TTL 2e9 s lands in 2084);
//	future : log clock starts at 4.0e18 ns (2096-10); expiry instants are in the future for wall-clock reads while the
//	         log clock still runs across them (the huge TTL overflows the uint32 expiry field there).
//
// Any "now" in [dataNowMin, dataNowMax] gives the same answers; open checks the real clock is inside.
const (
	dataBasePast   = int64(1600000000) * 1e9
	dataBaseFuture = int64(4000000000) * 1e9
	dataNowFixed   = 1750000000
	dataNowMin     = 1700000000
	dataNowMax     = 3500000000
)

type dgen struct {
	rng      *rand.Rand
	emit     func(string)
	keys     []string // client keys of the session (with namespace)
	members  []string
	values   []string
	ts       int64
	expiries []int64
	pol      string
	open     bool // an apply event is open (some write queued with boundary 0)
	pBound   float64
	nops     int
	dups     bool
	tsadv    bool // this session may repeat / go back in log time (F3 territory); otherwise the clock is strictly increasing
	abortOK  bool // this session may put a mutated batchable command into a multi-entry event (F4 territory)
}

var dataRests = []string{"a", "a:b", "a\x00", "\xff", "ab"}
var dataMembers = []string{"m", "", "\x00\xff", "m:n", "n", "mm"}
var dataValues = []string{"v", "", "12", "-3", "w\x00", "9223372036854775807", "1.5", "007"}
var dataScores = []string{"1", "2", "-1", "0", "1.5", "2.5", "3", "-0.5", "1e2"}
var dataIdx = []string{"0", "1", "-1", "-2", "2", "5", "-100", "100", "3"}
var dataWeird = []string{"99999999999999999999", "-1", "abc", "", "1.5", "0", "-0", " 1", "+1", "1e3", "nan", "inf", "-inf",
	"9223372036854775808", "-9223372036854775809", "4294967295", "2147483648", "0x10", "1 ", "zz", "(", "[", "(1", "[m", "+", "-", "limit", "withscores", "ex", "nx", "xx"}

func (g *dgen) pick(xs []string) string { return xs[g.rng.Intn(len(xs))] }
func (g *dgen) p(x float64) bool        { return g.rng.Float64() < x }
func (g *dgen) key() string             { return g.pick(g.keys) }
func (g *dgen) mem() string             { return g.pick(g.members) }
func (g *dgen) val() string             { return g.pick(g.values) }

// mems picks 1..max sub-keys. They are pairwise distinct except in sessions with the dups flag (about one in five),
// where a command repeats one with probability 0.3: a repeated member corrupts the size meta for good on the current
// tree (DESIGN section 9, F2), so it is confined to some sessions instead of tainting all of them.
func (g *dgen) mems(max int) []string {
	n := 1 + g.rng.Intn(max)
	var out []string
	seen := map[string]bool{}
	for i := 0; i < n; i++ {
		m := g.mem()
		if seen[m] {
			continue
		}
		seen[m] = true
		out = append(out, m)
	}
	if g.dups && g.p(0.3) {
		out = append(out, out[g.rng.Intn(len(out))])
		g.rng.Shuffle(len(out), func(i, j int) { out[i], out[j] = out[j], out[i] })
	}
	return out
}

func (g *dgen) dur() string {
	switch {
	case g.p(0.05):
		return "2000000000"
	case g.p(0.03):
		return g.pick([]string{"0", "-1", "-5"})
	}
	return strconv.Itoa(1 + g.rng.Intn(3))
}

func (g *dgen) noteExpiry(d string) {
	n, err := strconv.ParseInt(d, 10, 64)
	if err == nil && n > 0 && n < 100 {
		g.expiries = append(g.expiries, g.ts/1e9+n)
	}
}

func (g *dgen) scoreRange() (string, string) {
	opts := []string{"-inf", "+inf", "0", "1", "2", "(1", "(2", "1.5", "(1.5", "-1", "3", "(0"}
	a, b := g.pick(opts), g.pick(opts)
	if g.p(0.6) {
		a, b = g.pick([]string{"-inf", "0", "1", "(1", "-1", "(0", "1.5"}), g.pick([]string{"+inf", "2", "3", "(2", "2.5", "(3", "1"})
	}
	return a, b
}

func (g *dgen) lexRange() (string, string) {
	lo := []string{"-", "[", "(", "[m", "(m", "[n", "[\x00", "(m:"}
	hi := []string{"+", "[n", "(n", "[m", "(mm", "[\xff", "[mm", "[m:n"}
	if g.p(0.15) {
		return g.pick(hi), g.pick(lo)
	}
	return g.pick(lo), g.pick(hi)
}

// write returns one valid write command.
func (g *dgen) write() []string {
	k := g.key()
	if g.p(0.04) {
		// HyperLogLog (its own keys: the writes go through a write-back cache): elements from a small pool, so that
		// a PFADD often adds nothing new
		a := []string{"pfadd", dataNS + ":t:pf" + g.pick([]string{"0", "1"})}
		for i := 1 + g.rng.Intn(3); i > 0; i-- {
			a = append(a, "e"+strconv.Itoa(g.rng.Intn(6)))
		}
		return a
	}
	switch g.rng.Intn(5) {
	case 0: // kv
		switch g.rng.Intn(20) {
		case 0, 1, 2:
			a := []string{"set", k, g.val()}
			if g.p(0.35) {
				if g.p(0.6) {
					d := g.dur()
					g.noteExpiry(d)
					a = append(a, g.pick([]string{"ex", "EX"}), d)
				}
				if g.p(0.5) {
					a = append(a, g.pick([]string{"nx", "xx", "NX"}))
				}
				if len(a) == 3 {
					a = append(a, "xx")
				}
			}
			return a
		case 3:
			return []string{"setnx", k, g.val()}
		case 4, 5:
			d := g.dur()
			g.noteExpiry(d)
			return []string{"setex", k, d, g.val()}
		case 6:
			a := []string{"setifeq", k, g.val(), g.val()}
			if g.p(0.3) {
				d := g.dur()
				g.noteExpiry(d)
				a = append(a, "ex", d)
			}
			return a
		case 7:
			return []string{"delifeq", k, g.val()}
		case 8:
			return []string{"getset", k, g.val()}
		case 9, 10:
			return []string{"incr", k}
		case 11:
			return []string{"incrby", k, g.pick([]string{"1", "-2", "10", "9223372036854775807", "0"})}
		case 12, 13:
			return []string{"append", k, g.val()}
		case 14:
			off := g.pick([]string{"0", "1", "3", "7"})
			if g.p(0.04) {
				off = g.pick([]string{"-1", "-2", "-100"}) // an error in redis
			}
			return []string{"setrange", k, off, g.val()}
		case 15:
			a := []string{"del", k}
			for g.p(0.3) {
				a = append(a, g.key())
			}
			return a
		case 16:
			a := []string{"plset", k, g.val()}
			for g.p(0.4) {
				a = append(a, g.key(), g.val())
			}
			return a
		case 17, 18:
			d := g.dur()
			g.noteExpiry(d)
			return []string{"expire", k, d}
		default:
			return []string{"persist", k}
		}
	case 1: // hash
		switch g.rng.Intn(14) {
		case 0, 1, 2:
			return []string{"hset", k, g.mem(), g.val()}
		case 3:
			return []string{"hsetnx", k, g.mem(), g.val()}
		case 4, 5, 6:
			a := []string{"hmset", k}
			for _, m := range g.mems(3) {
				a = append(a, m, g.val())
			}
			return a
		case 7, 8:
			return append([]string{"hdel", k}, g.mems(3)...)
		case 9:
			return []string{"hincrby", k, g.mem(), g.pick([]string{"1", "-2", "10", "9223372036854775807"})}
		case 10:
			return []string{"hclear", k}
		case 11, 12:
			d := g.dur()
			g.noteExpiry(d)
			return []string{"hexpire", k, d}
		default:
			return []string{"hpersist", k}
		}
	case 2: // list
		switch g.rng.Intn(14) {
		case 0, 1:
			a := []string{"lpush", k}
			for i := 0; i < 1+g.rng.Intn(3); i++ {
				a = append(a, g.val())
			}
			return a
		case 2, 3:
			a := []string{"rpush", k}
			for i := 0; i < 1+g.rng.Intn(3); i++ {
				a = append(a, g.val())
			}
			return a
		case 4, 5:
			return []string{"lpop", k}
		case 6:
			return []string{"rpop", k}
		case 7:
			return []string{"lset", k, g.pick(dataIdx), g.val()}
		case 8, 9:
			return []string{"ltrim", k, g.pick(dataIdx), g.pick(dataIdx)}
		case 10:
			return []string{"lclear", k}
		case 11, 12:
			d := g.dur()
			g.noteExpiry(d)
			return []string{"lexpire", k, d}
		default:
			return []string{"lpersist", k}
		}
	case 3: // set
		switch g.rng.Intn(12) {
		case 0, 1, 2, 3:
			return append([]string{"sadd", k}, g.mems(3)...)
		case 4, 5:
			return append([]string{"srem", k}, g.mems(3)...)
		case 6, 7:
			a := []string{"spop", k}
			if g.p(0.5) {
				a = append(a, g.pick([]string{"1", "2", "5"}))
			}
			return a
		case 8:
			return []string{"sclear", k}
		case 9, 10:
			d := g.dur()
			g.noteExpiry(d)
			return []string{"sexpire", k, d}
		default:
			return []string{"spersist", k}
		}
	default: // zset
		switch g.rng.Intn(16) {
		case 0, 1, 2, 3:
			a := []string{"zadd", k}
			for _, m := range g.mems(3) {
				a = append(a, g.pick(dataScores), m)
			}
			return a
		case 4, 5:
			return []string{"zincrby", k, g.pick(dataScores), g.mem()}
		case 6, 7:
			return append([]string{"zrem", k}, g.mems(3)...)
		case 8:
			return []string{"zremrangebyrank", k, g.pick(dataIdx), g.pick(dataIdx)}
		case 9:
			a, b := g.scoreRange()
			return []string{"zremrangebyscore", k, a, b}
		case 10:
			a, b := g.lexRange()
			return []string{"zremrangebylex", k, a, b}
		case 11:
			return []string{"zclear", k}
		case 12, 13:
			d := g.dur()
			g.noteExpiry(d)
			return []string{"zexpire", k, d}
		default:
			return []string{"zpersist", k}
		}
	}
}

func (g *dgen) read() []string {
	k := g.key()
	if g.p(0.03) {
		return []string{"pfcount", dataNS + ":t:pf" + g.pick([]string{"0", "1"})}
	}
	switch g.rng.Intn(5) {
	case 0:
		switch g.rng.Intn(9) {
		case 0, 1:
			return []string{"get", k}
		case 2:
			a := []string{"mget", k}
			for g.p(0.5) {
				a = append(a, g.key())
			}
			return a
		case 3:
			return []string{"getrange", k, g.pick(dataIdx), g.pick(dataIdx)}
		case 4:
			return []string{"strlen", k}
		case 5:
			a := []string{"exists", k}
			for g.p(0.4) {
				a = append(a, g.key())
			}
			return a
		case 6, 7:
			return []string{"ttl", k}
		default:
			return []string{"stale.getversion", k}
		}
	case 1:
		switch g.rng.Intn(10) {
		case 0, 1:
			return []string{"hget", k, g.mem()}
		case 2:
			return append([]string{"hmget", k}, g.mems(3)...)
		case 3:
			return []string{"hlen", k}
		case 4:
			return []string{"hgetall", k}
		case 5:
			return []string{"hkeys", k}
		case 6:
			return []string{"hvals", k}
		case 7:
			return []string{"hexists", k, g.mem()}
		case 8:
			return []string{"hkeyexist", k}
		default:
			return []string{"httl", k}
		}
	case 2:
		switch g.rng.Intn(6) {
		case 0:
			return []string{"llen", k}
		case 1, 2:
			return []string{"lindex", k, g.pick(dataIdx)}
		case 3:
			return []string{"lrange", k, g.pick(dataIdx), g.pick(dataIdx)}
		case 4:
			return []string{"lkeyexist", k}
		default:
			return []string{"lttl", k}
		}
	case 3:
		switch g.rng.Intn(6) {
		case 0:
			return []string{"scard", k}
		case 1:
			return []string{"sismember", k, g.mem()}
		case 2:
			return []string{"smembers", k}
		case 3:
			a := []string{"srandmember", k}
			if g.p(0.5) {
				a = append(a, g.pick([]string{"1", "2", "5"}))
			}
			return a
		case 4:
			return []string{"skeyexist", k}
		default:
			return []string{"sttl", k}
		}
	default:
		switch g.rng.Intn(14) {
		case 0:
			return []string{"zcard", k}
		case 1:
			return []string{"zscore", k, g.mem()}
		case 2:
			return []string{"zrank", k, g.mem()}
		case 3:
			return []string{"zrevrank", k, g.mem()}
		case 4, 5:
			a := []string{g.pick([]string{"zrange", "zrevrange"}), k, g.pick(dataIdx), g.pick(dataIdx)}
			if g.p(0.5) {
				a = append(a, g.pick([]string{"withscores", "WITHSCORES"}))
			}
			return a
		case 6, 7, 8:
			lo, hi := g.scoreRange()
			name := "zrangebyscore"
			if g.p(0.35) {
				name = "zrevrangebyscore"
				lo, hi = hi, lo
			}
			a := []string{name, k, lo, hi}
			if g.p(0.4) {
				a = append(a, "withscores")
			}
			if g.p(0.3) {
				a = append(a, "limit", g.pick([]string{"0", "1", "2", "-1"}), g.pick([]string{"1", "2", "-1", "0", "10"}))
			}
			return a
		case 9:
			lo, hi := g.scoreRange()
			return []string{"zcount", k, lo, hi}
		case 10, 11:
			lo, hi := g.lexRange()
			a := []string{"zrangebylex", k, lo, hi}
			if g.p(0.3) {
				a = append(a, "limit", g.pick([]string{"0", "1", "2"}), g.pick([]string{"1", "2", "-1", "0"}))
			}
			return a
		case 12:
			lo, hi := g.lexRange()
			return []string{"zlexcount", k, lo, hi}
		default:
			if g.p(0.5) {
				return []string{"zkeyexist", k}
			}
			return []string{"zttl", k}
		}
	}
}

// mutate damages a valid command the way a client could (C11).
func (g *dgen) mutate(a []string) []string {
	if len(a) > 0 && strings.HasPrefix(a[0], "pf") {
		return a // HyperLogLog commands stay on their own keys (their stored bytes are compared through PFCOUNT only)
	}
	a = append([]string{}, a...)
	g.nops++
	switch g.rng.Intn(16) {
	case 15: // an error text the code itself tests for (harvested from the current source), as a non-key argument
		if ms := magicStrings(); len(ms) > 0 && len(a) > 2 {
			m := ms[g.rng.Intn(len(ms))]
			if g.p(0.3) {
				m = "x " + m + " y"
			}
			a[2+g.rng.Intn(len(a)-2)] = m
		} else if len(ms) > 0 {
			a = append(a, ms[g.rng.Intn(len(ms))])
		}
	case 13, 14: // a LATE invalid argument behind valid, effective ones: the command fails after it has buffered writes
		long := strings.Repeat("x", 10241)
		switch strings.ToLower(a[0]) {
		case "hdel", "srem", "zrem", "sadd", "lpush", "rpush":
			a = append(a, long)
		case "hmset":
			a = append(a, long, "v")
		case "zadd":
			a = append(a, "1", long)
		case "del":
			a = append(a, g.pick([]string{dataNS + ":abc", dataNS + ":t:" + strings.Repeat("k", 10241), "abc"}))
		default:
			if len(a) > 2 {
				a[len(a)-1] = long
			}
		}
	case 0: // drop last
		if len(a) > 1 {
			a = a[:len(a)-1]
		}
	case 1: // drop a random argument
		if len(a) > 2 {
			i := 1 + g.rng.Intn(len(a)-1)
			a = append(a[:i], a[i+1:]...)
		}
	case 2: // duplicate an argument (the key, outside dups sessions, so that no member is repeated by accident)
		if len(a) > 1 {
			i := 1
			if g.dups {
				i = 1 + g.rng.Intn(len(a)-1)
			}
			a = append(a[:i+1], a[i:]...)
		}
	case 3: // extend
		a = append(a, g.pick(dataWeird))
		if g.p(0.3) {
			a = append(a, g.pick(dataWeird))
		}
	case 4, 5, 6: // replace a non-key argument by something odd (numbers, options)
		if len(a) > 2 {
			a[2+g.rng.Intn(len(a)-2)] = g.pick(dataWeird)
		} else {
			a = append(a, g.pick(dataWeird))
		}
	case 7: // malformed key
		if len(a) > 1 {
			a[1] = g.pick([]string{"", "abc", dataNS + ":", dataNS + ":abc", dataNS + "::x", ":t:a", "other:t:a", dataNS + ":t", dataNS,
				dataNS + ":" + strings.Repeat("T", 256) + ":a", dataNS + ":" + strings.Repeat("T", 255) + ":a"})
		}
	case 8: // over-long key: the limit is 10240 bytes on the raw key at the leader and on the cut key in the store
		if len(a) > 1 {
			n := g.pick([]string{"10240", "10241", "10232", "10233", "20000"})
			ln, _ := strconv.Atoi(n)
			pre := dataNS + ":t:"
			a[1] = pre + strings.Repeat("k", ln-len(pre))
		}
	case 9: // over-long sub key / member / field (limit 10240)
		if len(a) > 2 {
			i := 2 + g.rng.Intn(len(a)-2)
			a[i] = strings.Repeat("x", 10240+g.rng.Intn(2))
		}
	case 10: // command name variants
		switch g.rng.Intn(3) {
		case 0:
			a[0] = strings.ToUpper(a[0])
		case 1:
			a[0] = a[0] + "x"
		default:
			a[0] = g.pick([]string{"mset", "decr", "decrby", "hmclear", "lmclear", "smclear", "zmclear", "noopwrite", "scan", "foo", ""})
		}
	case 11: // only the name
		a = a[:1]
	default: // empty argument somewhere
		if len(a) > 1 {
			a[1+g.rng.Intn(len(a)-1)] = ""
		}
	}
	return a
}

func hexArgs(a []string) string {
	ps := make([]string, len(a))
	for i, x := range a {
		ps[i] = hexs([]byte(x))
	}
	return strings.Join(ps, " ")
}

func (g *dgen) stepClock() {
	r := g.rng.Float64()
	if !g.tsadv && r < 0.08 {
		r = 0.3
	}
	switch {
	case r < 0.05: // identical timestamp
	case r < 0.08:
		g.ts -= 1 + g.rng.Int63n(1500000000)
	case r < 0.18 && len(g.expiries) > 0: // straddle an expiry second set earlier
		inst := g.expiries[g.rng.Intn(len(g.expiries))] * 1e9
		cand := inst + []int64{-1, 0, 1, 999999999, -1000000000}[g.rng.Intn(5)]
		if (g.tsadv && cand >= g.ts-2e9) || cand > g.ts {
			g.ts = cand
		} else {
			g.ts += 1 + g.rng.Int63n(1000)
		}
	case r < 0.45:
		g.ts += 1 + g.rng.Int63n(1000)
	case r < 0.65:
		g.ts += 1 + g.rng.Int63n(1000000)
	case r < 0.85:
		g.ts += 1 + g.rng.Int63n(1000000000)
	default:
		g.ts += 1000000000 + g.rng.Int63n(1000000000)
	}
}

func (g *dgen) session(tier string, idx int) {
	rng := g.rng
	eng, pol := "mem", "compact"
	pe, ps := 0.15, 0.15
	if tier == "thorough" {
		pe, ps = 0.30, 1.0
	}
	if g.p(pe) {
		eng = "pebble"
	}
	if g.p(0.25) {
		pol = "local"
	}
	sh := "b"
	for _, k := range []string{"e", "r", "p"} {
		if g.p(ps) {
			sh += k
		}
	}
	if g.p(ps * 2) {
		sh += "s"
	}
	g.pol = pol
	base := dataBasePast
	if g.p(0.4) {
		base = dataBaseFuture
	}
	g.ts = base + rng.Int63n(1000000000)
	g.expiries = nil
	g.open = false
	g.pBound = []float64{0.9, 0.5, 0.5, 0.25, 0.12}[rng.Intn(5)]
	// pools
	rests := []string{"a"}
	for len(rests) < 3 {
		rests = append(rests, g.pick(dataRests))
	}
	if g.p(0.15) {
		// the empty key part: valid for kv, refused by the collection types only at apply time
		rests = append(rests, "")
	}
	g.keys = nil
	for _, r := range rests {
		tb := "t"
		if g.p(0.2) {
			tb = "tt"
		}
		g.keys = append(g.keys, dataNS+":"+tb+":"+r)
	}
	g.members = nil
	for len(g.members) < 3 {
		m := g.pick(dataMembers)
		dup := false
		for _, x := range g.members {
			dup = dup || x == m
		}
		if !dup {
			g.members = append(g.members, m)
		}
	}
	g.dups = g.p(0.2)
	g.tsadv = g.p(0.25)
	g.abortOK = g.p(0.25)
	g.values = []string{"12"}
	for len(g.values) < 4 {
		g.values = append(g.values, g.pick(dataValues))
	}
	g.emit(fmt.Sprintf("open engine=%s policy=%s now=%d sh=%s", eng, pol, dataNowFixed, sh))
	n := 30 + rng.Intn(171)
	sinceDump := 0
	for i := 0; i < n; i++ {
		sinceDump++
		last := i == n-1
		if g.p(0.35) && !last {
			a := g.read()
			if g.p(0.15) {
				a = g.mutate(a)
			}
			g.emit("r " + hexArgs(a))
			continue
		}
		if g.tsadv && g.p(0.03) && !last {
			// same-timestamp burst: create, clear and re-create one collection within one nanosecond of log time
			// (the generation of a collection is its creation timestamp: DESIGN section 9, F3)
			g.stepClock()
			k := g.key()
			m1, m2 := g.mem(), g.mem()
			var seq [][]string
			switch g.rng.Intn(4) {
			case 0:
				seq = [][]string{{"hset", k, m1, g.val()}, {"hclear", k}, {"hset", k, m2, g.val()}}
			case 1:
				seq = [][]string{{"rpush", k, g.val(), g.val()}, {"lclear", k}, {"rpush", k, g.val()}}
			case 2:
				seq = [][]string{{"sadd", k, m1}, {"sclear", k}, {"sadd", k, m2}}
			default:
				seq = [][]string{{"zadd", k, g.pick(dataScores), m1}, {"zclear", k}, {"zadd", k, g.pick(dataScores), m2}}
			}
			for _, a := range seq {
				b := 0
				if g.p(g.pBound) {
					b = 1
				}
				g.emit(fmt.Sprintf("w %d %d %s", g.ts, b, hexArgs(a)))
				if b == 1 {
					g.emit("inv")
				}
				if g.p(0.3) {
					g.ts++
				}
			}
			continue
		}
		if g.p(0.03) && !last && !g.open {
			// a command that FAILS AFTER it has buffered effective writes (a later argument is invalid), then an unrelated
			// successful write: nothing of the failed command may reach the store with it
			k := g.key()
			long := strings.Repeat("x", 10241)
			m1, m2 := g.mem(), g.mem()
			var seq [][]string
			switch g.rng.Intn(5) {
			case 0:
				seq = [][]string{{"hmset", k, m1, "1", m2 + "2", "2"}, {"hdel", k, m1, long}}
			case 1:
				seq = [][]string{{"sadd", k, m1, m2 + "2"}, {"srem", k, m1, long}}
			case 2:
				seq = [][]string{{"zadd", k, "1", m1, "2", m2 + "2"}, {"zrem", k, m1, long}}
			case 3:
				seq = [][]string{{"sadd", k, m1}, {"sadd", k, m2 + "3", long}}
			default:
				seq = [][]string{{"hmset", k, m1, "1"}, {"hmset", k, m2 + "4", "v", long, "v"}}
			}
			seq = append(seq, []string{"set", g.key(), "z"})
			for _, a := range seq {
				g.stepClock()
				g.emit(fmt.Sprintf("w %d 1 %s", g.ts, hexArgs(a)))
				g.emit("inv")
			}
			continue
		}
		if g.p(0.04) && !last && !g.open && len(g.keys) >= 2 {
			// dependency inside ONE apply event: a multi-key write followed by a state-dependent write on one of ITS LATER keys
			// (the batch operator's duplicate-key check must see every key of the multi-key command, else the second command
			// reads a state that depends on how entries were grouped into events)
			k1 := g.key()
			k2 := g.key()
			for tries := 0; k2 == k1 && tries < 8; tries++ {
				k2 = g.key()
			}
			if k2 != k1 {
				dep := [][]string{{"set", k2, g.val(), "nx"}, {"setnx", k2, g.val()}, {"incr", k2}, {"append", k2, "x"}, {"set", k2, g.val(), "xx"}, {"getset", k2, g.val()}}[g.rng.Intn(6)]
				var pre, ev [][]string
				switch g.rng.Intn(6) {
				case 4:
					// a conditional write whose condition is NOT met (NX on an existing key) behind batched writes of OTHER keys of
					// the same event: it answers nil and must leave the open batch alone (the writes before it were acknowledged)
					pre = [][]string{{"set", k2, "2"}}
					ev = [][]string{{"set", k1, g.val()}, {"hmset", k1 + "h", "f", "v"}, {"set", k2, "b", "nx"}, {"set", k1 + "x", "after"}}
				case 5:
					// the same with XX on a missing key
					pre = [][]string{{"del", k2}}
					ev = [][]string{{"set", k1, g.val()}, {"setex", k1 + "e", "1000", "v"}, {"set", k2, "b", "xx"}}
				case 3:
					// two state-dependent writes on the SAME key inside one event, behind a write to another key: the second
					// must see the first (every key written in the open batch has to be recorded, not only the first one)
					pre = [][]string{{"del", k2}}
					ev = [][]string{{"set", k1, "1"}, {"set", k2, "a", "nx"}, {"set", k2, "b", "nx"}, dep}
				case 0:
					pre = [][]string{{"set", k1, "1"}, {"set", k2, "2"}}
					ev = [][]string{{"del", k1, k2}, dep}
				case 1:
					pre = [][]string{{"set", k2, "7"}}
					ev = [][]string{{"set", k1, "1"}, {"del", k1, k2}, dep}
				default:
					pre = [][]string{{"set", k1, "1"}, {"set", k2, "2"}}
					ev = [][]string{{"del", k2, k1, k2}, dep, {"exists", k1, k2}}[:2]
				}
				for _, a := range pre {
					g.stepClock()
					g.emit(fmt.Sprintf("w %d 1 %s", g.ts, hexArgs(a)))
				}
				for j, a := range ev {
					g.stepClock()
					b := 0
					if j == len(ev)-1 {
						b = 1
					}
					g.emit(fmt.Sprintf("w %d %d %s", g.ts, b, hexArgs(a)))
				}
				g.emit("inv")
				continue
			}
		}
		g.stepClock()
		a := g.write()
		mutated := false
		if g.p(0.15) {
			a = g.mutate(a)
			mutated = true
		}
		b := 0
		if g.p(g.pBound) || last {
			b = 1
		}
		if !g.abortOK && len(a) > 0 {
			// outside the batch-abort sessions a batchable command that may fail at apply time (any mutated one, a
			// setex with a non-numeric ttl …) never shares an apply event with other entries: it waits for a closed
			// event and closes its own
			switch strings.ToLower(a[0]) {
			case "set", "setex", "hmset", "del":
				if mutated || g.open {
					if g.open {
						continue
					}
					b = 1
				}
			}
		}
		g.emit(fmt.Sprintf("w %d %d %s", g.ts, b, hexArgs(a)))
		g.open = b == 0
		if b == 1 && strings.Contains(sh, "s") && g.p(0.12) {
			delPF := ""
			if g.p(0.4) {
				// DEL of a HyperLogLog that lives only in the write-back cache of the live replica and on disk in the
				// restarted one: the key must be gone on both (seed C07-m1 of round 3: the live one kept it)
				delPF = dataNS + ":t:pf" + g.pick([]string{"0", "1", "2"})
				g.stepClock()
				g.emit(fmt.Sprintf("w %d 1 %s", g.ts, hexArgs([]string{"pfadd", delPF, "e" + strconv.Itoa(g.rng.Intn(4))})))
			}
			g.emit("restart")
			if delPF != "" {
				g.stepClock()
				g.emit(fmt.Sprintf("w %d 1 %s", g.ts, hexArgs([]string{"del", delPF})))
				g.emit("r " + hexArgs([]string{"pfcount", delPF}))
			}
			if g.p(0.5) {
				// right after the restart: a PFADD that (most likely) adds nothing new to a HyperLogLog that is only on disk now
				g.stepClock()
				g.emit(fmt.Sprintf("w %d 1 %s", g.ts, hexArgs([]string{"pfadd", dataNS + ":t:pf" + g.pick([]string{"0", "1"}), "e" + strconv.Itoa(g.rng.Intn(4))})))
			}
		}
		if b == 1 {
			g.emit("inv")
			if pol == "local" && g.p(0.08) {
				g.emit("scan")
				g.emit("inv")
			}
			if sinceDump >= 20 {
				g.emit("dump")
				sinceDump = 0
			}
		}
	}
	if pol == "local" && g.p(0.7) {
		g.emit("scan")
		g.emit("inv")
	}
	g.emit("dump")
	g.emit("end")
}

func genData(rng *rand.Rand, tier string, emit func(string)) {
	g := &dgen{rng: rng, emit: emit}
	n := 150
	if tier == "thorough" {
		n = 3000
	}
	emit("pfwin eng=pebble pol=compact")
	emit("pfwin eng=mem pol=local")
	for i := 0; i < n; i++ {
		g.session(tier, i)
		if (tier != "thorough" && i == 2) || (tier == "thorough" && i%150 == 2) {
			g.bigSession(i)
		}
	}
}

// bigSession: collections above rockredis.RangeDeleteNum (5000) elements, so that trims, range removals and clears
// take the DeleteRange branches instead of the per-element loops; a sibling collection whose key contains the
// separator sits next to each (`t:a` and `t:t:a`). inv / dump after every step.
func (g *dgen) bigSession(idx int) {
	eng := "mem"
	if g.p(0.3) {
		eng = "pebble"
	}
	pol := "local" // the range-delete branches of the clear operations run under the local-deletion layout
	if g.p(0.3) {
		pol = "compact"
	}
	g.emit(fmt.Sprintf("open engine=%s policy=%s now=%d sh=b", eng, pol, dataNowFixed))
	ts := int64(1600000000000000000) + g.rng.Int63n(1e9)
	w := func(args ...string) {
		ts += 1 + g.rng.Int63n(1e6)
		g.emit(fmt.Sprintf("w %d 1 %s", ts, hexArgs(args)))
		g.emit("inv")
	}
	many := func(prefix string, from, to int) []string {
		out := make([]string, 0, to-from)
		for i := from; i < to; i++ {
			out = append(out, fmt.Sprintf("%s%05d", prefix, i))
		}
		return out
	}
	total := 5200 + g.rng.Intn(900)
	k, sib := dataNS+":t:a", dataNS+":t:t:a"
	// list
	w(append([]string{"rpush", sib}, "x", "y", "z")...)
	w(append([]string{"rpush", k}, many("e", 0, 3000)...)...)
	w(append([]string{"rpush", k}, many("e", 3000, total)...)...)
	k2 := dataNS + ":t:b"
	w(append([]string{"rpush", k2}, many("e", 0, 3000)...)...)
	w(append([]string{"rpush", k2}, many("e", 3000, total)...)...)
	w("ltrim", k, "7", fmt.Sprint(total-8))                  // a few from both ends: the per-element loops
	w("ltrim", k, "0", fmt.Sprint(1+g.rng.Intn(20)))         // > 5000 from the tail: the range-delete branch
	w("ltrim", k2, fmt.Sprint(total-1-g.rng.Intn(20)), "-1") // > 5000 from the head: the range-delete branch
	g.emit("r " + hexArgs([]string{"lrange", k2, "0", "-1"}))
	g.emit("r " + hexArgs([]string{"lrange", k, "0", "-1"}))
	g.emit("r " + hexArgs([]string{"lindex", k, "-1"}))
	w("lclear", k)
	// zset
	pairs := func(from, to int) []string {
		var out []string
		for i := from; i < to; i++ {
			out = append(out, fmt.Sprint(i%50), fmt.Sprintf("m%05d", i))
		}
		return out
	}
	w(append([]string{"zadd", sib}, "1", "a", "2", "b")...)
	w(append([]string{"zadd", k}, pairs(0, 2500)...)...)
	w(append([]string{"zadd", k}, pairs(2500, 5000)...)...)
	w(append([]string{"zadd", k}, pairs(5000, total)...)...)
	switch g.rng.Intn(3) {
	case 0:
		w("zremrangebyrank", k, "3", fmt.Sprint(total-4))
	case 1:
		w("zremrangebyscore", k, "1", "48")
	default:
		w("zremrangebylex", k, "[m00010", "(m"+fmt.Sprintf("%05d", total-10))
	}
	w(append([]string{"zadd", k}, pairs(0, 5100)...)...)
	w("zclear", k)
	w("zadd", k, "7", "m00003") // re-add a former member
	g.emit("r " + hexArgs([]string{"zscore", sib, "a"}))
	// hash and set
	fv := func(from, to int) []string {
		var out []string
		for i := from; i < to; i++ {
			out = append(out, fmt.Sprintf("f%05d", i), "v")
		}
		return out
	}
	w("hset", sib, "f", "1")
	w(append([]string{"hmset", k}, fv(0, 2600)...)...)
	w(append([]string{"hmset", k}, fv(2600, 5200)...)...)
	w("hclear", k)
	w("hset", k, "f00001", "again")
	w("sadd", sib, "m")
	w(append([]string{"sadd", k}, many("s", 0, 4000)...)...)
	w(append([]string{"sadd", k}, many("s", 4000, 5300)...)...)
	w("sclear", k)
	w("sadd", k, "s00001")
	// a value above the 8 MiB limit in a NON-first position: the command fails after earlier fields went into the
	// shared write batch; nothing of it may surface with the next committed write
	huge := strings.Repeat("x", 8*1024*1024+1)
	k3 := dataNS + ":t:c"
	w("hmset", k3, "f1", "v1", "f2", huge)
	w("hset", k3, "g", "1")
	w("hmset", k3, "f3", "v3", "f4", huge, "f5", "v5")
	w("set", dataNS+":t:kv", "after")
	g.emit("r " + hexArgs([]string{"hgetall", k3}))
	g.emit("dump")
	g.emit("end")
}
