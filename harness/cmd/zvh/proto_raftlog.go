package main

// Protocol `raftlog` (diff mode): the raft LOG layer — the unexported raftLog + unstable on a real
// MemoryStorage, called method by method through harness/overlay/raft/verif_export.go — against the
// executable Lean model lean/ZanVerif/Raft/LogModel.lean (driver lean/Driver/RaftLog.lean).
//
// Arguments are written RELATIVE to the current state, and both sides resolve them against their own
// state (so any subsequence of op lines is executable and stays meaningful for the shrinker):
//   index expression  <B>+<k> | <B>-<k>   (saturating at 0) with base B one of
//        Z 0   F firstIndex   L lastIndex   C committed   A applied   O unstable.offset
//        S storage last index   D storage dummy index   N storage snapshot index   P pending unstable snapshot index (0 if none)
//   term expression   <n> | = | =+<k>     `=` is the term the log holds at the index it belongs to (0 on any error)
//   entries           - | <e>,<e>,...    e = <termexpr>/<data>/<dlen>[@<absolute index>]; the k-th entry gets index start+k
//   size              max | <n>
// Ops (one session = `reset`, then ops; before any reset a default session `reset max` exists):
//   reset <size> | newlog <size>                        fresh storage + newLog | newLog over the current storage (restart)
//   append <startX> <ents> | mapp <prevX> <term> <commitX> <ents> | find <startX> <ents>
//   commit <X> | applied <X> | stable <X> <term> | stablesnap <X> | restore <X> <term> | mcommit <X> <term>
//   term <X> | match <X> <term> | uptodate <X> <term> (`=` refers to the last index) | lastterm | hasnext | next | unstable | snap
//   slice <loX> <hiX> <size> | entries <X> <size>
//   st.append <startX> <ents> | st.appendu <n> (the first n unstable entries) | st.compact <X> | st.snap <X>
//   st.apply <X> <term> | st.applyu (the pending unstable snapshot) | st.entries <loX> <hiX> <size> | st.term <X>
//   node.start | ready <0|1> | advance                  a REAL raft.Node (RestartNode) over the current storage: StepNode / Advance
//   rs.reset | rs.append <startX> <ents> | rs.compact <X> | rs.snap <X> | rs.apply <X> <term> | rs.first | rs.last
//   rs.term <X> | rs.entries <loX> <hiX> <size>       a REAL RocksStorage (mem engine) — index bookkeeping; index bases here:
//        z 0   f its first index (snapshot+1, else first DB entry+1)   l its last DB entry's index   n its snapshot index;
//        `=` is the term of the DB entry at that index (0 if none); the answer carries the raw state: caches, snapshot, DB
// Answer: `<op with resolved arguments> => <result> | <state dump>`; a Go panic is `panic:<class>` and the
// state is rolled back (in production a panic ends the process).
// Oracle (class `raftlog-…`): stated on the real code, independent of the model — see rlOracle.

import (
	"fmt"
	"io/ioutil"
	"math/rand"
	"os"
	"runtime"
	"strconv"
	"strings"

	"github.com/youzan/ZanRedisDB/engine"
	"github.com/youzan/ZanRedisDB/raft"
	pb "github.com/youzan/ZanRedisDB/raft/raftpb"
)

func init() {
	register(&Proto{Name: "raftlog", Gen: genRaftLog, New: newRaftLog})
}

// ---------------------------------------------------------------------------------------------
// generator

type rlGen struct {
	rng  *rand.Rand
	cur  int // current term
	data int
}

func (g *rlGen) pick(xs ...string) string { return xs[g.rng.Intn(len(xs))] }

func (g *rlGen) size() string {
	return g.pick("max", "max", "max", "0", "1", "30", "45", "60", "100", "200")
}

func (g *rlGen) ent(term string) string {
	g.data++
	dl := g.rng.Intn(6)
	if g.rng.Intn(5) == 0 {
		dl = g.rng.Intn(200)
	}
	return fmt.Sprintf("%s/%d/%d", term, g.data, dl)
}

func (g *rlGen) wildIdx() string {
	b := g.pick("Z", "F", "L", "C", "A", "O", "S", "D", "N", "P", "L", "C", "A")
	sg := g.pick("+", "+", "-")
	return fmt.Sprintf("%s%s%d", b, sg, g.rng.Intn(5))
}

func (g *rlGen) wildTerm() string {
	switch g.rng.Intn(5) {
	case 0:
		return "="
	case 1:
		return fmt.Sprintf("=+%d", 1+g.rng.Intn(2))
	case 2:
		return "0"
	default:
		return strconv.Itoa(1 + g.rng.Intn(g.cur+1))
	}
}

func (g *rlGen) wildEnts() string {
	n := g.rng.Intn(5)
	if n == 0 {
		return "-"
	}
	var es []string
	for i := 0; i < n; i++ {
		e := g.ent(g.wildTerm())
		if g.rng.Intn(8) == 0 {
			e += fmt.Sprintf("@%d", g.rng.Intn(12))
		}
		es = append(es, e)
	}
	return strings.Join(es, ",")
}

func (g *rlGen) newEnts(n int) string {
	if n == 0 {
		return "-"
	}
	var es []string
	for i := 0; i < n; i++ {
		es = append(es, g.ent(strconv.Itoa(g.cur)))
	}
	return strings.Join(es, ",")
}

// one step of a mostly raft-legal life of a log
func (g *rlGen) legal(emit func(string)) {
	r := g.rng
	if r.Intn(10) == 0 {
		g.cur++
	}
	switch r.Intn(24) {
	case 0, 1, 2: // leader appends
		emit("append L+1 " + g.newEnts(1+r.Intn(3)))
	case 3, 4, 5, 6: // follower: matching prev, m entries it already has, n new ones
		k := r.Intn(4)
		m := 0
		if k > 0 {
			m = r.Intn(k + 1)
		}
		var es []string
		for i := 0; i < m; i++ {
			es = append(es, g.ent("="))
		}
		n := r.Intn(4)
		for i := 0; i < n; i++ {
			es = append(es, g.ent(strconv.Itoa(g.cur)))
		}
		s := "-"
		if len(es) > 0 {
			s = strings.Join(es, ",")
		}
		cm := fmt.Sprintf("C+%d", r.Intn(4))
		if r.Intn(3) == 0 {
			cm = fmt.Sprintf("L+%d", r.Intn(3))
		}
		emit(fmt.Sprintf("mapp L-%d = %s %s", k, cm, s))
	case 7: // follower: stale / conflicting prev
		emit(fmt.Sprintf("mapp L-%d =+1 C+%d %s", r.Intn(3), r.Intn(3), g.newEnts(r.Intn(3))))
	case 8: // follower: a new leader overwrites an uncommitted tail
		g.cur++
		emit(fmt.Sprintf("mapp C+%d = C+%d %s", r.Intn(3), r.Intn(2), g.newEnts(1+r.Intn(3))))
	case 9, 10:
		emit(fmt.Sprintf("commit C+%d", r.Intn(4)))
	case 11:
		emit(fmt.Sprintf("mcommit C+%d %s", 1+r.Intn(3), g.pick("=", "=", strconv.Itoa(g.cur))))
	case 12, 13, 14: // persist the unstable entries, then stableTo
		n := 1 + r.Intn(3)
		emit(fmt.Sprintf("st.appendu %d", n))
		if r.Intn(6) != 0 {
			emit(fmt.Sprintf("stable O+%d =", n-1))
		}
	case 15, 16: // apply
		emit("next")
		emit(fmt.Sprintf("applied A+%d", 1+r.Intn(3)))
	case 17:
		emit("applied C+0")
	case 18: // snapshot + compaction by the application
		k := r.Intn(3)
		emit(fmt.Sprintf("st.snap A-%d", k))
		if r.Intn(2) == 0 {
			emit(fmt.Sprintf("st.compact A-%d", k+r.Intn(2)))
		}
	case 19: // incoming snapshot
		emit(fmt.Sprintf("restore %s+%d %d", g.pick("C", "L"), 1+r.Intn(4), g.cur))
		if r.Intn(4) != 0 {
			emit("st.applyu")
			if r.Intn(4) != 0 {
				emit("stablesnap P+0")
			}
		}
	case 20:
		emit("newlog " + g.size())
	default:
		g.query(emit)
	}
}

func (g *rlGen) query(emit func(string)) {
	r := g.rng
	switch r.Intn(14) {
	case 0:
		emit("term " + g.wildIdx())
	case 1:
		emit(fmt.Sprintf("match %s %s", g.wildIdx(), g.wildTerm()))
	case 2:
		emit(fmt.Sprintf("uptodate %s %s", g.wildIdx(), g.wildTerm()))
	case 3:
		emit("lastterm")
	case 4:
		emit("hasnext")
	case 5:
		emit("next")
	case 6:
		emit("unstable")
	case 7:
		emit("snap")
	case 8:
		emit(fmt.Sprintf("slice F+%d L+%d %s", r.Intn(4), r.Intn(2), g.size()))
	case 9:
		emit(fmt.Sprintf("slice %s %s %s", g.wildIdx(), g.wildIdx(), g.size()))
	case 10:
		emit(fmt.Sprintf("entries %s %s", g.wildIdx(), g.size()))
	case 11:
		emit(fmt.Sprintf("st.entries %s %s %s", g.wildIdx(), g.wildIdx(), g.size()))
	case 12:
		emit("st.term " + g.wildIdx())
	case 13:
		emit(fmt.Sprintf("find %s %s", g.wildIdx(), g.wildEnts()))
	}
}

// arbitrary (mostly illegal) calls
func (g *rlGen) wild(emit func(string)) {
	r := g.rng
	switch r.Intn(16) {
	case 0:
		emit(fmt.Sprintf("append %s %s", g.wildIdx(), g.wildEnts()))
	case 1, 2:
		emit(fmt.Sprintf("mapp %s %s %s %s", g.wildIdx(), g.wildTerm(), g.wildIdx(), g.wildEnts()))
	case 3:
		emit("commit " + g.wildIdx())
	case 4:
		emit("applied " + g.wildIdx())
	case 5:
		emit(fmt.Sprintf("stable %s %s", g.wildIdx(), g.wildTerm()))
	case 6:
		emit("stablesnap " + g.wildIdx())
	case 7:
		emit(fmt.Sprintf("restore %s %s", g.wildIdx(), g.wildTerm()))
	case 8:
		emit(fmt.Sprintf("mcommit %s %s", g.wildIdx(), g.wildTerm()))
	case 9:
		emit(fmt.Sprintf("st.append %s %s", g.wildIdx(), g.wildEnts()))
	case 10:
		emit("st.compact " + g.wildIdx())
	case 11:
		emit("st.snap " + g.wildIdx())
	case 12:
		emit(fmt.Sprintf("st.apply %s %s", g.wildIdx(), g.wildTerm()))
	case 13:
		emit(fmt.Sprintf("st.appendu %d", r.Intn(4)))
	default:
		g.query(emit)
	}
}

// a life with a real raft.Node on top: Ready / Advance cycles interleaved with log and storage steps
func (g *rlGen) nodeStep(emit func(string)) {
	r := g.rng
	switch r.Intn(14) {
	case 0, 1, 2, 3:
		emit(fmt.Sprintf("ready %d", g.pickInt(1, 1, 1, 0)))
		if r.Intn(8) != 0 {
			if r.Intn(12) != 0 {
				emit("st.applyu")
			}
			if r.Intn(12) != 0 {
				emit("st.appendu 9")
			}
			emit("advance")
		}
	case 4:
		emit("advance")
	case 5, 6:
		emit("append L+1 " + g.newEnts(1+r.Intn(3)))
	case 7, 8:
		emit(fmt.Sprintf("commit C+%d", 1+r.Intn(3)))
	case 9:
		g.cur++
		emit(fmt.Sprintf("mapp C+%d = L+0 %s", r.Intn(2), g.newEnts(1+r.Intn(3))))
	case 10:
		emit(fmt.Sprintf("restore %s+%d %d", g.pick("C", "L"), 1+r.Intn(4), g.cur))
	case 11:
		k := r.Intn(3)
		emit(fmt.Sprintf("st.snap A-%d", k))
		emit(fmt.Sprintf("st.compact A-%d", k))
	case 12:
		emit("node.start")
	default:
		g.legal(emit)
	}
}

func (g *rlGen) pickInt(xs ...int) int { return xs[g.rng.Intn(len(xs))] }

func (g *rlGen) rsIdx() string {
	return fmt.Sprintf("%s%s%d", g.pick("z", "f", "l", "n", "l", "f"), g.pick("+", "+", "-"), g.rng.Intn(5))
}

// RocksStorage: what the application does with it (append the Ready's entries, snapshot + compact, apply an
// incoming snapshot) plus reads; `wild` = arbitrary arguments
func (g *rlGen) rocks(emit func(string), wild bool) {
	r := g.rng
	if r.Intn(10) == 0 {
		g.cur++
	}
	if wild {
		switch r.Intn(6) {
		case 0:
			emit(fmt.Sprintf("rs.append %s %s", g.rsIdx(), g.wildEnts()))
		case 1:
			emit("rs.compact " + g.rsIdx())
		case 2:
			emit("rs.snap " + g.rsIdx())
		case 3:
			emit(fmt.Sprintf("rs.apply %s %s", g.rsIdx(), g.wildTerm()))
		case 4:
			emit(fmt.Sprintf("rs.entries %s %s %s", g.rsIdx(), g.rsIdx(), g.size()))
		default:
			emit("rs.term " + g.rsIdx())
		}
		return
	}
	switch r.Intn(16) {
	case 0, 1, 2, 3, 4:
		emit("rs.append l+1 " + g.newEnts(1+r.Intn(4)))
	case 5, 6: // a new leader overwrites a suffix
		g.cur++
		emit(fmt.Sprintf("rs.append l-%d %s", r.Intn(3), g.newEnts(1+r.Intn(3))))
	case 7, 8:
		k := r.Intn(4)
		emit(fmt.Sprintf("rs.snap f+%d", k))
		if r.Intn(2) == 0 {
			emit(fmt.Sprintf("rs.compact f+%d", r.Intn(k+1)))
		}
	case 9: // an incoming snapshot ahead of the log
		emit(fmt.Sprintf("rs.apply l+%d %d", 1+r.Intn(3), g.cur))
	case 10: // an incoming snapshot that conflicts with a longer log
		g.cur++
		emit(fmt.Sprintf("rs.apply l-%d %d", r.Intn(3), g.cur))
	case 11:
		emit("rs.first")
	case 12:
		emit("rs.last")
	case 13:
		emit("rs.term " + g.rsIdx())
	case 14:
		emit(fmt.Sprintf("rs.entries f+%d l+%d %s", r.Intn(3), r.Intn(2), g.size()))
	default:
		emit(fmt.Sprintf("rs.entries %s %s %s", g.rsIdx(), g.rsIdx(), g.size()))
	}
}

func genRaftLog(rng *rand.Rand, tier string, emit func(string)) {
	sessions, ops := 300, 60
	if tier == "thorough" {
		sessions, ops = 900, 80
	}
	for s := 0; s < sessions; s++ {
		g := &rlGen{rng: rng, cur: 1}
		emit("reset " + g.size())
		mode := rng.Intn(5) // 0 legal, 1 mostly legal, 2 wild, 3 node driver, 4 RocksStorage
		if mode == 3 {
			emit("node.start")
		}
		if mode == 4 {
			emit("rs.reset")
		}
		cnt := 0
		out := func(l string) { cnt++; emit(l) }
		for cnt < ops {
			switch mode {
			case 0:
				g.legal(out)
			case 1:
				if rng.Intn(6) == 0 {
					g.wild(out)
				} else {
					g.legal(out)
				}
			case 2:
				if rng.Intn(3) == 0 {
					g.legal(out)
				} else {
					g.wild(out)
				}
			case 3:
				if rng.Intn(12) == 0 {
					g.wild(out)
				} else {
					g.nodeStep(out)
				}
			default:
				g.rocks(out, rng.Intn(8) == 0)
			}
		}
	}
}

// ---------------------------------------------------------------------------------------------
// executor

type rlSess struct {
	c    *Ctx
	ms   *raft.MemoryStorage
	v    *raft.VerifLog
	max  uint64
	node raft.Node
	rd   *raft.Ready // the Ready handed out by the last `ready`, consumed by `advance`
	// oracle state
	handed  uint64 // last index handed out for application by the node driver (entries or snapshot) since node.start
	clean   bool   // the environment contract of the node driver was respected since node.start
	notCont bool   // StepNode logged "index not continued"
	wfOK    bool   // the state was well-formed before the current op (gates the log-level oracle)
	rs      *raft.RocksStorage
	rsDirty bool // an ill-formed batch was appended to the RocksStorage in this session (voids its oracle)
}

func rlSize(s string) uint64 {
	if s == "max" {
		return ^uint64(0)
	}
	n, _ := strconv.ParseUint(s, 10, 64)
	return n
}

func rlSizeStr(n uint64) string {
	if n == ^uint64(0) {
		return "max"
	}
	return strconv.FormatUint(n, 10)
}

func (s *rlSess) reset(max uint64) {
	s.ms = raft.NewRealMemoryStorage()
	s.newlog(max)
}

func (s *rlSess) newlog(max uint64) {
	s.max = max
	s.v = raft.VerifNewLog(s.ms, quietLogger{}, max)
	s.node, s.rd, s.clean = nil, nil, false
}

func (s *rlSess) idx(e string) uint64 {
	if len(e) < 3 {
		return 0
	}
	var b uint64
	switch e[0] {
	case 'Z':
		b = 0
	case 'F':
		b = s.v.FirstIndex()
	case 'L':
		b = s.v.LastIndex()
	case 'C':
		b = s.v.Committed()
	case 'A':
		b = s.v.Applied()
	case 'O':
		b = s.v.UnstableOffset()
	case 'S':
		es := raft.VerifMemEnts(s.ms)
		b = es[0].Index + uint64(len(es)) - 1
	case 'D':
		b = raft.VerifMemEnts(s.ms)[0].Index
	case 'N':
		b, _ = raft.VerifMemSnap(s.ms)
	case 'P':
		b, _, _ = s.v.UnstableSnap()
	}
	k, _ := strconv.ParseUint(e[2:], 10, 64)
	if e[1] == '-' {
		if k > b {
			return 0
		}
		return b - k
	}
	return b + k
}

// the term the log holds at i, 0 on any error or panic
func (s *rlSess) termOr0(i uint64) (t uint64) {
	defer func() {
		if r := recover(); r != nil {
			t = 0
		}
	}()
	t, err := s.v.Term(i)
	if err != nil {
		return 0
	}
	return t
}

func (s *rlSess) term(e string, at uint64) uint64 {
	if strings.HasPrefix(e, "=") {
		t := s.termOr0(at)
		if len(e) > 2 {
			k, _ := strconv.ParseUint(e[2:], 10, 64)
			t += k
		}
		return t
	}
	n, _ := strconv.ParseUint(e, 10, 64)
	return n
}

func (s *rlSess) ents(spec string, start uint64) []pb.Entry {
	if spec == "-" || spec == "" {
		return nil
	}
	var out []pb.Entry
	for k, e := range strings.Split(spec, ",") {
		idx := start + uint64(k)
		if at := strings.IndexByte(e, '@'); at >= 0 {
			idx, _ = strconv.ParseUint(e[at+1:], 10, 64)
			e = e[:at]
		}
		f := strings.Split(e, "/")
		if len(f) != 3 {
			continue
		}
		d, _ := strconv.ParseUint(f[1], 10, 64)
		dl, _ := strconv.Atoi(f[2])
		en := pb.Entry{Index: idx, Term: s.term(f[0], idx), ID: d}
		if dl > 0 {
			en.Data = make([]byte, dl)
		}
		out = append(out, en)
	}
	return out
}

func rlEnts(es []pb.Entry) string {
	if len(es) == 0 {
		return "-"
	}
	var b strings.Builder
	for i, e := range es {
		if i > 0 {
			b.WriteByte(',')
		}
		fmt.Fprintf(&b, "%d.%d.%d.%d", e.Index, e.Term, e.ID, len(e.Data))
	}
	return b.String()
}

func rlErr(err error) string {
	switch err {
	case raft.ErrCompacted:
		return "err:compacted"
	case raft.ErrUnavailable:
		return "err:unavailable"
	case raft.ErrSnapOutOfDate:
		return "err:snapoutofdate"
	}
	return "err:other:" + err.Error()
}

func rlPanicClass(r interface{}) string {
	if re, ok := r.(runtime.Error); ok {
		m := re.Error()
		switch {
		case strings.Contains(m, "slice bounds out of range"):
			return "rt-slice"
		case strings.Contains(m, "index out of range"):
			return "rt-index"
		}
		return "rt-other:" + m
	}
	m := fmt.Sprint(r)
	for _, p := range [][2]string{
		{"tocommit(", "tocommit"}, {"applied(", "applied"}, {"conflict with committed entry", "conflict"},
		{"after(", "after"}, {"invalid slice", "slice-inv"}, {"invalid unstable.slice", "uslice-inv"},
		{"unstable.slice[", "uslice-oob"}, {"slice[", "slice-oob"}, {"is unavailable from storage", "unavailable"},
		{"unexpected error when getting unapplied entries", "nextents-err"},
		{"unexpected error when getting the last term", "lastterm-err"}, {"unexpected error (", "zeroterm-err"},
		{"entries' hi(", "st-hi"}, {"snapshot ", "st-snap-oob"}, {"compact ", "st-compact-oob"},
		{"missing log entry", "st-missing"},
	} {
		if strings.Contains(m, p[0]) {
			return p[1]
		}
	}
	return "other:" + m
}

func (s *rlSess) dump() string {
	v := s.v
	var b strings.Builder
	us := "-"
	if i, t, ok := v.UnstableSnap(); ok {
		us = fmt.Sprintf("%d.%d", i, t)
	}
	si, st := raft.VerifMemSnap(s.ms)
	fi, li := v.FirstIndex(), v.LastIndex()
	wf := s.wf()
	fmt.Fprintf(&b, "c=%d a=%d off=%d us=%s ue=%s ss=%d.%d se=%s fi=%d li=%d tm=", v.Committed(), v.Applied(),
		v.UnstableOffset(), us, rlEnts(v.UnstableRaw()), si, st, rlEnts(raft.VerifMemEnts(s.ms)), fi, li)
	if li+1 < fi {
		b.WriteString("-")
	} else if li+1-fi > 200 {
		b.WriteString("long")
	} else {
		for i := fi - 1; i <= li; i++ {
			if i > fi-1 {
				b.WriteByte(',')
			}
			b.WriteString(s.termStr(i))
		}
	}
	fmt.Fprintf(&b, " wf=%v", wf)
	if s.node != nil {
		nv := raft.VerifNodeView_(s.node)
		hc := "-"
		if !nv.PrevHardEmpty {
			hc = strconv.FormatUint(nv.PrevHardCommit, 10)
		}
		fmt.Fprintf(&b, " node: need=%v stepped=%d have=%v pi=%d pt=%d psnap=%d phc=%s", nv.NeedAdvance, nv.LastSteppedIndex,
			nv.HavePrevLastUnstablei, nv.PrevLastUnstablei, nv.PrevLastUnstablet, nv.PrevSnapi, hc)
	}
	return b.String()
}

func (s *rlSess) termStr(i uint64) (out string) {
	defer func() {
		if r := recover(); r != nil {
			out = "P"
		}
	}()
	t, err := s.v.Term(i)
	switch err {
	case nil:
		return strconv.FormatUint(t, 10)
	case raft.ErrCompacted:
		return "C"
	case raft.ErrUnavailable:
		return "U"
	}
	return "E"
}

// run f; a panic is classified and the state rolled back
func (s *rlSess) guard(f func() string) (out string) {
	saved := s.v.Save()
	defer func() {
		if r := recover(); r != nil {
			s.v.Load(saved)
			cl := rlPanicClass(r)
			s.c.Note("panic:" + cl)
			out = "panic:" + cl
		}
	}()
	return f()
}

func newRaftLog(c *Ctx) func(string) string {
	raft.SetLogger(quietLogger{})
	s := &rlSess{c: c}
	s.reset(^uint64(0))
	return func(line string) string {
		f := strings.Fields(line)
		if len(f) == 0 {
			return "bad-op"
		}
		arg := func(i int) string {
			if i < len(f) {
				return f[i]
			}
			return "Z+0"
		}
		var head, res string
		s.wfOK = s.wf()
		if s.wfOK {
			c.Note("wf-before-op")
		}
		switch f[0] {
		case "reset":
			m := rlSize(arg(1))
			s.reset(m)
			head, res = "reset "+rlSizeStr(m), "ok"
		case "newlog":
			m := rlSize(arg(1))
			s.newlog(m)
			head, res = "newlog "+rlSizeStr(m), "ok"
		case "append":
			st := s.idx(arg(1))
			es := s.ents(arg(2), st)
			head = fmt.Sprintf("append %s", rlEnts(es))
			s.contract(f, es, st, 0)
			res = s.guard(func() string { return fmt.Sprintf("last=%d", s.v.Append(es)) })
			if rlArgsOK(es, st) {
				s.oracleAfterWrite("append")
			}
		case "mapp":
			prev := s.idx(arg(1))
			lt := s.term(arg(2), prev)
			cm := s.idx(arg(3))
			es := s.ents(arg(4), prev+1)
			head = fmt.Sprintf("mapp %d %d %d %s", prev, lt, cm, rlEnts(es))
			s.contract(f, es, prev+1, 0)
			before := s.snapForOracle()
			res = s.guard(func() string {
				li, ok := s.v.MaybeAppend(prev, lt, cm, es)
				if !ok {
					c.Note("mapp:rej")
					return "rej"
				}
				c.Note("mapp:ok")
				return fmt.Sprintf("ok %d", li)
			})
			s.oracleMaybeAppend(before, prev, es, res)
		case "find":
			st := s.idx(arg(1))
			es := s.ents(arg(2), st)
			head = fmt.Sprintf("find %s", rlEnts(es))
			res = s.guard(func() string { return fmt.Sprintf("%d", s.v.FindConflict(es)) })
		case "commit":
			i := s.idx(arg(1))
			head = fmt.Sprintf("commit %d", i)
			before := s.v.Committed()
			res = s.guard(func() string { s.v.CommitTo(i); return "ok" })
			if s.v.Committed() < before {
				c.Violation("raftlog-commit-decreased", fmt.Sprintf("%s: %d -> %d", head, before, s.v.Committed()))
			}
			s.oracleAfterWrite("commitTo")
		case "applied":
			i := s.idx(arg(1))
			head = fmt.Sprintf("applied %d", i)
			s.contract(f, nil, 0, i)
			res = s.guard(func() string { s.v.AppliedTo(i); return "ok" })
		case "stable":
			i := s.idx(arg(1))
			t := s.term(arg(2), i)
			head = fmt.Sprintf("stable %d %d", i, t)
			s.contract(f, nil, 0, i)
			offBefore, termBefore := s.v.UnstableOffset(), s.termOr0(i)
			res = s.guard(func() string { s.v.StableTo(i, t); return "ok" })
			// entries leave the unstable part only for the (index, term) that was actually persisted
			if s.wfOK && s.v.UnstableOffset() != offBefore && (termBefore != t || i < offBefore || s.v.UnstableOffset() != i+1) {
				c.Violation("raftlog-stable-wrong-term", fmt.Sprintf("stableTo(%d, %d) moved the offset %d -> %d, term there was %d",
					i, t, offBefore, s.v.UnstableOffset(), termBefore))
			}
		case "stablesnap":
			i := s.idx(arg(1))
			head = fmt.Sprintf("stablesnap %d", i)
			s.contract(f, nil, 0, i)
			res = s.guard(func() string { s.v.StableSnapTo(i); return "ok" })
		case "restore":
			i := s.idx(arg(1))
			t := s.term(arg(2), i)
			head = fmt.Sprintf("restore %d %d", i, t)
			s.contract(f, nil, 0, i)
			res = s.guard(func() string { s.v.Restore(i, t); return "ok" })
		case "mcommit":
			i := s.idx(arg(1))
			t := s.term(arg(2), i)
			head = fmt.Sprintf("mcommit %d %d", i, t)
			before := s.v.Committed()
			res = s.guard(func() string { return fmt.Sprint(s.v.MaybeCommit(i, t)) })
			if s.v.Committed() < before {
				c.Violation("raftlog-commit-decreased", fmt.Sprintf("%s: %d -> %d", head, before, s.v.Committed()))
			}
		case "term":
			i := s.idx(arg(1))
			head = fmt.Sprintf("term %d", i)
			res = s.guard(func() string {
				t, err := s.v.Term(i)
				if err != nil {
					return rlErr(err)
				}
				return fmt.Sprint(t)
			})
		case "match":
			i := s.idx(arg(1))
			t := s.term(arg(2), i)
			head = fmt.Sprintf("match %d %d", i, t)
			res = s.guard(func() string { return fmt.Sprint(s.v.MatchTerm(i, t)) })
		case "uptodate":
			i := s.idx(arg(1))
			t := s.term(arg(2), s.v.LastIndex())
			head = fmt.Sprintf("uptodate %d %d", i, t)
			res = s.guard(func() string { return fmt.Sprint(s.v.IsUpToDate(i, t)) })
		case "lastterm":
			head = "lastterm"
			res = s.guard(func() string { return fmt.Sprint(s.v.LastTerm()) })
		case "hasnext":
			head = "hasnext"
			res = s.guard(func() string { return fmt.Sprint(s.v.HasNextEnts()) })
		case "next":
			head = "next"
			res = s.guard(func() string {
				es := s.v.NextEnts()
				s.oracleNextEnts(es)
				return rlEnts(es)
			})
		case "unstable":
			head = "unstable"
			res = s.guard(func() string { return rlEnts(s.v.UnstableEntries()) })
		case "snap":
			head = "snap"
			res = s.guard(func() string {
				i, t := s.v.Snapshot()
				return fmt.Sprintf("%d.%d pending=%v", i, t, s.v.HasPendingSnapshot())
			})
		case "slice":
			lo, hi, m := s.idx(arg(1)), s.idx(arg(2)), rlSize(arg(3))
			head = fmt.Sprintf("slice %d %d %s", lo, hi, rlSizeStr(m))
			res = s.guard(func() string {
				es, err := s.v.Slice(lo, hi, m)
				if err != nil {
					return rlErr(err)
				}
				s.oracleSlice(es, lo, hi)
				return rlEnts(es)
			})
		case "entries":
			i, m := s.idx(arg(1)), rlSize(arg(2))
			head = fmt.Sprintf("entries %d %s", i, rlSizeStr(m))
			res = s.guard(func() string {
				es, err := s.v.Entries(i, m)
				if err != nil {
					return rlErr(err)
				}
				return rlEnts(es)
			})
		case "st.append":
			st := s.idx(arg(1))
			es := s.ents(arg(2), st)
			head = fmt.Sprintf("st.append %s", rlEnts(es))
			s.contract(f, nil, 0, 0)
			res = s.guard(func() string {
				if err := s.ms.Append(es); err != nil {
					return rlErr(err)
				}
				return "ok"
			})
		case "st.appendu":
			n, _ := strconv.Atoi(arg(1))
			es := s.v.UnstableRaw()
			if n < len(es) {
				es = es[:n]
			}
			head = fmt.Sprintf("st.appendu %s", rlEnts(es))
			s.contract(f, nil, 0, 0)
			res = s.guard(func() string {
				if err := s.ms.Append(es); err != nil {
					return rlErr(err)
				}
				return "ok"
			})
		case "st.compact":
			i := s.idx(arg(1))
			head = fmt.Sprintf("st.compact %d", i)
			s.contract(f, nil, 0, i)
			res = s.guard(func() string {
				if err := s.ms.Compact(i); err != nil {
					return rlErr(err)
				}
				return "ok"
			})
		case "st.snap":
			i := s.idx(arg(1))
			head = fmt.Sprintf("st.snap %d", i)
			res = s.guard(func() string {
				sn, err := s.ms.CreateSnapshot(i, nil, nil)
				if err != nil {
					return rlErr(err)
				}
				return fmt.Sprintf("ok %d.%d", sn.Metadata.Index, sn.Metadata.Term)
			})
		case "st.apply":
			i := s.idx(arg(1))
			t := s.term(arg(2), i)
			head = fmt.Sprintf("st.apply %d %d", i, t)
			s.contract(f, nil, 0, i)
			res = s.guard(func() string {
				if err := s.ms.ApplySnapshot(pb.Snapshot{Metadata: pb.SnapshotMetadata{Index: i, Term: t}}); err != nil {
					return rlErr(err)
				}
				return "ok"
			})
		case "st.applyu":
			i, t, ok := s.v.UnstableSnap()
			if !ok {
				head, res = "st.applyu -", "none"
				break
			}
			head = fmt.Sprintf("st.applyu %d.%d", i, t)
			res = s.guard(func() string {
				if err := s.ms.ApplySnapshot(pb.Snapshot{Metadata: pb.SnapshotMetadata{Index: i, Term: t}}); err != nil {
					return rlErr(err)
				}
				return "ok"
			})
		case "st.entries":
			lo, hi, m := s.idx(arg(1)), s.idx(arg(2)), rlSize(arg(3))
			head = fmt.Sprintf("st.entries %d %d %s", lo, hi, rlSizeStr(m))
			res = s.guard(func() string {
				es, err := s.ms.Entries(lo, hi, m)
				if err != nil {
					return rlErr(err)
				}
				return rlEnts(es)
			})
		case "st.term":
			i := s.idx(arg(1))
			head = fmt.Sprintf("st.term %d", i)
			res = s.guard(func() string {
				t, err := s.ms.Term(i)
				if err != nil {
					return rlErr(err)
				}
				return fmt.Sprint(t)
			})
		case "node.start", "ready", "advance":
			head, res = s.nodeOp(f)
		case "rs.reset", "rs.append", "rs.compact", "rs.snap", "rs.apply", "rs.first", "rs.last", "rs.term", "rs.entries":
			return s.rocksOp(f)
		default:
			return "bad-op"
		}
		if strings.HasPrefix(res, "err:") {
			c.Note(f[0] + ":" + res)
		}
		return head + " => " + res + " | " + s.dump()
	}
}

// ---------------------------------------------------------------------------------------------
// the node driver on a real raft.Node

// rlLogger records the "index not continued" error line of StepNode
type rlLogger struct {
	quietLogger
	s *rlSess
}

func (l rlLogger) Error(v ...interface{}) {
	if strings.Contains(fmt.Sprint(v...), "index not continued") {
		l.s.notCont = true
	}
}
func (l rlLogger) Errorf(format string, v ...interface{}) {
	if strings.Contains(fmt.Sprintf(format, v...), "index not continued") {
		l.s.notCont = true
	}
}

func (s *rlSess) nodeOp(f []string) (string, string) {
	switch f[0] {
	case "node.start":
		// RestartNode over the current storage (the session's log is replaced by the node's fresh raftLog,
		// as in a restart), hard state {Term 1, Commit = the old committed index clamped into the storage}.
		es := raft.VerifMemEnts(s.ms)
		lo, hi := es[0].Index, es[0].Index+uint64(len(es))-1
		cm := s.v.Committed()
		if cm < lo {
			cm = lo
		}
		if cm > hi {
			cm = hi
		}
		head := fmt.Sprintf("node.start %d", cm)
		res := s.guard(func() string {
			n, v := raft.VerifRestartNode(s.ms, rlLogger{s: s}, s.max, cm)
			s.node, s.v, s.rd = n, v, nil
			s.handed, s.clean = v.Applied(), s.wf() // an ill-formed storage (index fields) voids the contract
			return "ok"
		})
		return head, res
	case "ready":
		more := len(f) > 1 && f[1] == "1"
		head := fmt.Sprintf("ready %v", more)
		if s.node == nil {
			return head, "nonode"
		}
		s.notCont = false
		res := s.guard(func() string {
			rd, ok := s.node.StepNode(more, false)
			if !ok {
				return "none"
			}
			s.rd = &rd
			s.oracleReady(rd)
			if s.clean {
				s.c.Note("node:ready-in-clean-session")
				if !raft.IsEmptySnap(rd.Snapshot) && len(rd.CommittedEntries) > 0 {
					s.c.Note("node:ready-snapshot+entries")
				}
				if rd.MoreCommittedEntries {
					s.c.Note("node:ready-paginated")
				}
			}
			snap := "-"
			if !raft.IsEmptySnap(rd.Snapshot) {
				snap = fmt.Sprintf("%d.%d", rd.Snapshot.Metadata.Index, rd.Snapshot.Metadata.Term)
			}
			hc := "-"
			if !raft.IsEmptyHardState(rd.HardState) {
				hc = strconv.FormatUint(rd.HardState.Commit, 10)
			}
			return fmt.Sprintf("ents=%s committed=%s snap=%s more=%v hc=%s notcont=%v", rlEnts(rd.Entries),
				rlEnts(rd.CommittedEntries), snap, rd.MoreCommittedEntries, hc, s.notCont)
		})
		// a panic inside newReady happens before StepNode changes any field of the node: the node stays
		if strings.HasPrefix(res, "panic:") && s.clean {
			s.c.Violation("raftlog-ready-panic", res)
		}
		if s.notCont {
			// only a diagnostic line of StepNode (compared with the model's `notContinued`), not a property clause
			s.c.Note("node:index-not-continued-logged")
			if s.clean {
				s.c.Note("node:index-not-continued-logged-in-clean-session")
			}
		}
		return head, res
	case "advance":
		head := "advance"
		if s.node == nil {
			return head, "nonode"
		}
		if s.rd == nil {
			return head, "noready"
		}
		rd := *s.rd
		s.rd = nil
		// the Ready contract: the snapshot and the entries of the Ready are in the storage before Advance
		if !s.persisted(rd) {
			s.clean = false
		}
		res := s.guard(func() string { s.node.Advance(rd); return "ok" })
		if s.clean {
			s.c.Note("node:advance-in-clean-session")
		}
		if strings.HasPrefix(res, "panic:") {
			// Advance changes prevState before appliedTo can panic: a node that panicked here is dead
			if s.clean {
				s.c.Violation("raftlog-advance-panic", res)
			}
			s.node = nil
		}
		return head, res
	}
	return f[0], "bad"
}

func (s *rlSess) persisted(rd raft.Ready) bool {
	es := raft.VerifMemEnts(s.ms)
	if !raft.IsEmptySnap(rd.Snapshot) && es[0].Index < rd.Snapshot.Metadata.Index {
		return false
	}
	for _, e := range rd.Entries {
		if e.Index < es[0].Index {
			continue
		}
		k := e.Index - es[0].Index
		if k >= uint64(len(es)) || es[k].Term != e.Term || es[k].ID != e.ID {
			return false
		}
	}
	return true
}

// environment contract of the node driver (what raft and the application may do between Ready cycles);
// anything else makes the session `unclean` and silences the node-level oracle
func (s *rlSess) contract(f []string, es []pb.Entry, start uint64, arg uint64) {
	if s.node == nil || !s.clean {
		return
	}
	switch f[0] {
	case "applied", "stable", "stablesnap", "st.append", "st.apply", "newlog":
		s.clean = false
	case "restore":
		if arg <= s.v.Committed() {
			s.clean = false
		}
	case "st.compact":
		if arg > s.v.Applied() {
			s.clean = false
		}
	case "st.appendu":
		if i, _, ok := s.v.UnstableSnap(); ok && raft.VerifMemEnts(s.ms)[0].Index < i {
			s.clean = false
		}
	case "append", "mapp":
		if !rlArgsOK(es, start) {
			s.clean = false
		}
	}
}

// well-formed entries argument: indexes start, start+1, ... (start >= 1), terms >= 1
func rlArgsOK(es []pb.Entry, start uint64) bool {
	for k, e := range es {
		if e.Index != start+uint64(k) || e.Term == 0 || e.Index == 0 {
			return false
		}
	}
	return true
}

// ---------------------------------------------------------------------------------------------
// oracle: the property clauses stated on the real code, independent of the model

type rlSnap struct {
	committed uint64
	fi, li    uint64
	terms     map[uint64]uint64
	ids       map[uint64]uint64
	full      bool // every index fi..li was read
}

// the whole visible log fi..li as (term, id) per index
func (s *rlSess) snapForOracle() (o rlSnap) {
	defer func() { recover() }()
	o.committed, o.fi, o.li = s.v.Committed(), s.v.FirstIndex(), s.v.LastIndex()
	o.terms, o.ids = map[uint64]uint64{}, map[uint64]uint64{}
	if o.li >= o.fi && o.li-o.fi < 300 {
		es, err := s.v.Slice(o.fi, o.li+1, ^uint64(0))
		if err == nil {
			for _, e := range es {
				o.terms[e.Index], o.ids[e.Index] = e.Term, e.ID
			}
			o.full = uint64(len(es)) == o.li+1-o.fi
		}
	} else if o.li+1 == o.fi {
		o.full = true
	}
	return o
}

// a successful maybeAppend with well-formed arguments never changes an entry at or below the old
// committed index, never lowers committed, and leaves every new entry in the log
func (s *rlSess) oracleMaybeAppend(before rlSnap, prev uint64, es []pb.Entry, res string) {
	if !strings.HasPrefix(res, "ok") || !s.wfOK {
		return
	}
	if !rlArgsOK(es, prev+1) {
		return // ill-formed arguments: nothing is promised
	}
	after := s.snapForOracle()
	if !before.full || !after.full {
		return
	}
	for _, e := range es {
		if t, ok := before.terms[e.Index]; ok && t != e.Term {
			s.c.Note("mapp:ok-truncated-conflicting-tail")
			break
		}
	}
	if len(es) > 0 && es[len(es)-1].Index <= before.li {
		s.c.Note("mapp:ok-all-or-prefix-present")
	}
	if after.committed < before.committed {
		s.c.Violation("raftlog-commit-decreased", fmt.Sprintf("maybeAppend: %d -> %d", before.committed, after.committed))
	}
	// the commit index moves at most to the last index this very message vouched for
	if lastnew := prev + uint64(len(es)); after.committed > before.committed && after.committed > lastnew {
		s.c.Violation("raftlog-commit-beyond-lastnewi", fmt.Sprintf("maybeAppend(prev %d, %d entries): committed %d -> %d", prev, len(es), before.committed, after.committed))
	}
	for i := before.fi; i <= before.committed && i <= before.li; i++ {
		if t, ok := before.terms[i]; ok {
			if after.terms[i] != t || after.ids[i] != before.ids[i] {
				if i >= after.fi {
					s.c.Violation("raftlog-committed-replaced", fmt.Sprintf("index %d (committed %d): term %d id %d -> term %d id %d",
						i, before.committed, t, before.ids[i], after.terms[i], after.ids[i]))
				}
			}
		}
	}
	for _, e := range es {
		if e.Index >= after.fi {
			if t, ok := after.terms[e.Index]; !ok || t != e.Term {
				s.c.Violation("raftlog-append-lost", fmt.Sprintf("entry %d term %d not in the log after maybeAppend (term there: %d)", e.Index, e.Term, t))
			}
		}
	}
}

func (s *rlSess) oracleAfterWrite(op string) {
	if s.wfOK && s.v.Committed() > s.v.LastIndex() {
		s.c.Violation("raftlog-committed-beyond-last", fmt.Sprintf("%s: committed %d lastIndex %d", op, s.v.Committed(), s.v.LastIndex()))
	}
}

// nextEnts hands out exactly max(applied+1, firstIndex) .. in order without gaps, nothing above committed
func (s *rlSess) oracleNextEnts(es []pb.Entry) {
	if len(es) == 0 || !s.wfOK {
		return
	}
	off := s.v.Applied() + 1
	if fi := s.v.FirstIndex(); fi > off {
		off = fi
	}
	for k, e := range es {
		if e.Index != off+uint64(k) {
			s.c.Violation("raftlog-next-gap", fmt.Sprintf("nextEnts[%d].Index = %d, expected %d", k, e.Index, off+uint64(k)))
			return
		}
	}
	if last := es[len(es)-1].Index; last > s.v.Committed() {
		s.c.Violation("raftlog-next-uncommitted", fmt.Sprintf("nextEnts hands out %d > committed %d", last, s.v.Committed()))
	}
}

func (s *rlSess) oracleSlice(es []pb.Entry, lo, hi uint64) {
	if !s.wfOK {
		return
	}
	for k, e := range es {
		if e.Index != lo+uint64(k) || e.Index >= hi {
			s.c.Violation("raftlog-slice-order", fmt.Sprintf("slice(%d,%d)[%d].Index = %d", lo, hi, k, e.Index))
			return
		}
	}
}

// the node driver hands out strictly increasing, gap-free indexes (a snapshot may replace a prefix)
func (s *rlSess) oracleReady(rd raft.Ready) {
	if !s.clean {
		return
	}
	if !raft.IsEmptySnap(rd.Snapshot) {
		i := rd.Snapshot.Metadata.Index
		if i <= s.handed {
			s.c.Violation("raftlog-handout-snapshot-back", fmt.Sprintf("snapshot %d handed out after index %d", i, s.handed))
		}
		s.handed = i
	}
	for _, e := range rd.CommittedEntries {
		if e.Index != s.handed+1 {
			s.c.Violation("raftlog-handout-gap", fmt.Sprintf("entry %d handed out after index %d", e.Index, s.handed))
		}
		s.handed = e.Index
	}
	if n := len(rd.CommittedEntries); n > 0 && rd.CommittedEntries[n-1].Index > s.v.Committed() {
		s.c.Violation("raftlog-handout-uncommitted", fmt.Sprintf("entry %d handed out, committed %d", rd.CommittedEntries[n-1].Index, s.v.Committed()))
	}
}

// well-formedness of the real state (the Go twin of `WfLog` in lean/ZanVerif/Props/C02Log.lean): index
// fields agree with positions, the storage covers everything below unstable.offset down to firstIndex,
// applied <= committed <= lastIndex, firstIndex-1 <= committed
func (s *rlSess) wf() bool {
	es := raft.VerifMemEnts(s.ms)
	for k, e := range es {
		if e.Index != es[0].Index+uint64(k) {
			return false
		}
	}
	off := s.v.UnstableOffset()
	for k, e := range s.v.UnstableRaw() {
		if e.Index != off+uint64(k) {
			return false
		}
	}
	sLast := es[0].Index + uint64(len(es)) - 1
	nun := len(s.v.UnstableRaw())
	if si, _, ok := s.v.UnstableSnap(); ok {
		if off < si+1 {
			return false
		}
		if off > si+1 && !(es[0].Index <= si && off <= sLast+1) {
			return false
		}
		if nun == 0 && off != si+1 {
			return false
		}
	} else if !(es[0].Index+1 <= off && off <= sLast+1) || (nun == 0 && off != sLast+1) {
		return false
	}
	fi, li := s.v.FirstIndex(), s.v.LastIndex()
	return s.v.Applied() <= s.v.Committed() && s.v.Committed() <= li && fi <= s.v.Committed()+1
}

// ---------------------------------------------------------------------------------------------
// RocksStorage (index bookkeeping) on the mem engine

func (s *rlSess) rocks() *raft.RocksStorage {
	if s.rs == nil {
		dir, _ := ioutil.TempDir("", "zvh-raftlog-rs")
		cfg := engine.NewRockConfig()
		cfg.DataDir = dir
		cfg.EngineType = "mem"
		cfg.DisableMergeCounter = true
		cfg.EnableTableCounter = false
		eng, err := engine.NewKVEng(cfg)
		if err != nil {
			panic(err)
		}
		if err := eng.OpenEng(); err != nil {
			panic(err)
		}
		os.RemoveAll(dir) // the mem engine keeps nothing there
		s.rs = raft.NewRocksStorage(1, 7, false, eng)
	}
	return s.rs
}

func (s *rlSess) ridx(raw raft.VerifRocksRaw, e string) uint64 {
	if len(e) < 3 {
		return 0
	}
	var b uint64
	switch e[0] {
	case 'f':
		if raw.SnapIndex != 0 {
			b = raw.SnapIndex + 1
		} else if len(raw.Ents) > 0 {
			b = raw.Ents[0].Index + 1
		}
	case 'l':
		if len(raw.Ents) > 0 {
			b = raw.Ents[len(raw.Ents)-1].Index
		}
	case 'n':
		b = raw.SnapIndex
	}
	k, _ := strconv.ParseUint(e[2:], 10, 64)
	if e[1] == '-' {
		if k > b {
			return 0
		}
		return b - k
	}
	return b + k
}

func rterm(raw raft.VerifRocksRaw, e string, at uint64) uint64 {
	if strings.HasPrefix(e, "=") {
		var t uint64
		for _, x := range raw.Ents {
			if x.Index == at {
				t = x.Term
			}
		}
		if len(e) > 2 {
			k, _ := strconv.ParseUint(e[2:], 10, 64)
			t += k
		}
		return t
	}
	n, _ := strconv.ParseUint(e, 10, 64)
	return n
}

func (s *rlSess) rents(raw raft.VerifRocksRaw, spec string, start uint64) []pb.Entry {
	if spec == "-" || spec == "" {
		return nil
	}
	var out []pb.Entry
	for k, e := range strings.Split(spec, ",") {
		idx := start + uint64(k)
		if at := strings.IndexByte(e, '@'); at >= 0 {
			idx, _ = strconv.ParseUint(e[at+1:], 10, 64)
			e = e[:at]
		}
		f := strings.Split(e, "/")
		if len(f) != 3 {
			continue
		}
		d, _ := strconv.ParseUint(f[1], 10, 64)
		dl, _ := strconv.Atoi(f[2])
		en := pb.Entry{Index: idx, Term: rterm(raw, f[0], idx), ID: d}
		if dl > 0 {
			en.Data = make([]byte, dl)
		}
		out = append(out, en)
	}
	return out
}

func rsErr(err error) string {
	if raft.VerifIsNotFound(err) {
		return "err:notfound"
	}
	if err != nil && strings.Contains(err.Error(), "compact is out of bound") {
		return "err:compactoob"
	}
	return rlErr(err)
}

func (s *rlSess) rocksOp(f []string) string {
	rs := s.rocks()
	arg := func(i int) string {
		if i < len(f) {
			return f[i]
		}
		return "z+0"
	}
	raw := raft.VerifRocksDump(rs)
	var head, res string
	run := func(g func() string) string {
		defer func() {
			if r := recover(); r != nil {
				res = "panic:" + rlPanicClass(r)
			}
		}()
		return g()
	}
	switch f[0] {
	case "rs.reset":
		raft.VerifRocksReset(rs)
		s.rsDirty = false
		head, res = "rs.reset", "ok"
	case "rs.append":
		st := s.ridx(raw, arg(1))
		es := s.rents(raw, arg(2), st)
		if !rlArgsOK(es, st) {
			s.rsDirty = true
		}
		head = "rs.append " + rlEnts(es)
		res = run(func() string {
			if err := rs.Append(es); err != nil {
				return rsErr(err)
			}
			return "ok"
		})
	case "rs.compact":
		i := s.ridx(raw, arg(1))
		head = fmt.Sprintf("rs.compact %d", i)
		res = run(func() string {
			if err := rs.Compact(i); err != nil {
				return rsErr(err)
			}
			return "ok"
		})
	case "rs.snap":
		i := s.ridx(raw, arg(1))
		head = fmt.Sprintf("rs.snap %d", i)
		res = run(func() string {
			sn, err := rs.CreateSnapshot(i, nil, nil)
			if err != nil {
				return rsErr(err)
			}
			return fmt.Sprintf("ok %d.%d", sn.Metadata.Index, sn.Metadata.Term)
		})
	case "rs.apply":
		i := s.ridx(raw, arg(1))
		t := rterm(raw, arg(2), i)
		head = fmt.Sprintf("rs.apply %d %d", i, t)
		res = run(func() string {
			if err := rs.ApplySnapshot(pb.Snapshot{Metadata: pb.SnapshotMetadata{Index: i, Term: t}}); err != nil {
				return rsErr(err)
			}
			// oracle: a storage that applied a snapshot holds nothing above it (MemoryStorage.ApplySnapshot drops
			// everything; raft.restore replaces the log by the snapshot)
			for _, e := range raft.VerifRocksDump(rs).Ents {
				if e.Index > i && !s.rsDirty {
					s.c.Violation("rocks-stale-above-snapshot", fmt.Sprintf("RocksStorage.ApplySnapshot(%d, term %d) keeps entry %d (term %d); LastIndex() reports it", i, t, e.Index, e.Term))
					break
				}
			}
			return "ok"
		})
	case "rs.first":
		head = "rs.first"
		res = run(func() string {
			i, err := rs.FirstIndex()
			if err != nil {
				return rsErr(err)
			}
			return fmt.Sprint(i)
		})
	case "rs.last":
		head = "rs.last"
		res = run(func() string {
			i, err := rs.LastIndex()
			if err != nil {
				return rsErr(err)
			}
			return fmt.Sprint(i)
		})
	case "rs.term":
		i := s.ridx(raw, arg(1))
		head = fmt.Sprintf("rs.term %d", i)
		res = run(func() string {
			t, err := rs.Term(i)
			if err != nil {
				return rsErr(err)
			}
			return fmt.Sprint(t)
		})
	case "rs.entries":
		lo, hi, m := s.ridx(raw, arg(1)), s.ridx(raw, arg(2)), rlSize(arg(3))
		head = fmt.Sprintf("rs.entries %d %d %s", lo, hi, rlSizeStr(m))
		res = run(func() string {
			es, err := rs.Entries(lo, hi, m)
			if err != nil {
				return rsErr(err)
			}
			return rlEnts(es)
		})
	}
	if strings.HasPrefix(res, "err:") {
		s.c.Note(f[0] + ":" + res)
	}
	after := raft.VerifRocksDump(rs)
	// oracle (C03 `rocks_cached_index_inv`): a non-zero cache equals the true first / last index
	if n := len(after.Ents); n > 0 && !s.rsDirty {
		if after.CFirst != 0 && after.CFirst != after.Ents[0].Index+1 {
			s.c.Violation("rocks-cached-first-wrong", fmt.Sprintf("%s: cached first index %d, first entry in the DB %d", head, after.CFirst, after.Ents[0].Index))
		}
		if after.CLast != 0 && after.CLast != after.Ents[n-1].Index {
			s.c.Violation("rocks-cached-last-wrong", fmt.Sprintf("%s: cached last index %d, last entry in the DB %d", head, after.CLast, after.Ents[n-1].Index))
		}
	}
	return fmt.Sprintf("%s => %s | rs: sn=%d.%d cf=%d cl=%d db=%s", head, res, after.SnapIndex, after.SnapTerm, after.CFirst, after.CLast, rlEnts(after.Ents))
}
