package main

import (
	"context"
	"fmt"
	"io"
	"io/ioutil"
	"math/rand"
	"os"
	"sort"
	"strconv"
	"strings"
	"time"

	"github.com/youzan/ZanRedisDB/common"
	"github.com/youzan/ZanRedisDB/node"
	"github.com/youzan/ZanRedisDB/raft"
	"github.com/youzan/ZanRedisDB/raft/raftpb"
	"github.com/youzan/ZanRedisDB/rockredis"
	"github.com/youzan/ZanRedisDB/stats"
	"github.com/youzan/ZanRedisDB/transport/rafthttp"
	zanredisdb "github.com/youzan/go-zanredisdb"
)

// Protocol nsreg (C15): the data node's namespace registry node.NamespaceMgr — which partition count routing uses when
// a namespace is deleted and created again with another partition count.
//
// The real side is a live NamespaceMgr (as node/*_test.go and the server build it: rafthttp transport, machine config,
// nsMgr.Start()) whose partitions are real single-replica raft groups on pebble, created with InitNamespaceNode and
// really started with Start(false) (so that they are IsReady for routing), removed with NamespaceNode.Destroy (the
// stopped callback of onNamespaceStopped unregisters them). The Lean side is the executable registry model
// Z.Reg (Route/Registry.lean) for which Props/C15Registry.lean proves what the property prescribes.
//
//	open                       → ok                       a new NamespaceMgr on an empty data dir (closes the previous one)
//	init <base> <part> <pnum>  → ok | err:conf | err:exists | err:other:<msg>
//	destroy <base> <part>      → ok | err:absent | err:stuck   Destroy + wait until the full name left GetNamespaces()
//	route <base> <hexpk>       → p=<full name> | err:ns-not-found | err:partition-not-found | err:not-ready
//	meta <base>                → n=<nsMetas[base].PartitionNum> | none
//	parts                      → parts=<full>:<pnum>,…  (sorted) | parts=-
//
// Oracle (Go, independent of the model; its own bookkeeping of which partitions it created with which count):
//
//	route-stale-partition-count  no partition of an older generation is registered for the base (every registered
//	    partition was created with the count N of the most recent successful init): a routed key must be answered by
//	    partition zanredisdb.GetHashedPartitionID(pk, N) — the SDK's formula — when that partition is registered and by
//	    partition-not-found when it is not (partial registrations); in particular after a re-create has completed
//	    (all of 0..N-1 registered) every key is served by the partition the client computes with the NEW count
//	meta-stale-partition-count   in the same states nsMetas[base].PartitionNum must be N
//	route-foreign-partition      the answering full name is not a registered partition of that base name
//	route-without-partitions / meta-without-partitions   no partition of the base is registered (sessions that only
//	    use base names the placement driver accepts, i.e. without '-'): namespace-not-found, no meta
//	registry-differs             kvNodes is not what the harness created and has not destroyed
//	route-paths-disagree         GetNamespaceNodeWithPrimaryKey vs …WithPrimaryKeySum(HashedKey(pk))
func init() {
	register(&Proto{Name: "nsreg", Gen: genNsReg, New: newNsReg})
}

// ---------------------------------------------------------------------------------------------------------------
// generator

var nsrValidBases = []string{"a", "ns", "default", "t_1", "X9"}
var nsrDashBases = []string{"a-1", "ns-2-x", "b-0", "x-y"}

type nsrGen struct {
	rng  *rand.Rand
	base string
	reg  map[int]int // part -> count it was created with (what the generator believes is registered)
	out  [][]string  // steps
	keyN int
}

func (g *nsrGen) key() string {
	switch g.rng.Intn(3) {
	case 0:
		return hexs(randKey(g.rng))
	default:
		g.keyN++
		return hexs([]byte("tb:key" + strconv.Itoa(g.rng.Intn(400)+g.keyN)))
	}
}

func (g *nsrGen) routes(k int) []string {
	var l []string
	for i := 0; i < k; i++ {
		l = append(l, "route "+g.base+" "+g.key())
	}
	return l
}

func (g *nsrGen) look() []string {
	l := g.routes(2 + g.rng.Intn(4))
	if g.rng.Intn(2) == 0 {
		l = append(l, "meta "+g.base)
	}
	if g.rng.Intn(4) == 0 {
		l = append(l, "parts")
	}
	return l
}

func (g *nsrGen) step(lines ...string) { g.out = append(g.out, lines) }

func (g *nsrGen) doInit(part, pnum int) {
	g.step(append([]string{fmt.Sprintf("init %s %d %d", g.base, part, pnum)}, g.look()...)...)
	if _, ok := g.reg[part]; !ok && pnum > 0 {
		g.reg[part] = pnum
	}
}

func (g *nsrGen) doDestroy(part int) {
	g.step(append([]string{fmt.Sprintf("destroy %s %d", g.base, part)}, g.look()...)...)
	delete(g.reg, part)
}

func (g *nsrGen) parts() []int {
	var l []int
	for p := range g.reg {
		l = append(l, p)
	}
	sort.Ints(l)
	g.rng.Shuffle(len(l), func(i, j int) { l[i], l[j] = l[j], l[i] })
	return l
}

// create the partitions `which` of an N-partition namespace in random order
func (g *nsrGen) create(n int, which []int) {
	g.rng.Shuffle(len(which), func(i, j int) { which[i], which[j] = which[j], which[i] })
	for _, p := range which {
		g.doInit(p, n)
	}
	g.step(g.routes(6 + g.rng.Intn(6))...)
}

func (g *nsrGen) teardown() {
	for _, p := range g.parts() {
		g.doDestroy(p)
	}
	g.step(append(g.routes(2), "meta "+g.base)...)
}

func seq(n int) []int {
	l := make([]int, n)
	for i := range l {
		l[i] = i
	}
	return l
}

func (g *nsrGen) subset(n int) []int {
	var l []int
	for i := 0; i < n; i++ {
		if g.rng.Intn(2) == 0 {
			l = append(l, i)
		}
	}
	if len(l) == 0 {
		l = append(l, g.rng.Intn(n))
	}
	return l
}

// re-create with m partitions, replacing the registered partitions one after another in a random order: a new
// partition j can be created as soon as no old partition j is registered; `want` = the new partitions this node gets
func (g *nsrGen) recreateOneByOne(m int, want []int) {
	old := map[int]bool{}
	for p := range g.reg {
		old[p] = true
	}
	todo := map[int]bool{}
	for _, j := range want {
		todo[j] = true
	}
	first := true
	for len(old) > 0 || len(todo) > 0 {
		var elig []int
		for j := range todo {
			if !old[j] {
				elig = append(elig, j)
			}
		}
		sort.Ints(elig)
		var olds []int
		for p := range old {
			olds = append(olds, p)
		}
		sort.Ints(olds)
		// an old partition should still be registered when the first new one is created
		createNow := len(elig) > 0 && (len(olds) == 0 || g.rng.Intn(3) != 0 || (first && len(olds) == 1))
		if createNow {
			j := elig[g.rng.Intn(len(elig))]
			g.doInit(j, m)
			delete(todo, j)
			first = false
		} else {
			p := olds[g.rng.Intn(len(olds))]
			if first && len(olds) > 1 && len(todo) > 0 {
				// prefer freeing an index the new generation needs
				var need []int
				for _, q := range olds {
					if todo[q] {
						need = append(need, q)
					}
				}
				if len(need) > 0 {
					p = need[g.rng.Intn(len(need))]
				}
			}
			g.doDestroy(p)
			delete(old, p)
		}
	}
	g.step(append(g.routes(8+g.rng.Intn(8)), "meta "+g.base, "parts")...)
}

// a partition of another generation comes and goes while the old partitions stay
func (g *nsrGen) aborted(m int) {
	var made []int
	k := 1 + g.rng.Intn(2)
	for i := 0; i < k; i++ {
		j := g.rng.Intn(m)
		if _, ok := g.reg[j]; ok {
			if g.rng.Intn(2) == 0 {
				continue
			}
			g.doDestroy(j)
		}
		g.doInit(j, m)
		made = append(made, j)
	}
	for _, j := range made {
		if g.reg[j] == m {
			g.doDestroy(j)
		}
	}
	g.step(append(g.routes(6+g.rng.Intn(6)), "meta "+g.base)...)
}

func (g *nsrGen) errors() {
	p := g.rng.Intn(4)
	cur := 0
	for _, c := range g.reg {
		cur = c
	}
	var l []string
	switch g.rng.Intn(4) {
	case 0:
		l = append(l, fmt.Sprintf("init %s %d 0", g.base, p))
	case 1:
		l = append(l, fmt.Sprintf("init %s %d %d", g.base, p, -1-g.rng.Intn(3)))
	case 2: // a registered full name again, with another count: must be refused and must not touch the meta
		ps := g.parts()
		if len(ps) > 0 {
			p = ps[0]
		}
		l = append(l, fmt.Sprintf("init %s %d %d", g.base, p, cur+1+g.rng.Intn(3)))
		if _, ok := g.reg[p]; !ok {
			g.reg[p] = cur + 1 // (it was free after all: the line above created it)
			l = append(l, fmt.Sprintf("destroy %s %d", g.base, p))
			delete(g.reg, p)
		}
	case 3:
		q := 20 + g.rng.Intn(5)
		l = append(l, fmt.Sprintf("destroy %s %d", g.base, q))
	}
	g.step(append(l, g.look()...)...)
}

func pickCount(rng *rand.Rand, tier string, not int) int {
	pool := []int{1, 2, 2, 3, 3, 4, 4, 5, 6, 7, 8}
	if tier == "thorough" {
		pool = append(pool, 9, 10, 12, 16)
	}
	for {
		n := pool[rng.Intn(len(pool))]
		if n != not {
			return n
		}
	}
}

// the script of one base name: a first generation, then 1-3 transitions
func nsrScript(rng *rand.Rand, tier string, base string) [][]string {
	g := &nsrGen{rng: rng, base: base, reg: map[int]int{}}
	n := pickCount(rng, tier, 0)
	g.step(g.routes(1)...) // nothing registered yet
	if rng.Intn(4) == 0 {
		g.create(n, g.subset(n)) // partial registration: only some partitions are local, as on a multi-node cluster
	} else {
		g.create(n, seq(n))
	}
	trans := 1 + rng.Intn(3)
	for t := 0; t < trans; t++ {
		m := pickCount(rng, tier, n)
		switch k := rng.Intn(10); {
		case k < 4: // re-create, partitions replaced one after another
			want := seq(m)
			if rng.Intn(4) == 0 {
				want = g.subset(m)
			}
			g.recreateOneByOne(m, want)
			n = m
		case k < 6: // re-create after everything is gone
			g.teardown()
			g.create(m, seq(m))
			n = m
		case k == 6: // re-create with 1 / from 1
			g.recreateOneByOne(1, []int{0})
			n = 1
		case k == 7:
			g.aborted(m)
			if rng.Intn(2) == 0 { // and then re-create for real
				g.recreateOneByOne(m, seq(m))
				n = m
			}
		case k == 8:
			g.errors()
		default: // same count again (a plain restart of the partitions)
			for _, p := range g.parts() {
				if rng.Intn(2) == 0 {
					g.doDestroy(p)
					g.doInit(p, n)
				}
			}
		}
		if rng.Intn(3) == 0 {
			g.errors()
		}
	}
	if rng.Intn(3) == 0 {
		g.teardown()
	}
	return g.out
}

func genNsReg(rng *rand.Rand, tier string, emit func(string)) {
	sessions := 14
	if tier == "thorough" {
		sessions = 150
	}
	for s := 0; s < sessions; s++ {
		emit("open")
		nb := 2 + rng.Intn(2)
		var bases []string
		valid := append([]string{}, nsrValidBases...)
		dash := append([]string{}, nsrDashBases...)
		if tier == "thorough" && rng.Intn(4) == 0 {
			dash = append(dash, "a-") // "a--0" parses to base "a": interferes with base "a"
		}
		rng.Shuffle(len(valid), func(i, j int) { valid[i], valid[j] = valid[j], valid[i] })
		rng.Shuffle(len(dash), func(i, j int) { dash[i], dash[j] = dash[j], dash[i] })
		withDash := s%2 == 1 // every other session has base names containing '-'
		for i := 0; i < nb; i++ {
			if withDash && (i == 0 || rng.Intn(2) == 0) {
				bases = append(bases, dash[i])
			} else {
				bases = append(bases, valid[i])
			}
		}
		if withDash && rng.Intn(3) == 0 {
			bases = append(bases[:1], "a", "a-1")[:nb] // base "a" partition 1 is "a-1"; base "a-1" partition 0 is "a-1-0"
		}
		var scripts [][][]string
		for _, b := range bases {
			scripts = append(scripts, nsrScript(rng, tier, b))
		}
		// interleave the scripts of the base names step by step
		for {
			var live []int
			for i, sc := range scripts {
				if len(sc) > 0 {
					live = append(live, i)
				}
			}
			if len(live) == 0 {
				break
			}
			i := live[rng.Intn(len(live))]
			for _, l := range scripts[i][0] {
				emit(l)
			}
			scripts[i] = scripts[i][1:]
		}
		emit("parts")
	}
}

// ---------------------------------------------------------------------------------------------------------------
// executor

type nsrFakeRaft struct{}

func (nsrFakeRaft) SaveDBFrom(r io.Reader, m raftpb.Message) (int64, error)  { return 0, nil }
func (nsrFakeRaft) Process(ctx context.Context, m raftpb.Message) error      { return nil }
func (nsrFakeRaft) IsPeerRemoved(id uint64) bool                             { return false }
func (nsrFakeRaft) ReportUnreachable(id uint64, group raftpb.Group)          {}
func (nsrFakeRaft) ReportSnapshot(uint64, raftpb.Group, raft.SnapshotStatus) {}

type nsrPart struct {
	base       string
	part, pnum int
}

type nsrSess struct {
	dir      string
	tr       *rafthttp.Transport
	mgr      *node.NamespaceMgr
	raftAddr string
	gid      uint64
	// the oracle's own bookkeeping
	parts    map[string]nsrPart // by full name
	cur      map[string]int     // base -> count of the most recent successful init
	gens     map[string]int     // base -> how often that count changed
	dashSeen bool
}

func nsrFull(base string, part int) string { return base + "-" + strconv.Itoa(part) }

func nsrOpen() (*nsrSess, error) {
	quietLogs()
	dir, err := ioutil.TempDir("", "zvh-nsreg-")
	if err != nil {
		return nil, err
	}
	s := &nsrSess{dir: dir, parts: map[string]nsrPart{}, cur: map[string]int{}, gens: map[string]int{}, gid: 1000}
	s.raftAddr = "http://127.0.0.1:" + strconv.Itoa(12000+os.Getpid()%15000)
	mconf := &node.MachineConfig{BroadcastAddr: "127.0.0.1", LocalRaftAddr: s.raftAddr, DataRootDir: dir, TickMs: 100, ElectionTick: 5}
	mconf.RocksDBOpts.EngineType = "pebble"
	if e := os.Getenv("NSREG_ENGINE"); e != "" {
		mconf.RocksDBOpts.EngineType = e
	}
	ts := &stats.TransportStats{}
	ts.Initialize()
	s.tr = &rafthttp.Transport{DialTimeout: time.Second * 5, ClusterID: "verif-nsreg", Raft: nsrFakeRaft{}, Snapshotter: nsrFakeRaft{},
		TrStats: ts, PeersStats: stats.NewPeersStats()}
	s.tr.Start()
	s.mgr = node.NewNamespaceMgr(s.tr, mconf)
	s.mgr.Start()
	return s, nil
}

func (s *nsrSess) close() {
	done := make(chan struct{})
	go func() {
		defer func() { recover(); close(done) }()
		s.mgr.VerifStopFast()
		s.tr.Stop()
	}()
	select {
	case <-done:
	case <-time.After(20 * time.Second):
	}
	os.RemoveAll(s.dir)
}

func (s *nsrSess) mine(base string) []nsrPart {
	var l []nsrPart
	for _, p := range s.parts {
		if p.base == base {
			l = append(l, p)
		}
	}
	return l
}

func (s *nsrSess) describe(base string) string {
	var l []string
	for f, p := range s.parts {
		if p.base == base {
			l = append(l, fmt.Sprintf("%s(created with %d)", f, p.pnum))
		}
	}
	sort.Strings(l)
	return fmt.Sprintf("registered=[%s] last successful init of %q had count %d", strings.Join(l, " "), base, s.cur[base])
}

func (s *nsrSess) init(c *Ctx, base string, part, pnum int) string {
	conf := node.NewNSConfig()
	conf.Name = common.GetNsDesp(base, part)
	conf.BaseName = base
	conf.EngType = rockredis.EngType
	conf.PartitionNum = pnum
	conf.Replicator = 1
	s.gid++
	conf.RaftGroupConf.GroupID = s.gid
	conf.RaftGroupConf.SeedNodes = []node.ReplicaInfo{{NodeID: 1, ReplicaID: 1, RaftAddr: s.raftAddr}}
	n, err := s.mgr.InitNamespaceNode(conf, 1, false)
	if err != nil {
		switch {
		case err == node.ErrNamespaceAlreadyExist:
			return "err:exists"
		case err.Error() == "namespace config is invalid":
			return "err:conf"
		}
		return "err:other:" + err.Error()
	}
	if conf.Name != nsrFull(base, part) {
		c.Violation("harness", "GetNsDesp("+base+","+strconv.Itoa(part)+") = "+conf.Name)
	}
	// really start the single-replica raft group: this is what makes the partition ready for routing
	if err := n.Start(false); err != nil {
		c.Violation("harness", "start "+conf.Name+": "+err.Error())
		return "err:other:start " + err.Error()
	}
	if strings.Contains(base, "-") {
		s.dashSeen = true
	}
	s.parts[conf.Name] = nsrPart{base, part, pnum}
	if old, ok := s.cur[base]; ok && old != pnum {
		s.gens[base]++
	}
	s.cur[base] = pnum
	return "ok"
}

func (s *nsrSess) destroy(c *Ctx, base string, part int) string {
	full := nsrFull(base, part)
	n := s.mgr.GetNamespaces()[full]
	if n == nil {
		if _, ok := s.parts[full]; ok {
			c.Violation("registry-differs", "partition "+full+" was created and not destroyed, but is not in GetNamespaces()")
			delete(s.parts, full)
		}
		return "err:absent"
	}
	if err := n.Destroy(); err != nil {
		c.Violation("harness", "destroy "+full+": "+err.Error())
	}
	for i := 0; ; i++ {
		if _, ok := s.mgr.GetNamespaces()[full]; !ok {
			break
		}
		if i > 5000 {
			c.Violation("destroy-not-unregistered", full+" is still in GetNamespaces() 10 s after Destroy()")
			return "err:stuck"
		}
		time.Sleep(2 * time.Millisecond)
	}
	delete(s.parts, full)
	return "ok"
}

func (s *nsrSess) route(c *Ctx, base string, pk []byte) string {
	n, err := s.mgr.GetNamespaceNodeWithPrimaryKey(base, pk)
	n2, err2 := s.mgr.GetNamespaceNodeWithPrimaryKeySum(base, pk, node.HashedKey(pk)) // what the redis front end calls
	if n != n2 || err != err2 {
		c.Violation("route-paths-disagree", fmt.Sprintf("base=%s pk=%x", base, pk))
	}
	ans := ""
	switch {
	case err == nil:
		ans = "p=" + n.FullName()
	case err == node.ErrNamespaceNotFound:
		ans = "err:ns-not-found"
	case err == node.ErrNamespacePartitionNotFound:
		ans = "err:partition-not-found"
	case err == node.ErrRaftGroupNotReady:
		ans = "err:not-ready"
	default:
		ans = "err:other:" + err.Error()
	}
	s.judgeRoute(c, base, pk, ans)
	return ans
}

func (s *nsrSess) judgeRoute(c *Ctx, base string, pk []byte, ans string) {
	where := fmt.Sprintf("route %s pk=%x (%q) answered %s; %s", base, pk, pk, ans, s.describe(base))
	if strings.HasPrefix(ans, "p=") {
		if p, ok := s.parts[ans[2:]]; !ok || p.base != base {
			c.Violation("route-foreign-partition", where)
		}
	}
	mine := s.mine(base)
	if len(mine) == 0 {
		if !s.dashSeen && ans != "err:ns-not-found" {
			c.Violation("route-without-partitions", where)
		}
		c.Note("state:no-partition")
		return
	}
	N := s.cur[base]
	allCur, same := true, true
	for _, p := range mine {
		if p.pnum != N {
			allCur = false
		}
		if p.pnum != mine[0].pnum {
			same = false
		}
	}
	if !allCur {
		// a partition of an older generation is still registered: transitional, judged by the model comparison only
		if same {
			// every registered partition has the same count, but a partition of another generation came and went since
			c.Note("state:registered-count-differs-from-last-init")
			w := nsrFull(base, zanredisdb.GetHashedPartitionID(pk, mine[0].pnum))
			exp := "err:partition-not-found"
			if _, ok := s.parts[w]; ok {
				exp = "p=" + w
			}
			if ans != exp {
				c.Note("state:registered-count-differs-from-last-init:client-of-registered-count-would-disagree")
			}
		} else {
			c.Note("state:transitional-mixed-generations")
		}
		return
	}
	want := nsrFull(base, zanredisdb.GetHashedPartitionID(pk, N))
	exp := "err:partition-not-found"
	if _, ok := s.parts[want]; ok {
		exp = "p=" + want
	}
	if ans != exp {
		c.Violation("route-stale-partition-count", fmt.Sprintf("%s; the client sdk computes partition %s with count %d: expected %s", where, want, N, exp))
	}
	complete := len(mine) == N
	switch {
	case complete && s.gens[base] > 0:
		c.Note("state:recreate-completed")
	case complete:
		c.Note("state:first-generation-complete")
	default:
		c.Note("state:partial-registration")
	}
}

func (s *nsrSess) meta(c *Ctx, base string) string {
	n, ok := s.mgr.VerifNsMeta(base)
	ans := "none"
	if ok {
		ans = "n=" + strconv.Itoa(n)
	}
	mine := s.mine(base)
	if len(mine) == 0 {
		if ok && !s.dashSeen {
			c.Violation("meta-without-partitions", fmt.Sprintf("meta %s = %s; %s", base, ans, s.describe(base)))
		}
		return ans
	}
	allCur := true
	for _, p := range mine {
		if p.pnum != s.cur[base] {
			allCur = false
		}
	}
	if allCur && ans != "n="+strconv.Itoa(s.cur[base]) {
		c.Violation("meta-stale-partition-count", fmt.Sprintf("meta %s = %s; %s", base, ans, s.describe(base)))
	}
	return ans
}

func (s *nsrSess) partsLine(c *Ctx) string {
	reg := s.mgr.VerifRegistered()
	var l []string
	for f, n := range reg {
		l = append(l, f+":"+strconv.Itoa(n))
		if p, ok := s.parts[f]; !ok || p.pnum != n {
			c.Violation("registry-differs", fmt.Sprintf("kvNodes has %s with count %d, the harness created %+v", f, n, p))
		}
	}
	for f := range s.parts {
		if _, ok := reg[f]; !ok {
			c.Violation("registry-differs", "kvNodes lacks "+f+" which was created and not destroyed")
		}
	}
	sort.Strings(l)
	if len(l) == 0 {
		return "parts=-"
	}
	return "parts=" + strings.Join(l, ",")
}

func newNsReg(c *Ctx) func(string) string {
	var s *nsrSess
	atExit = append(atExit, func() {
		if s != nil {
			s.close()
			s = nil
		}
	})
	open := func() string {
		if s != nil {
			s.close()
			s = nil
		}
		var err error
		s, err = nsrOpen()
		if err != nil {
			c.Violation("harness", "open: "+err.Error())
			return "err:open"
		}
		return "ok"
	}
	return func(line string) string {
		f := strings.Fields(line)
		if len(f) == 0 {
			return "bad-op"
		}
		if f[0] == "open" && len(f) == 1 {
			return open()
		}
		if s == nil {
			if r := open(); r != "ok" {
				return r
			}
		}
		switch {
		case f[0] == "init" && len(f) == 4:
			part, e1 := strconv.Atoi(f[2])
			pnum, e2 := strconv.Atoi(f[3])
			if e1 != nil || e2 != nil || part < 0 {
				return "bad-op"
			}
			return s.init(c, f[1], part, pnum)
		case f[0] == "destroy" && len(f) == 3:
			part, e1 := strconv.Atoi(f[2])
			if e1 != nil || part < 0 {
				return "bad-op"
			}
			return s.destroy(c, f[1], part)
		case f[0] == "route" && len(f) == 3:
			return s.route(c, f[1], unhex(f[2]))
		case f[0] == "meta" && len(f) == 2:
			return s.meta(c, f[1])
		case f[0] == "parts" && len(f) == 1:
			return s.partsLine(c)
		}
		return "bad-op"
	}
}
