package main

// Protocol `raftcc` (C01/C02/C03 WITH membership changes): implementation-level oracle only, no Lean driver.
//
// A variant of protocol `raft` (proto_raft.go): up to 7 REAL raft.Node instances on MemoryStorage are
// single-stepped in this goroutine (one stimulus, StepNode, persist the Ready into the storage object, apply
// what it hands out, release its messages into the pool, Advance). No abstract actions are derived; the answer
// line carries the observed facts of the event and the state report. What is new:
//
// Membership. The session starts the way the real system starts a group: the initial voters 1..v with
// raft.StartNode(cfg, peers, false) (bootstrap ConfChangeAddNode entries of term 1, node/raft.go startRaft), every
// other node of the universe 1..n is a spare that is started as a JOINING node (StartNode(cfg, nil, isLearner):
// empty log, no peers) when a `cc add` / `cc addl` names it first. Conf changes are proposed with
// ProposeConfChange (Group-aware ConfChange of this fork: ReplicaID + NodeGroup) on the current leader or a given
// node. When a Ready hands out a committed EntryConfChange the harness does what node/raft.go + node/node.go do:
//
//	(W) Ready of a node that did not just become leader and that carries a conf change or a snapshot
//	    (processReady: waitApply): persist, then every entry handed out so far is applied in order - a conf change
//	    by the apply goroutine calling Node.ApplyConfChange while the raft loop takes it from ConfChangedCh() and
//	    runs HandleConfChanged - then the messages are sent, then Advance. If the node applied its own removal the
//	    raft loop never leaves the wait: the messages of that Ready are not sent, the node is destroyed.
//	(A) Ready in which the node became leader (isMeNewLeader): messages are sent BEFORE the persist, nothing is
//	    waited for; a conf change in its CommittedEntries (single-voter group: no-op + queued proposals commit at
//	    once) is handed to ApplyConfChange in the background and is consumed by a LATER StepNode
//	    (handleConfChanged, one per StepNode) - raft's applied cursor has already passed it by then.
//
// The ConfState returned by ApplyConfChange is what the application puts into its next snapshot (np.confState),
// snapshots are taken at the application's applied index (`snap`), the log is compacted `keep` entries behind it
// (SnapCatchup). A restart (`crash`, or a crash inside a Ready) rebuilds the storage the way replayWAL does
// (snapshot + entries above it + hard state) and calls RestartNode: membership = the snapshot's ConfState,
// applied = snapshot index; with adv=1 ElectionTick-1 ticks are queued at once (advanceTicksForElection). The
// first Ready is NOT consumed by the restart: ticks / campaigns can arrive while committed conf changes are still
// unapplied. Hand-out is paginated (mc = MaxCommittedSizePerReady, ms = MaxSizePerMsg, both small in many
// sessions; `step` takes the next page) and can be withheld (`pause`: StepNode(moreEntriesToApply=false), the
// apply channel of node/raft.go is full).
//
// Oracle (observed facts only; an entry = term + type + payload):
//
//	two-leaders-one-term  two different nodes are leader of one term (or a follower follows a second one)     C01
//	learner-leader        a node leads while it is a learner (its own flag, or the fold of the conf changes it applied)
//	learner-vote          a granted (pre-)vote was created by a node that was a learner at that moment
//	vote-not-durable / two-votes-one-term   as in protocol raft
//	confstate-mismatch    auxiliary invariant behind "majority counting over voters": the ConfState returned by
//	                      ApplyConfChange, the ConfState put into a snapshot and - between any two events - raft's
//	                      progress maps equal the fold of the conf change entries the node applied over what it
//	                      (re)started from / restored (add: voter, learner->voter; addl: learner unless voter; rm; upd: -)
//	applied-mismatch      hand-out not gap-free per node, or one index handed out as two different entries      C02
//	commit-mismatch       one index reported committed (durable HardState.Commit) as two different entries      C02/C03
//	committed-lost        an index reported committed in a term < T is missing / different in the log of the node
//	                      that becomes leader of term T                                                         C03
//	panic                 any panic inside package raft; the message names the innermost raft frames and what the
//	                      harness knows about the circumstances ([after a torn persist ...], [... removal of the last
//	                      voter ... while learners ... remain]) - known_findings.json matches on those tags
//
// Answer line:  e=<facts of the event, ';'-separated>  s=<state of every node, '|'-separated>
//
//	facts: rx<to><<from>:<type>.t<term>.i<index>.c<commit>.n<#entries>[.rej]  delivery;  ho<n>:<a>-<b> hand-out;
//	       cc<n>@<i>:<kind><id>><voters>/<learners> conf change applied (ConfState returned);  leader<n>@t<term>[voters];
//	       propose:<kind><id>@<n>; join<n>; restart<n>; destroyed<n>; snap<n>@<i>(cs); restore<n>@<i>(cs); snapmsg<n>@<i>(cs)
//	state: <id>:<term>:<role F|C|L>[P paused][I isolated]:c<commit>:h<handed out>:a<applied by the application>:
//	       <first>-<last>.<last term>:v<vote>:m<voters>/<learners>:d<durable term>.<vote>.<commit>   (<id>= unchanged,
//	       <id>:- not started, <id>:x destroyed)
//
// Op lines (every sequence is executable: node arguments index the list of running nodes modulo its length):
//
//	cfg n=<universe 1..7> v=<initial voters> pv= cq= et= ht= ms= mc= mi= adv=0|1 seed=
//	tick k | hup k | prop k | step k | xfer k m | tickl | tickall        (tickl: tick the current leader)
//	cc add k | cc addl k | cc rm k | cc rml | cc promote k | cc upd k  [at=<node>]
//	    add/addl: k-th node that never was a member; rm/upd: k-th member of the newest configuration applied
//	    anywhere; rml: the current leader; promote: k-th learner. Proposed on the current leader (else node at).
//	del k | dup k | drop k | delx k | delp f t y | dupp f t y | snaprep k m 0|1      as in protocol raft
//	crash k | snap k keep | pause k | resume k | iso k | isol k | heal
//	    a node argument k of tick/hup/prop/step/crash/snap/pause/resume/iso may also be l (the current leader) or f<j>
//	    (the j-th running node other than the leader)
//	delpl j y | delpt j y        newest message of kind y from the leader to f<j> / from f<j> to the leader
//	delpa k y | delpb k y        newest message of kind y from node k to every other node / to node k from every other node
//	mark <name>                  no event: the generator names the scenario it starts (coverage accounting)
//	... cr=0|a|e<j>|h|s  crash inside the Ready (as in protocol raft; s only for the new-leader Ready)
import (
	"context"
	"fmt"
	"math/rand"
	"os"
	"runtime"
	"runtime/debug"
	"sort"
	"strconv"
	"strings"
	"time"

	"github.com/youzan/ZanRedisDB/raft"
	pb "github.com/youzan/ZanRedisDB/raft/raftpb"
)

func init() {
	register(&Proto{Name: "raftcc", Gen: genRaftCC, New: newRaftCC})
}

// ---------------------------------------------------------------------------------------------
// generator

func genRaftCC(rng *rand.Rand, tier string, emit func(string)) {
	if salt, err := strconv.ParseInt(os.Getenv("ZV_RAFTCC_SALT"), 10, 62); err == nil && salt != 0 {
		// the three properties run different sessions for the same seed numbers
		rng = rand.New(rand.NewSource(rng.Int63() ^ (salt * 0x9E3779B97F4A7C1)))
	}
	sessions, maxEv := 44, 460
	if tier == "thorough" {
		sessions, maxEv = 400, 900
	}
	for s := 0; s < sessions; s++ {
		scen := rng.Intn(15)
		v := []int{3, 3, 3, 1, 2, 5}[rng.Intn(6)]
		switch scen {
		case 0:
			v = 1
		case 1:
			v = 3
		case 2:
			v = []int{5, 5, 3, 4}[rng.Intn(4)]
		case 7, 10, 13:
			v = []int{1, 1, 2, 3}[rng.Intn(4)]
		case 12:
			v = 1
		}
		n := v + 2 + rng.Intn(2)
		if n > 7 {
			n = 7
		}
		ms := []uint64{0, 40, 40, 1 << 20}[rng.Intn(4)]
		mc := []uint64{0, 30, 30, 200, 1 << 20}[rng.Intn(5)]
		if scen == 7 || scen == 10 || scen == 13 {
			ms = []uint64{0, 0, 40, 40, 120, 1 << 20}[rng.Intn(6)]
			mc = []uint64{0, 30, 30, 30, 1 << 20}[rng.Intn(5)]
		}
		if scen == 12 {
			mc = []uint64{30, 200, 1 << 20, 1 << 20}[rng.Intn(4)]
		}
		mi := []int{1, 2, 8, 8}[rng.Intn(4)]
		et := 4 + rng.Intn(5)
		pv, cq := rng.Intn(2), rng.Intn(2)
		if rng.Intn(3) == 0 {
			pv, cq = 1, 1 // the production setting
		}
		adv := 1
		if rng.Intn(4) == 0 {
			adv = 0
		}
		emit(fmt.Sprintf("cfg n=%d v=%d pv=%d cq=%d et=%d ht=1 ms=%d mc=%d mi=%d adv=%d seed=%d",
			n, v, pv, cq, et, ms, mc, mi, adv, rng.Intn(1<<30)))
		total := maxEv/2 + rng.Intn(maxEv-maxEv/2+1)
		left := total
		out := func(format string, a ...interface{}) {
			if left > 0 {
				emit(fmt.Sprintf(format, a...))
				left--
			}
		}
		members := v // the generator's guess of the group size (it cannot know what was committed)
		maybe := func(p int) bool { return rng.Intn(100) < p }
		any := func() int { return rng.Intn(1 << 8) }
		crashy := 0
		cr := func() string {
			if rng.Intn(1000) >= crashy {
				return ""
			}
			switch rng.Intn(10) {
			case 8, 9:
				return " cr=s"
			case 0, 1:
				return " cr=0"
			case 2, 3, 4:
				return " cr=a"
			case 5, 6:
				return fmt.Sprintf(" cr=e%d", 1+rng.Intn(3))
			}
			return " cr=h"
		}
		del := func(reorder int) {
			k := 0
			if rng.Intn(100) < reorder {
				k = rng.Intn(1 << 16)
			}
			out("del %d%s", k, cr())
		}
		settle := func(rounds int) {
			for r := 0; r < rounds; r++ {
				out("tickl")
				for j := 0; j < 2*members+1; j++ {
					del(4)
				}
			}
		}
		props := func(k int) {
			for i := 0; i < k; i++ {
				out("prop %d%s", any(), cr())
				if maybe(60) {
					del(5)
					del(5)
				}
			}
		}
		ccop := func(kind string) {
			if (kind == "rm" || kind == "rml") && members <= 1 {
				kind = "add" // the generator does not remove the last member it believes to exist
			}
			switch kind {
			case "add":
				members++
			case "rm", "rml":
				if members > 1 {
					members--
				}
			}
			at := ""
			if maybe(15) {
				at = fmt.Sprintf(" at=%d", any())
			}
			if kind == "rml" {
				out("cc rml%s%s", at, cr())
			} else {
				out("cc %s %d%s%s", kind, any(), at, cr())
			}
		}
		anycc := func() {
			ccop([]string{"add", "add", "addl", "rm", "rm", "rml", "promote", "promote", "upd"}[rng.Intn(9)])
		}
		snapall := func(keep int) {
			for i := 0; i < members+1; i++ {
				out("snap %d %d", i, keep)
			}
		}
		mix := func(k, reorder, wTick, wProp, wHup, wDup, wDrop, wCrash, wCC, wStep int) {
			for i := 0; i < k; i++ {
				x := rng.Intn(100)
				switch {
				case x < wTick:
					out("tick %d%s", any(), cr())
				case x < wTick+wProp:
					out("prop %d%s", any(), cr())
				case x < wTick+wProp+wHup:
					out("hup %d%s", any(), cr())
				case x < wTick+wProp+wHup+wDup:
					out("dup %d%s", rng.Intn(1<<16), cr())
				case x < wTick+wProp+wHup+wDup+wDrop:
					out("drop %d", rng.Intn(1<<16))
				case x < wTick+wProp+wHup+wDup+wDrop+wCrash:
					out("crash %d", any())
				case x < wTick+wProp+wHup+wDup+wDrop+wCrash+wCC:
					anycc()
				case x < wTick+wProp+wHup+wDup+wDrop+wCrash+wCC+wStep:
					out("step %d%s", any(), cr())
				default:
					del(reorder)
				}
			}
		}
		elect := func() {
			if maybe(70) {
				out("hup 0")
			} else {
				out("hup %d", any())
			}
			settle(1)
		}
		storm := func() { // time passes everywhere until somebody times out and wins
			for r := 0; r < 2*et+2; r++ {
				out("tickall")
				for rng.Intn(3) > 0 {
					del(30)
				}
			}
			settle(1)
		}

		fresh := false
		// ---- scenarios (each is written to be harmless from any state)
		grow := func(k int) {
			for i := 0; i < k; i++ {
				ccop("add")
				settle(2 + rng.Intn(2))
				if maybe(50) {
					props(1 + rng.Intn(3))
				}
			}
		}
		shrink := func(k int) {
			for i := 0; i < k; i++ {
				if maybe(25) {
					ccop("rml")
					settle(1)
					storm()
				} else {
					ccop("rm")
					settle(2)
				}
				if maybe(50) {
					props(1 + rng.Intn(3))
				}
			}
		}
		replace := func() {
			if maybe(50) {
				ccop("add")
				settle(2 + rng.Intn(2))
				ccop("rm")
			} else {
				ccop("rm")
				settle(2)
				ccop("add")
			}
			settle(3)
		}
		learner := func() {
			ccop("addl")
			settle(2 + rng.Intn(2))
			props(1 + rng.Intn(4))
			settle(1)
			switch rng.Intn(6) {
			case 0:
				out("hup %d", any()) // somebody (maybe the learner) is told to campaign
				settle(1)
			case 1:
				out("xfer %d %d", any(), any()) // leadership transfer (maybe to the learner)
				settle(1)
			}
			if maybe(85) {
				ccop("promote")
				settle(2)
			}
			if maybe(30) {
				storm()
			}
		}
		whileAway := func() { // change while a node is isolated / restarting; it comes back afterwards
			x := rng.Intn(members)
			out("iso %d", x)
			if maybe(40) {
				out("crash %d", x)
			}
			for i := 1 + rng.Intn(2); i > 0; i-- {
				anycc()
				settle(2)
				props(1 + rng.Intn(3))
			}
			if maybe(40) {
				for r := 0; r < 2*et; r++ { // the cut-off node times out again and again
					out("tick %d", x)
				}
			}
			out("heal")
			settle(3)
		}
		behindSnap := func() { // a node misses conf changes and gets them inside a snapshot
			x := rng.Intn(members)
			out("iso %d", x)
			props(2 + rng.Intn(4))
			for i := 1 + rng.Intn(2); i > 0; i-- {
				anycc()
				settle(2)
			}
			props(2 + rng.Intn(4))
			settle(1)
			snapall(rng.Intn(2))
			out("heal")
			if maybe(30) {
				mix(4+rng.Intn(6), 10, 30, 0, 0, 0, 20, 0, 0, 10)
				out("snaprep %d %d %d", any(), any(), rng.Intn(4)/3)
			}
			settle(4)
		}
		restartUnapplied := func() { // restart with unapplied conf changes behind ordinary entries, election timeout right after
			props(2 + rng.Intn(4))
			settle(1)
			snapall(0)
			x := rng.Intn(v)
			viaPause := maybe(20) // no restart: the apply loop of x is stuck from here on
			if viaPause {
				out("pause %d", x)
			}
			props(4 + rng.Intn(5))
			settle(1)
			if members == 1 || maybe(30) {
				// the group outgrows the snapshot's membership by two: majorities of the old and the new group need not overlap
				ccop("add")
				settle(3)
				ccop("add")
				settle(3)
			} else {
				for i := 1 + rng.Intn(2); i > 0; i-- {
					ccop([]string{"add", "add", "add", "rm", "addl"}[rng.Intn(5)])
					settle(3)
				}
			}
			props(1 + rng.Intn(3))
			settle(2)
			if maybe(75) {
				out("iso %d", x)
			}
			if !viaPause {
				out("crash %d", x)
			}
			y := x + 1 + rng.Intn(2)
			nmix := rng.Intn(8)
			if maybe(30) {
				nmix = 0 // nothing but time passing: everybody (the restarted node too) runs into its election timeout
			}
			if !viaPause && maybe(60) {
				out("hup %d", x) // told to campaign (Campaign / MsgTimeoutNow / a timeout) before anything is re-applied
			}
			for i := nmix; i > 0; i-- {
				switch r := rng.Intn(100); {
				case r < 35:
					out("hup %d", x)
				case r < 55:
					out("step %d", x)
				case r < 70:
					out("tick %d", x)
				case r < 78:
					out("hup %d", y)
				case r < 90:
					out("prop %d", x)
				default:
					del(10)
				}
			}
			if nmix == 0 || maybe(75) {
				for r := 0; r < 2*et+2; r++ {
					out("tickall")
					for rng.Intn(3) > 0 {
						del(30)
					}
				}
			}
			if viaPause {
				out("resume %d", x)
				for i := 2 + rng.Intn(4); i > 0; i-- {
					out([]string{"step %d", "step %d", "hup %d"}[rng.Intn(3)], x)
				}
			}
			if maybe(60) { // both sides of the partition are given something to commit
				out("prop %d", x)
				out("prop %d", y)
				settle(1)
			}
			out("heal")
			if maybe(60) {
				out("hup %d", y)
			}
			settle(3)
			props(1 + rng.Intn(2))
			settle(2)
		}
		pausedBehind := func() { // the apply loop of a node is stuck while conf changes commit; it is told to campaign
			x := rng.Intn(members)
			out("pause %d", x)
			props(2 + rng.Intn(3))
			for i := 1 + rng.Intn(2); i > 0; i-- {
				ccop([]string{"add", "add", "rm", "addl", "promote"}[rng.Intn(5)])
				settle(3)
			}
			props(1 + rng.Intn(3))
			settle(1)
			if maybe(50) {
				out("isol %d", any())
			}
			for i := 3 + rng.Intn(6); i > 0; i-- {
				switch r := rng.Intn(100); {
				case r < 40:
					out("hup %d", x)
				case r < 60:
					out("tick %d", x)
				case r < 75:
					out("hup %d", any())
				default:
					del(10)
				}
			}
			out("resume %d", x)
			for i := 2 + rng.Intn(5); i > 0; i-- {
				if maybe(50) {
					out("step %d", x)
				} else {
					out("hup %d", x)
				}
			}
			out("heal")
			settle(3)
		}
		asyncLeader := func() { // a conf change is queued on a node before it wins: it commits inside the new-leader Ready
			x := rng.Intn(members)
			if !fresh { // the node loses its leader: snapshot, restart, re-apply what is left
				out("snap %d 0", x)
				out("crash %d", x)
				for i := rng.Intn(4); i > 0; i-- {
					out("step %d", x)
				}
			}
			fresh = false
			for i := 1 + rng.Intn(2); i > 0; i-- {
				if maybe(70) {
					out("cc %s %d at=%d", []string{"add", "add", "addl", "upd"}[rng.Intn(4)], any(), x)
				} else {
					out("prop %d", x)
				}
			}
			out("hup %d%s", x, []string{"", "", "", " cr=a", " cr=s"}[rng.Intn(5)])
			for i := 2 + rng.Intn(6); i > 0; i-- {
				switch r := rng.Intn(100); {
				case r < 30:
					out("step %d", x)
				case r < 45:
					out("tick %d", x)
				case r < 55:
					out("prop %d", x)
				case r < 65:
					anycc()
				case r < 72:
					out("crash %d", x)
				case r < 80:
					out("snap %d %d", x, rng.Intn(2))
				default:
					del(10)
				}
			}
			members++
			settle(3)
		}
		tornConf := func() { // entries (a conf change among them) become durable without the hard state of their Ready (WAL torn tail)
			x := rng.Intn(members)
			props(1 + rng.Intn(2))
			k := 1 + rng.Intn(3)
			if maybe(35) { // on the proposer itself
				out("cc %s %d cr=e%d", []string{"add", "add", "rm", "addl"}[rng.Intn(4)], any(), k)
			} else if maybe(50) { // on a follower: the append that carries the conf change
				ccop([]string{"add", "add", "rm", "addl"}[rng.Intn(4)])
				if maybe(50) {
					ccop("add") // a second one right behind (refused while the first is pending)
				}
				out("delpl %d 5 cr=e%d", x, k)
			} else { // a follower that was away gets two conf changes in one append and loses the hard state of that Ready
				j := rng.Intn(4) // the j-th follower
				out("iso f%d", j)
				ccop("add")
				settle(3)
				ccop([]string{"add", "add", "rm", "upd"}[rng.Intn(4)])
				settle(3)
				out("heal")
				out("tickl")
				out("delpl %d 7", j)
				out("delpt %d 8", j)
				if maybe(50) { // the first append is a probe that is refused, the second one carries the entries
					out("delpl %d 5", j)
					out("delpt %d 6", j)
				}
				out("delpl %d 5 cr=e9", j)
				out("hup f%d", j) // refused if the restart left committed conf changes unapplied; they are applied in this step
				out("hup f%d", j)
				for _, y := range []int{3, 1} { // (pre-)vote requests and answers, one by one
					out("delpa f%d %d", j, y)
					out("delpb f%d %d", j, y+1)
				}
				settle(2)
				return
			}
			for i := 2 + rng.Intn(6); i > 0; i-- {
				switch r := rng.Intn(100); {
				case r < 40:
					out("hup %d", x)
				case r < 55:
					out("step %d", x)
				case r < 65:
					out("tick %d", x)
				default:
					del(20)
				}
			}
			if maybe(50) {
				storm()
			}
			settle(3)
		}
		chaos := func() {
			crashy = []int{0, 20, 60}[rng.Intn(3)]
			mix(30+rng.Intn(50), []int{10, 30, 100}[rng.Intn(3)], 12, 15, 3, 6, 3, 4, 6, 6)
			crashy = 0
			out("heal")
			settle(2)
		}

		fresh = scen == 12 // nobody has campaigned yet
		if !fresh {
			elect()
			if maybe(70) {
				props(1 + rng.Intn(3))
			}
		}
		run := func(scen int) {
			out("mark %s", []string{"grow2", "grow", "shrink", "replace", "learner", "change-while-away", "behind-snapshot", "restart-unapplied",
				"remove-leader", "chaos", "restart-unapplied", "paused-behind", "conf-change-in-new-leader-ready", "restart-unapplied", "torn-conf"}[scen])
			switch scen {
			case 0:
				grow(2)
			case 1:
				grow(1 + rng.Intn(2))
			case 2:
				shrink(1 + rng.Intn(2))
			case 3:
				replace()
			case 4:
				learner()
			case 5:
				whileAway()
			case 6:
				behindSnap()
			case 7, 10, 13:
				restartUnapplied()
			case 8:
				ccop("rml")
				settle(2)
				storm()
			case 9:
				chaos()
			case 11:
				pausedBehind()
			case 12:
				asyncLeader()
			case 14:
				tornConf()
			}
		}
		if v < 3 && scen != 0 && scen != 7 && scen != 10 && scen != 12 && scen != 13 {
			grow(3 - v) // most scenarios want a group that can lose a member
		}
		run(scen)
		for left > 0 {
			switch x := rng.Intn(22); {
			case x == 21:
				run(14)
			case x == 20:
				run(12)
			case x < 12:
				run(x)
			case x < 14:
				out("snap %d %d", any(), rng.Intn(3))
				mix(10+rng.Intn(20), 20, 12, 22, 1, 2, 1, 0, 2, 3)
			case x < 16:
				storm()
			case x < 17:
				out("xfer %d %d", any(), any())
				settle(2)
			default:
				mix(10+rng.Intn(30), 15, 10, 25, 1, 1, 1, 1, 1, 3)
			}
		}
	}
}

// ---------------------------------------------------------------------------------------------
// executor

// cmem is a membership computed by the harness itself (oracle side): the fold of conf change entries.
type cmem struct {
	v, l map[uint64]bool
}

func newCmem() cmem { return cmem{map[uint64]bool{}, map[uint64]bool{}} }

func memFromCS(cs pb.ConfState) cmem {
	m := newCmem()
	for _, id := range cs.Nodes {
		m.v[id] = true
	}
	for _, id := range cs.Learners {
		m.l[id] = true
	}
	return m
}

func (m cmem) clone() cmem {
	c := newCmem()
	for id := range m.v {
		c.v[id] = true
	}
	for id := range m.l {
		c.l[id] = true
	}
	return c
}

// apply: the membership semantics of one conf change (the specification the returned ConfState is compared with).
func (m cmem) apply(cc pb.ConfChange) {
	id := cc.ReplicaID
	switch cc.Type {
	case pb.ConfChangeAddNode: // new voter, or learner -> voter
		delete(m.l, id)
		m.v[id] = true
	case pb.ConfChangeAddLearnerNode: // new learner; a voter is never demoted
		if !m.v[id] {
			m.l[id] = true
		}
	case pb.ConfChangeRemoveNode:
		delete(m.v, id)
		delete(m.l, id)
	case pb.ConfChangeUpdateNode:
	}
}

func sortedIDs(s map[uint64]bool) []uint64 {
	var r []uint64
	for id := range s {
		r = append(r, id)
	}
	sort.Slice(r, func(i, j int) bool { return r[i] < r[j] })
	return r
}

func idsStr(ids []uint64) string {
	if len(ids) == 0 {
		return "-"
	}
	var b strings.Builder
	for i, id := range ids {
		if i > 0 {
			b.WriteByte('.')
		}
		fmt.Fprintf(&b, "%d", id)
	}
	return b.String()
}

func (m cmem) String() string { return idsStr(sortedIDs(m.v)) + "/" + idsStr(sortedIDs(m.l)) }

func csStr(cs *pb.ConfState) string {
	a := append([]uint64(nil), cs.Nodes...)
	b := append([]uint64(nil), cs.Learners...)
	sort.Slice(a, func(i, j int) bool { return a[i] < a[j] })
	sort.Slice(b, func(i, j int) bool { return b[i] < b[j] })
	return idsStr(a) + "/" + idsStr(b)
}

func cloneCS(cs pb.ConfState) pb.ConfState {
	b, err := cs.Marshal()
	if err != nil {
		panic(err)
	}
	var c pb.ConfState
	if err := c.Unmarshal(b); err != nil {
		panic(err)
	}
	return c
}

type ccnode struct {
	id         uint64
	n          raft.Node
	st         *raft.MemoryStorage
	started    bool // a Node object exists (initial member, or a spare named by a cc add / addl)
	gone       bool // applied its own removal: destroyed
	iso        bool
	paused     bool // the apply channel is full: StepNode(moreEntriesToApply = false)
	epoch      int
	handedTo   uint64       // last index handed out by raft since the last (re)start (or covered by a handed-out snapshot)
	appApplied uint64       // the application's applied index: everything up to it is processed, conf changes included
	cs         pb.ConfState // what the application would put into a snapshot at appApplied (np.confState)
	mem        cmem         // oracle: fold of the conf changes this node has applied, over what it (re)started from
	queue      []pb.Entry   // handed out, not yet processed by the application
	inflight   chan *pb.ConfState
	tornUpTo   uint64 // last index that became durable WITHOUT the hard state of its Ready (torn persist), 0 = never
	selfGone   bool   // the application processed the removal of this node
	repCommit  uint64 // highest commit index recorded for this incarnation
	last       string
}

type ccsess struct {
	c          *Ctx
	n, v       int
	pv, cq     bool
	et, ht, mi int
	ms, mc     uint64
	adv        bool
	nodes      []*ccnode
	pool       []pb.Message
	ctr        uint64
	cur        *ccnode  // node of the current event
	ev         []string // facts of the current event (answer line)
	glob       cmem     // newest configuration applied anywhere
	globIdx    uint64
	ever       map[uint64]bool // ids that were a member of some applied configuration (never re-added: replica ids are not reused)
	leaderOf   map[uint64]uint64
	votedIn    map[voteKey]voteRec
	handed     map[uint64]entKey
	commits    map[uint64]commitRec
	commitKey  map[uint64]entKey // content of the entry an index was reported committed with
	maxCommit  uint64
	leaders    int
	ccApplied  int
	flagCC     bool
	flagLeader bool
	flagChange bool
	flagCommit bool
	flagSnap   bool
	flagCrash  bool
	flagStale  bool
}

func newRaftCC(c *Ctx) func(string) string {
	var s *ccsess
	atExit = append(atExit, func() {
		if s != nil {
			s.close()
		}
	})
	return func(line string) (ans string) {
		f := strings.Fields(line)
		if len(f) == 0 {
			return "bad-op"
		}
		if f[0] == "cfg" {
			if s != nil {
				s.close()
			}
			s = nil
			ns, err := newCCSess(c, f[1:])
			if err != nil {
				return "bad-cfg " + err.Error()
			}
			s = ns
			c.Note("sessions")
			c.Note(fmt.Sprintf("cfg:v=%d", s.v))
			c.Note(fmt.Sprintf("cfg:pv=%v,cq=%v", s.pv, s.cq))
			c.Note(fmt.Sprintf("cfg:ms=%d,mc=%d", s.ms, s.mc))
			return s.answer()
		}
		if s == nil {
			return "no-session"
		}
		defer func() {
			if r := recover(); r != nil { // a node that panicked is in no defined state: the session ends here
				st := string(debug.Stack())
				if os.Getenv("ZV_DEBUG_STACK") != "" {
					fmt.Fprintf(os.Stderr, "panic at %q: %v\n%s\n", line, r, st)
				}
				ctxt := s.panicContext()
				s.close()
				s = nil
				if strings.Contains(fmt.Sprint(r), "unexpected multiple uncommitted config entry") && strings.Contains(ctxt, "[after a torn persist") {
					// OBSERVATION, not a violation of C01-C03: after a torn persist (entries durable, the commit index of the same
					// Save not) a replica holding TWO configuration changes above its durable commit index wins an election with the
					// member set of two changes ago; raft's defensive panic in becomeLeader stops it before it acts as a leader, so
					// no second leader, no diverging apply, no lost commit is ever observed — the replica crashes instead (and again
					// whenever it wins, until the real leader reaches it). Counted in the evidence, the session ends here.
					c.Note("observation:stale-config-election-after-torn-persist-stopped-by-becomeLeader-panic")
					ans = "panic-observed stale-config-election-after-torn-persist"
					return
				}
				panic(fmt.Sprintf("%v [in %s]%s", r, raftFrames(st), ctxt))
			}
		}()
		s.ev = nil
		return s.event(f)
	}
}

// raftFrames names the innermost functions of package raft on a panic's stack (the classifier of a panic finding).
func raftFrames(stack string) string {
	var fs []string
	for _, l := range strings.Split(stack, "\n") {
		const pkg = "github.com/youzan/ZanRedisDB/raft."
		if strings.HasPrefix(l, pkg) && len(fs) < 3 {
			f := strings.TrimPrefix(l, pkg)
			if i := strings.LastIndexByte(f, '('); i > 0 {
				f = f[:i]
			}
			fs = append(fs, f)
		}
	}
	if len(fs) == 0 {
		return "harness"
	}
	return strings.Join(fs, " < ")
}

// panicContext names the circumstances (known to the harness) under which the node of the current event panicked;
// known_findings.json matches on them, so that the same panic reached another way is not taken for the known one.
func (s *ccsess) panicContext() string {
	nd := s.cur
	if nd == nil || nd.st == nil {
		return ""
	}
	out := ""
	if hs, _, err := nd.st.InitialState(); err == nil && nd.tornUpTo > hs.Commit {
		out += fmt.Sprintf(" [after a torn persist: node %d holds entries up to %d above its durable commit index %d]", nd.id, nd.tornUpTo, hs.Commit)
	}
	if len(nd.queue) > 0 && nd.queue[0].Type == pb.EntryConfChange {
		var cc pb.ConfChange
		if cc.Unmarshal(nd.queue[0].Data) == nil {
			m := nd.mem.clone()
			m.apply(cc)
			if len(m.v) == 0 && len(m.l) > 0 {
				out += fmt.Sprintf(" [node %d applies the removal of the last voter %d while learners %s remain]", nd.id, cc.ReplicaID, idsStr(sortedIDs(m.l)))
			}
		}
	}
	return out
}

func ccGroup(id uint64) pb.Group {
	return pb.Group{NodeId: id, Name: "g", GroupId: 7, RaftReplicaId: id}
}

func newCCSess(c *Ctx, f []string) (*ccsess, error) {
	m := kv(f)
	geti := func(k string, def int) int {
		if v, ok := m[k]; ok {
			n, err := strconv.ParseUint(v, 10, 63)
			if err == nil {
				return int(n)
			}
		}
		return def
	}
	s := &ccsess{c: c, n: geti("n", 5), v: geti("v", 3), pv: geti("pv", 0) == 1, cq: geti("cq", 0) == 1,
		et: geti("et", 6), ht: geti("ht", 1), mi: geti("mi", 8), ms: uint64(geti("ms", 1<<20)), mc: uint64(geti("mc", 0)),
		adv: geti("adv", 1) == 1, glob: newCmem(), ever: map[uint64]bool{},
		leaderOf: map[uint64]uint64{}, votedIn: map[voteKey]voteRec{}, handed: map[uint64]entKey{}, commits: map[uint64]commitRec{},
		commitKey: map[uint64]entKey{}}
	if s.n < 1 || s.n > 7 || s.v < 1 || s.v > 5 || s.v > s.n || s.ht < 1 || s.et <= s.ht || s.et > 50 || s.mi < 1 {
		return nil, fmt.Errorf("out of range")
	}
	raft.VerifSeedRand(int64(geti("seed", 1)))
	var peers []raft.Peer
	for i := 1; i <= s.n; i++ {
		s.nodes = append(s.nodes, &ccnode{id: uint64(i), mem: newCmem()})
		if i <= s.v {
			peers = append(peers, raft.Peer{NodeID: uint64(i), ReplicaID: uint64(i), Context: []byte(fmt.Sprintf("m%d", i))})
			s.glob.v[uint64(i)] = true
			s.ever[uint64(i)] = true
		}
	}
	for i := 0; i < s.v; i++ {
		s.startFresh(s.nodes[i], peers, false)
	}
	// the raft loop of every initial member takes its first Ready (bootstrap entries) right away
	for i := 0; i < s.v; i++ {
		s.cycle(s.nodes[i], nil, "")
	}
	return s, nil
}

func (s *ccsess) close() {
	for _, nd := range s.nodes {
		if nd.started && !nd.gone {
			s.stopNode(nd)
		}
	}
}

func (s *ccsess) config(nd *ccnode) *raft.Config {
	return &raft.Config{ID: nd.id, ElectionTick: s.et, HeartbeatTick: s.ht, Storage: nd.st, MaxSizePerMsg: s.ms,
		MaxCommittedSizePerReady: s.mc, MaxInflightMsgs: s.mi, CheckQuorum: s.cq, PreVote: s.pv, Logger: quietLogger{},
		Group: ccGroup(nd.id)}
}

// startFresh: node/raft.go startRaft without a WAL: StartNode with the group's peers, or with none when joining.
func (s *ccsess) startFresh(nd *ccnode, peers []raft.Peer, learner bool) {
	nd.st = raft.NewRealMemoryStorage()
	nd.n = raft.StartNode(s.config(nd), peers, learner)
	nd.started = true
	nd.epoch = 1
	nd.mem = newCmem()
	for _, p := range peers { // StartNode adds the peers to the progress map before their entries are applied
		nd.mem.v[p.ReplicaID] = true
	}
	if learner {
		nd.mem.l[nd.id] = true
	}
}

func (s *ccsess) stopNode(nd *ccnode) {
	if nd.n != nil {
		nd.n.Stop()
	}
	if nd.inflight != nil { // ApplyConfChange returns once the node is stopped
		select {
		case <-nd.inflight:
		case <-time.After(5 * time.Second):
			s.c.Violation("harness", "ApplyConfChange did not return after Stop")
		}
		nd.inflight = nil
	}
	nd.queue = nil
}

// restart: crash + what node/raft.go does on start-up with an existing WAL: a fresh storage object gets the newest
// snapshot, the hard state and the entries above the snapshot (replayWAL), then RestartNode and (adv)
// advanceTicksForElection. The first Ready is left to the next event of the node.
func (s *ccsess) restart(nd *ccnode) {
	s.stopNode(nd)
	old := nd.st
	hs, _, _ := old.InitialState()
	snap, _ := old.Snapshot()
	nst := raft.NewRealMemoryStorage()
	if !raft.IsEmptySnap(snap) {
		cp := snap
		cp.Metadata.ConfState = cloneCS(snap.Metadata.ConfState)
		if err := nst.ApplySnapshot(cp); err != nil {
			s.c.Violation("harness-assumption", "rebuild storage: ApplySnapshot: "+err.Error())
		}
	}
	nst.SetHardState(hs)
	var keep []pb.Entry
	for _, e := range raft.VerifMemEnts(old)[1:] {
		if e.Index > snap.Metadata.Index {
			e.Data = append([]byte(nil), e.Data...)
			keep = append(keep, e)
		}
	}
	if len(keep) > 0 {
		if err := nst.Append(keep); err != nil {
			s.c.Violation("harness-assumption", "rebuild storage: Append: "+err.Error())
		}
	}
	nd.st = nst
	nd.n = raft.RestartNode(s.config(nd))
	nd.epoch++
	nd.handedTo = snap.Metadata.Index
	nd.appApplied = snap.Metadata.Index
	nd.cs = cloneCS(snap.Metadata.ConfState)
	nd.mem = memFromCS(nd.cs)
	nd.paused = false
	nd.selfGone = false
	nd.repCommit = 0
	if s.adv {
		for i := 0; i < s.et-1; i++ {
			nd.n.Tick()
		}
	}
	if v := raft.VerifState(nd.n); v.Committed > v.Applied {
		s.c.Note("restart-with-unapplied-entries")
		if ents, err := nst.Entries(v.Applied+1, v.Committed+1, ^uint64(0)); err == nil {
			for _, e := range ents {
				if e.Type == pb.EntryConfChange {
					s.c.Note("restart-with-unapplied-conf-change")
					break
				}
			}
		}
	}
	s.c.Note("crash")
	s.flagOnce(&s.flagCrash, "sessions-with-crash")
	s.fact("restart%d", nd.id)
	s.checkMembers(nd)
}

func (s *ccsess) flagOnce(flag *bool, note string) {
	if !*flag {
		*flag = true
		s.c.Note(note)
	}
}

func (s *ccsess) fact(format string, a ...interface{}) {
	if len(s.ev) < 40 {
		s.ev = append(s.ev, fmt.Sprintf(format, a...))
	}
}

func (s *ccsess) alive() []*ccnode {
	var r []*ccnode
	for _, nd := range s.nodes {
		if nd.started && !nd.gone {
			r = append(r, nd)
		}
	}
	return r
}

func (s *ccsess) byID(id uint64) *ccnode {
	if id >= 1 && int(id) <= len(s.nodes) {
		if nd := s.nodes[id-1]; nd.started && !nd.gone {
			return nd
		}
	}
	return nil
}

// leader: the running node that is leader of the highest term (nil if none).
func (s *ccsess) leader() *ccnode {
	var best *ccnode
	var bt uint64
	for _, nd := range s.alive() {
		if v := raft.VerifState(nd.n); v.State == raft.StateLeader && v.Term > bt {
			best, bt = nd, v.Term
		}
	}
	return best
}

func (s *ccsess) stateOf(nd *ccnode) string {
	if !nd.started {
		return "-"
	}
	if nd.gone {
		return "x"
	}
	v := raft.VerifState(nd.n)
	hs, _, err := nd.st.InitialState()
	if err != nil {
		s.c.Violation("harness-assumption", fmt.Sprintf("node %d: InitialState: %v", nd.id, err))
	}
	p := ""
	if nd.paused {
		p = "P"
	}
	if nd.iso {
		p += "I"
	}
	return fmt.Sprintf("%d:%c%s:c%d:h%d:a%d:%d-%d.%d:v%d:m%s/%s:d%d.%d.%d", v.Term, roleOf(v.State), p, v.Committed, nd.handedTo, nd.appApplied,
		v.FirstIndex, v.LastIndex, v.LastTerm, v.Vote, idsStr(v.Voters), idsStr(v.Learners), hs.Term, hs.Vote, hs.Commit)
}

func (s *ccsess) answer() string {
	var b strings.Builder
	b.WriteString("e=")
	if len(s.ev) == 0 {
		b.WriteString("-")
	} else {
		b.WriteString(strings.Join(s.ev, ";"))
	}
	b.WriteString(" s=")
	for i, nd := range s.nodes {
		if i > 0 {
			b.WriteByte('|')
		}
		st := s.stateOf(nd)
		if st == nd.last {
			fmt.Fprintf(&b, "%d=", nd.id)
		} else {
			fmt.Fprintf(&b, "%d:%s", nd.id, st)
			nd.last = st
		}
	}
	return b.String()
}

func (s *ccsess) event(f []string) string {
	arg := func(i int) int {
		if i < len(f) {
			if n, err := strconv.ParseUint(f[i], 10, 31); err == nil {
				return int(n)
			}
		}
		return 0
	}
	cr := ""
	at := -1
	for _, x := range f[1:] {
		if strings.HasPrefix(x, "cr=") {
			cr = x[3:]
		}
		if strings.HasPrefix(x, "at=") {
			if n, err := strconv.ParseUint(x[3:], 10, 31); err == nil {
				at = int(n)
			}
		}
	}
	al := s.alive()
	pick := func(k int) *ccnode {
		if len(al) == 0 {
			return nil
		}
		return al[k%len(al)]
	}
	// pickTok: a node argument is a position in the list of running nodes, or l = the current leader, or f<k> = the
	// k-th running node other than the current leader (without a leader: as if the first running node led)
	pickTok := func(i int) *ccnode {
		if i >= len(f) || len(al) == 0 {
			return pick(0)
		}
		t := f[i]
		if t == "l" || (len(t) > 1 && t[0] == 'f') {
			l := s.leader()
			if l == nil {
				l = al[0]
			}
			if t == "l" {
				return l
			}
			k, err := strconv.ParseUint(t[1:], 10, 31)
			var others []*ccnode
			for _, nd := range al {
				if nd != l {
					others = append(others, nd)
				}
			}
			if err != nil || len(others) == 0 {
				return l
			}
			return others[int(k)%len(others)]
		}
		return pick(arg(i))
	}
	ctx := context.Background()
	switch f[0] {
	case "tick", "hup", "prop", "step", "crash", "snap", "pause", "resume", "iso", "xfer", "snaprep", "tickl", "delpa", "delpb":
		if len(al) == 0 {
			s.c.Note("no-running-node")
			return s.answer()
		}
	}
	switch f[0] {
	case "tick":
		nd := pickTok(1)
		s.cycle(nd, func() { nd.n.Tick() }, cr)
		return s.answer()
	case "tickl":
		nd := s.leader()
		if nd == nil {
			nd = pick(arg(1))
			s.c.Note("tickl-no-leader")
		}
		s.cycle(nd, func() { nd.n.Tick() }, cr)
		return s.answer()
	case "step":
		nd := pickTok(1)
		s.cycle(nd, nil, cr)
		return s.answer()
	case "hup":
		nd := pickTok(1)
		if v := raft.VerifState(nd.n); v.Committed > v.Applied {
			s.c.Note("hup-with-unapplied-entries")
		}
		s.cycle(nd, func() { nd.n.Campaign(ctx) }, cr)
		return s.answer()
	case "prop":
		nd := pickTok(1)
		s.ctr++
		data := []byte(strconv.FormatUint(s.ctr, 10))
		s.cycle(nd, func() { nd.n.Propose(ctx, data) }, cr)
		return s.answer()
	case "xfer":
		nd, to := pick(arg(1)), pick(arg(2))
		lead := raft.VerifState(nd.n).Lead
		if lead == 0 {
			s.c.Note("xfer-no-leader")
			return s.answer()
		}
		s.c.Note("xfer")
		s.cycle(nd, func() { nd.n.TransferLeadership(ctx, lead, to.id) }, cr)
		return s.answer()
	case "cc":
		return s.confChange(f, arg(2), at, cr)
	case "snaprep":
		nd, to := pick(arg(1)), pick(arg(2))
		st := raft.SnapshotFinish
		if arg(3)%2 == 1 {
			st = raft.SnapshotFailure
		}
		s.c.Note("snaprep")
		s.cycle(nd, func() { nd.n.ReportSnapshot(to.id, ccGroup(to.id), st) }, cr)
		return s.answer()
	case "delx":
		if len(s.pool) > 0 {
			k := arg(1) % len(s.pool)
			if s.pool[k].Type == pb.MsgSnap {
				s.pool = append(s.pool[:k:k], s.pool[k+1:]...)
				s.c.Note("snapshot-lost-at-receiver")
				return s.answer()
			}
		}
		f[0] = "del"
		return s.event(f)
	case "del", "dup":
		if len(s.pool) == 0 {
			s.c.Note("deliver-empty-pool->tick")
			if nd := pick(arg(1)); nd != nil {
				s.cycle(nd, func() { nd.n.Tick() }, cr)
			}
			return s.answer()
		}
		k := arg(1) % len(s.pool)
		m := s.pool[k]
		if f[0] == "del" {
			s.pool = append(s.pool[:k:k], s.pool[k+1:]...)
		} else {
			s.c.Note("dup-delivery")
		}
		nd, from := s.byID(m.To), s.byID(m.From)
		if nd == nil {
			s.c.Note("msg-to-nobody")
			return s.answer()
		}
		if nd.iso || (from != nil && from.iso) {
			s.c.Note("lost-by-partition")
			return s.answer()
		}
		mc := cloneMsg(m)
		s.c.Note("deliver:" + m.Type.String())
		s.fact("rx%d<%d:%s.t%d.i%d.c%d.n%d%s", m.To, m.From, strings.TrimPrefix(m.Type.String(), "Msg"), m.Term, m.Index, m.Commit, len(m.Entries),
			map[bool]string{true: ".rej", false: ""}[m.Reject])
		if m.Type == pb.MsgSnap {
			s.fact("snapmsg%d@%d(%s)", nd.id, m.Snapshot.Metadata.Index, csStr(&m.Snapshot.Metadata.ConfState))
		}
		s.cycle(nd, func() { nd.n.Step(ctx, mc) }, cr)
		return s.answer()
	case "delpa", "delpb": // delpa n y: the newest message of kind y from node n to every other node, one by one; delpb: to node n
		nd := pickTok(1)
		if nd == nil {
			return s.answer()
		}
		for _, o := range s.nodes {
			if o == nd {
				continue
			}
			g := []string{"delp", strconv.Itoa(int(nd.id) - 1), strconv.Itoa(int(o.id) - 1), strconv.Itoa(arg(2))}
			if f[0] == "delpb" {
				g[1], g[2] = g[2], g[1]
			}
			ev := s.ev
			s.event(g)
			s.ev = append(ev, s.ev[len(ev):]...)
		}
		return s.answer()
	case "delpl", "delpt": // newest message of kind y from the current leader to the k-th other running node (delpt: the other way)
		l := s.leader()
		var others []*ccnode
		for _, nd := range al {
			if nd != l {
				others = append(others, nd)
			}
		}
		if l == nil || len(others) == 0 {
			s.c.Note("delpl-no-leader")
			return s.answer()
		}
		o := others[arg(1)%len(others)]
		g := []string{"delp", strconv.Itoa(int(l.id) - 1), strconv.Itoa(int(o.id) - 1), strconv.Itoa(arg(2))}
		if f[0] == "delpt" {
			g[1], g[2] = g[2], g[1]
		}
		if cr != "" {
			g = append(g, "cr="+cr)
		}
		return s.event(g)
	case "delp", "dupp":
		if len(s.nodes) == 0 {
			return s.answer()
		}
		from, to := s.nodes[arg(1)%len(s.nodes)].id, s.nodes[arg(2)%len(s.nodes)].id
		kinds := []pb.MessageType{0, pb.MsgVote, pb.MsgVoteResp, pb.MsgPreVote, pb.MsgPreVoteResp, pb.MsgApp, pb.MsgAppResp,
			pb.MsgHeartbeat, pb.MsgHeartbeatResp}
		y := arg(3) % len(kinds)
		k := -1
		for i := len(s.pool) - 1; i >= 0; i-- {
			if x := s.pool[i]; x.From == from && x.To == to && (y == 0 || x.Type == kinds[y]) {
				k = i
				break
			}
		}
		if k < 0 {
			s.c.Note("delp-none")
			return s.answer()
		}
		s.c.Note("delp-hit")
		g := []string{map[string]string{"delp": "del", "dupp": "dup"}[f[0]], strconv.Itoa(k)}
		if cr != "" {
			g = append(g, "cr="+cr)
		}
		return s.event(g)
	case "drop":
		if len(s.pool) > 0 {
			k := arg(1) % len(s.pool)
			s.pool = append(s.pool[:k:k], s.pool[k+1:]...)
			s.c.Note("drop")
		}
		return s.answer()
	case "iso":
		s.isolate(pickTok(1))
		return s.answer()
	case "isol":
		nd := s.leader()
		if nd == nil {
			nd = pick(arg(1))
		}
		if nd != nil {
			s.isolate(nd)
			s.c.Note("isolate-leader")
		}
		return s.answer()
	case "tickall":
		for _, nd := range al {
			nd := nd
			if !nd.gone {
				s.cycle(nd, func() { nd.n.Tick() }, "")
			}
		}
		return s.answer()
	case "heal":
		for _, nd := range s.nodes {
			nd.iso = false
		}
		return s.answer()
	case "mark": // no event: the generator names the scenario it starts (coverage accounting only)
		if len(f) > 1 {
			s.c.Note("scenario:" + f[1])
		}
		return s.answer()
	case "pause":
		nd := pickTok(1)
		nd.paused = true
		s.c.Note("pause")
		return s.answer()
	case "resume":
		nd := pickTok(1)
		nd.paused = false
		return s.answer()
	case "crash":
		s.restart(pickTok(1))
		return s.answer()
	case "snap":
		s.snapshot(pickTok(1), uint64(arg(2)))
		return s.answer()
	}
	return "bad-op"
}

// snapshot: node/node.go maybeTriggerSnapshot / node/raft.go beginSnapshot: CreateSnapshot at the application's applied
// index with the ConfState the application holds for that index, then compact `keep` entries behind it.
func (s *ccsess) snapshot(nd *ccnode, keep uint64) {
	i := nd.appApplied
	cur, _ := nd.st.Snapshot()
	if i <= cur.Metadata.Index {
		s.c.Note("snap-nothing-new")
		return
	}
	if li, _ := nd.st.LastIndex(); i > li {
		s.c.Violation("harness-assumption", fmt.Sprintf("node %d: applied %d beyond the stored log %d", nd.id, i, li))
		return
	}
	cs := cloneCS(nd.cs)
	if _, err := nd.st.CreateSnapshot(i, &cs, []byte("snap")); err != nil {
		s.c.Note("snap-err:" + err.Error())
		return
	}
	s.c.Note("snapshot-created")
	s.fact("snap%d@%d(%s)", nd.id, i, csStr(&cs))
	if !nd.mem.equalCS(&cs) {
		s.c.Violation("confstate-mismatch", fmt.Sprintf("node %d snapshots index %d with members %s, the applied conf changes give %s", nd.id, i, csStr(&cs), nd.mem))
	}
	if i > keep {
		if err := nd.st.Compact(i - keep); err == nil {
			s.c.Note("compaction")
		} else if err != raft.ErrCompacted {
			s.c.Note("compact-err:" + err.Error())
		}
	}
}

func (m cmem) equalCS(cs *pb.ConfState) bool {
	if len(cs.Nodes) != len(m.v) || len(cs.Learners) != len(m.l) {
		return false
	}
	for _, id := range cs.Nodes {
		if !m.v[id] {
			return false
		}
	}
	for _, id := range cs.Learners {
		if !m.l[id] {
			return false
		}
	}
	return true
}

func (s *ccsess) isolate(nd *ccnode) {
	if nd == nil {
		return
	}
	nd.iso = true
	keep := s.pool[:0:0]
	for _, m := range s.pool {
		if m.From == nd.id || m.To == nd.id {
			s.c.Note("lost-by-partition")
			continue
		}
		keep = append(keep, m)
	}
	s.pool = keep
}

// confChange: ProposeConfChange on the current leader (or node at).
func (s *ccsess) confChange(f []string, k, at int, cr string) string {
	if len(f) < 2 {
		return "bad-op"
	}
	al := s.alive()
	if len(al) == 0 {
		s.c.Note("no-running-node")
		return s.answer()
	}
	members := sortedIDs(s.glob.v)
	members = append(members, sortedIDs(s.glob.l)...)
	sort.Slice(members, func(i, j int) bool { return members[i] < members[j] })
	var target uint64
	typ := pb.ConfChangeAddNode
	switch f[1] {
	case "add", "addl":
		var cand []*ccnode
		for _, nd := range s.nodes {
			if !s.ever[nd.id] && !nd.gone {
				cand = append(cand, nd)
			}
		}
		if len(cand) == 0 {
			s.c.Note("cc-no-spare-node")
			return s.answer()
		}
		nd := cand[k%len(cand)]
		if f[1] == "addl" {
			typ = pb.ConfChangeAddLearnerNode
		}
		if !nd.started { // the joining node is started first (join flag: no peers, empty log)
			s.startFresh(nd, nil, f[1] == "addl")
			s.c.Note("join-node-started")
			s.fact("join%d", nd.id)
		}
		target = nd.id
	case "rm", "upd":
		if len(members) == 0 {
			return s.answer()
		}
		target = members[k%len(members)]
		typ = pb.ConfChangeRemoveNode
		if f[1] == "upd" {
			typ = pb.ConfChangeUpdateNode
		}
	case "rml":
		l := s.leader()
		if l == nil {
			s.c.Note("cc-rml-no-leader")
			return s.answer()
		}
		target = l.id
		typ = pb.ConfChangeRemoveNode
	case "promote":
		ls := sortedIDs(s.glob.l)
		if len(ls) == 0 {
			s.c.Note("cc-promote-no-learner")
			return s.answer()
		}
		target = ls[k%len(ls)]
	default:
		return "bad-op"
	}
	prop := s.leader()
	if prop == nil || at >= 0 {
		if at < 0 {
			at = k
		}
		al = s.alive()
		prop = al[at%len(al)]
		s.c.Note("cc-proposed-on-given-node")
	}
	s.ctr++
	cc := pb.ConfChange{ID: s.ctr, Type: typ, ReplicaID: target, NodeGroup: ccGroup(target), Context: []byte(fmt.Sprintf("m%d", target))}
	s.c.Note("cc-proposed:" + f[1])
	s.fact("propose:%s%d@%d", f[1], target, prop.id)
	s.cycle(prop, func() { prop.n.ProposeConfChange(context.Background(), cc) }, cr)
	return s.answer()
}

func (s *ccsess) persist(nd *ccnode, rd raft.Ready, nEnts int, hard bool) {
	if !raft.IsEmptySnap(rd.Snapshot) {
		cp := rd.Snapshot
		cp.Metadata.ConfState = cloneCS(rd.Snapshot.Metadata.ConfState)
		nd.st.ApplySnapshot(cp)
	}
	ents := rd.Entries
	if nEnts >= 0 && nEnts < len(ents) {
		ents = ents[:nEnts]
	}
	if len(ents) > 0 {
		cp := make([]pb.Entry, len(ents))
		for i, e := range ents {
			cp[i] = e
			cp[i].Data = append([]byte(nil), e.Data...)
		}
		nd.st.Append(cp)
	}
	if hard && !raft.IsEmptyHardState(rd.HardState) {
		nd.st.SetHardState(rd.HardState)
	}
}

// cycle = one schedule event on one node: stimulus, StepNode, and what node/raft.go processReady does with the Ready.
func (s *ccsess) cycle(nd *ccnode, stim func(), cr string) {
	if nd == nil || !nd.started || nd.gone {
		return
	}
	s.cur = nd
	pre := raft.VerifState(nd.n)
	if pre.NeedAdvance {
		s.c.Violation("harness-assumption", "node awaits Advance at the start of an event")
	}
	if stim != nil {
		stim()
	}
	rd, ok := nd.n.StepNode(!nd.paused, false)
	s.afterStep(nd) // a conf change handed over in the background was consumed by this StepNode
	post := raft.VerifState(nd.n)
	s.oracleState(nd, pre, post)
	if !ok {
		if cr != "" {
			s.restart(nd)
		} else if nd.selfGone {
			s.destroy(nd)
		}
		return
	}
	newLeader := rd.SoftState != nil && rd.SoftState.RaftState == raft.StateLeader
	wasLearner := post.IsLearner || nd.mem.l[nd.id]
	if cr == "" {
		if newLeader {
			// isMeNewLeader: transport.Send before persistRaftState
			s.release(nd, rd, wasLearner)
		}
		s.persist(nd, rd, -1, true)
		s.oracleCommit(nd, rd, post)
		s.oracleHandout(nd, rd)
		if died := s.application(nd, rd, newLeader); died {
			return
		}
		if !newLeader {
			s.release(nd, rd, wasLearner)
		}
		nd.n.Advance(rd)
		if nd.selfGone {
			s.destroy(nd)
		}
		s.checkMembers(nd)
		return
	}
	// crash inside the Ready: persist a prefix of (snapshot, entries, hardstate), send nothing (except s), restart
	s.c.Note("crash-in-ready:" + cr[:1])
	hasHard := !raft.IsEmptyHardState(rd.HardState)
	hasEnts := len(rd.Entries) > 0 || !raft.IsEmptySnap(rd.Snapshot)
	mode := cr
	tornK := 0
	switch {
	case cr == "s":
		mode = "0"
		if newLeader {
			s.release(nd, rd, wasLearner)
			s.c.Note("new-leader-sent-before-persist-then-crash")
		}
	case cr == "a", cr == "0":
	case cr[0] == 'e' && !raft.IsEmptySnap(rd.Snapshot):
		s.c.Note("torn-snapshot-without-hardstate:excluded")
		mode = "0"
	case cr[0] == 'e':
		k, _ := strconv.Atoi(cr[1:])
		if k >= len(rd.Entries) {
			k = len(rd.Entries)
			if !hasHard {
				mode = "a"
			}
		}
		if mode != "a" {
			if k <= 0 {
				mode = "0"
			} else {
				tornK = k
				mode = "torn"
			}
		}
	case cr == "h":
		if hasEnts {
			s.c.Note("torn-hardstate-without-entries:excluded")
			mode = "0"
		} else {
			mode = "a"
		}
	default:
		mode = "0"
	}
	s.c.Note("crash-in-ready-resolved:" + mode)
	switch mode {
	case "a":
		s.persist(nd, rd, -1, true)
		s.oracleCommit(nd, rd, post)
	case "torn":
		s.persist(nd, rd, tornK, false)
		nd.tornUpTo = rd.Entries[tornK-1].Index
		for _, e := range rd.Entries[:tornK] {
			if e.Type == pb.EntryConfChange {
				s.c.Note("torn-persist:conf-change-entry-without-hardstate")
			}
		}
	}
	s.restart(nd)
}

// checkMembers: between two events the progress maps of raft are exactly the fold of the conf changes the node has
// applied over what it (re)started from / restored (auxiliary invariant behind "majority counting over voters").
func (s *ccsess) checkMembers(nd *ccnode) {
	if !nd.started || nd.gone {
		return
	}
	v := raft.VerifState(nd.n)
	cs := pb.ConfState{Nodes: v.Voters, Learners: v.Learners}
	if !nd.mem.equalCS(&cs) {
		s.c.Violation("confstate-mismatch", fmt.Sprintf("node %d: raft counts members %s, the conf changes it applied (over the snapshot it started from) give %s",
			nd.id, csStr(&cs), nd.mem))
		nd.mem = memFromCS(cs) // report once, then follow raft's view
	}
}

// destroy: the application applied the removal of its own replica (node/node.go applyEntries: shouldStop -> destroy).
func (s *ccsess) destroy(nd *ccnode) {
	s.stopNode(nd)
	nd.gone = true
	s.c.Note("node-removed-itself")
	s.fact("destroyed%d", nd.id)
	keep := s.pool[:0:0]
	for _, m := range s.pool {
		if m.To != nd.id {
			keep = append(keep, m)
		}
	}
	s.pool = keep
}

// application: what the apply loop (node/node.go applyCommits) and the raft loop's waitApply do with the hand-out of
// one Ready. Returns true when the node destroyed itself inside the wait (nothing of the Ready is sent).
func (s *ccsess) application(nd *ccnode, rd raft.Ready, newLeader bool) bool {
	wait := false
	if !raft.IsEmptySnap(rd.Snapshot) {
		wait = true
	}
	for _, e := range rd.CommittedEntries {
		if e.Type == pb.EntryConfChange {
			wait = true
		}
	}
	if newLeader {
		if wait {
			s.c.Note("new-leader-ready-with-conf-change:applied-in-background")
		}
		wait = false
	}
	if !raft.IsEmptySnap(rd.Snapshot) {
		// the apply loop is FIFO: earlier hand-outs are processed before the snapshot
		s.drain(nd, true)
		nd.cs = cloneCS(rd.Snapshot.Metadata.ConfState)
		nd.mem = memFromCS(nd.cs)
		nd.appApplied = rd.Snapshot.Metadata.Index
		s.c.Note("snapshot-applied")
		s.flagOnce(&s.flagSnap, "sessions-with-snapshot-restore")
		s.fact("restore%d@%d(%s)", nd.id, nd.appApplied, nd.mem)
	}
	for _, e := range rd.CommittedEntries {
		e.Data = append([]byte(nil), e.Data...)
		nd.queue = append(nd.queue, e)
	}
	s.drain(nd, wait)
	if wait && nd.selfGone {
		// the raft loop is still inside the wait when the node is destroyed: no Send, no Advance
		s.c.Note("self-removal-inside-wait:ready-not-sent")
		s.destroy(nd)
		return true
	}
	return false
}

// drain lets the application process what was handed out. sync = the raft loop is in its waitApply loop and serves
// ConfChangedCh itself; otherwise a conf change is handed to ApplyConfChange in the background and stays there
// until a later StepNode of the node consumes it.
func (s *ccsess) drain(nd *ccnode, sync bool) {
	for len(nd.queue) > 0 {
		if nd.inflight != nil {
			if !sync {
				return
			}
			select {
			case cc := <-nd.n.ConfChangedCh():
				nd.n.HandleConfChanged(cc)
			case <-time.After(5 * time.Second):
				s.c.Violation("harness", "no conf change on ConfChangedCh")
				return
			}
			s.finishCC(nd)
			continue
		}
		e := nd.queue[0]
		if e.Index <= nd.appApplied { // applyEntries skips what the snapshot already covers
			nd.queue = nd.queue[1:]
			continue
		}
		if e.Type != pb.EntryConfChange {
			nd.queue = nd.queue[1:]
			nd.appApplied = e.Index
			continue
		}
		var cc pb.ConfChange
		if err := cc.Unmarshal(e.Data); err != nil {
			s.c.Violation("harness-assumption", "conf change entry does not unmarshal")
			nd.queue = nd.queue[1:]
			continue
		}
		ch := make(chan *pb.ConfState, 1)
		nd.inflight = ch
		n := nd.n
		go func() { ch <- n.ApplyConfChange(cc) }()
		for i := 0; raft.VerifConfChangeQueued(n) == 0; i++ {
			runtime.Gosched()
			if i > 1000 {
				time.Sleep(50 * time.Microsecond)
			}
			if i > 200000 {
				s.c.Violation("harness", "ApplyConfChange did not queue the conf change")
				return
			}
		}
		if !sync {
			s.c.Note("conf-change-waits-for-a-later-StepNode")
		}
	}
}

func (s *ccsess) afterStep(nd *ccnode) {
	if nd.inflight != nil && raft.VerifConfChangeQueued(nd.n) == 0 {
		s.c.Note("conf-change-consumed-by-StepNode")
		s.finishCC(nd)
		s.drain(nd, false)
	}
}

// finishCC: ApplyConfChange returned the ConfState for the conf change at the head of the queue.
func (s *ccsess) finishCC(nd *ccnode) {
	var cs *pb.ConfState
	select {
	case cs = <-nd.inflight:
	case <-time.After(5 * time.Second):
		s.c.Violation("harness", "ApplyConfChange did not return")
		nd.inflight = nil
		return
	}
	nd.inflight = nil
	e := nd.queue[0]
	nd.queue = nd.queue[1:]
	var cc pb.ConfChange
	cc.Unmarshal(e.Data)
	nd.cs = cloneCS(*cs)
	nd.mem.apply(cc)
	nd.appApplied = e.Index
	s.ccApplied++
	s.c.Note("conf-change-applied:" + cc.Type.String())
	s.flagOnce(&s.flagCC, "sessions-with-conf-change-applied")
	if s.ccApplied == s.v+2 {
		s.c.Note("sessions-with->=2-membership-changes-applied")
	}
	s.fact("cc%d@%d:%s%d>%s", nd.id, e.Index, map[pb.ConfChangeType]string{pb.ConfChangeAddNode: "add", pb.ConfChangeAddLearnerNode: "addl",
		pb.ConfChangeRemoveNode: "rm", pb.ConfChangeUpdateNode: "upd"}[cc.Type], cc.ReplicaID, csStr(cs))
	if !nd.mem.equalCS(cs) {
		s.c.Violation("confstate-mismatch", fmt.Sprintf("node %d applies %s %d at index %d: raft reports members %s, the conf change entries give %s",
			nd.id, cc.Type, cc.ReplicaID, e.Index, csStr(cs), nd.mem))
		nd.mem = memFromCS(*cs) // report once, then follow raft's view
	}
	if e.Index > s.globIdx {
		s.globIdx = e.Index
		s.glob = nd.mem.clone()
		for id := range s.glob.v {
			s.ever[id] = true
		}
		for id := range s.glob.l {
			s.ever[id] = true
		}
	}
	if cc.Type == pb.ConfChangeRemoveNode && cc.ReplicaID == nd.id {
		nd.selfGone = true
	}
}

// release puts the messages of a Ready into the pool. wasLearner: the node was a learner when StepNode created the
// messages (before the hand-out of the same Ready was applied).
func (s *ccsess) release(nd *ccnode, rd raft.Ready, wasLearner bool) {
	msgs := append([]pb.Message(nil), rd.Messages...)
	sort.SliceStable(msgs, func(a, b int) bool {
		x, y := msgs[a], msgs[b]
		if x.To != y.To {
			return x.To < y.To
		}
		if x.Type != y.Type {
			return x.Type < y.Type
		}
		if x.Index != y.Index {
			return x.Index < y.Index
		}
		return x.Term < y.Term
	})
	for _, x := range msgs {
		s.c.Note("sent:" + x.Type.String())
		if wasLearner && !x.Reject && (x.Type == pb.MsgVoteResp || x.Type == pb.MsgPreVoteResp) {
			s.c.Violation("learner-vote", fmt.Sprintf("learner %d grants %s to %d in term %d", nd.id, x.Type, x.To, x.Term))
		}
		s.oracleVote(nd, x)
		to := s.byID(x.To)
		if to == nil {
			s.c.Note("msg-to-nobody")
			continue
		}
		if nd.iso || to.iso {
			s.c.Note("lost-by-partition")
			continue
		}
		s.pool = append(s.pool, cloneMsg(x))
	}
}

// ---------------------------------------------------------------------------------------------
// oracle

func (s *ccsess) oracleVote(nd *ccnode, x pb.Message) {
	var cand uint64
	switch {
	case x.Type == pb.MsgVoteResp && !x.Reject:
		cand = x.To
		hs, _, _ := nd.st.InitialState()
		if hs.Term != x.Term || hs.Vote != x.To {
			s.c.Violation("vote-not-durable", fmt.Sprintf("node %d releases its vote for %d in term %d, but its storage holds {term %d, vote %d}",
				nd.id, x.To, x.Term, hs.Term, hs.Vote))
		}
	case x.Type == pb.MsgVote:
		cand = nd.id
	default:
		return
	}
	k := voteKey{nd.id, x.Term}
	if old, ok := s.votedIn[k]; ok && old.cand != cand {
		across := ""
		if old.epoch != nd.epoch {
			across = fmt.Sprintf(" (restarted %d time(s) in between)", nd.epoch-old.epoch)
		}
		s.c.Violation("two-votes-one-term", fmt.Sprintf("node %d voted for %d and for %d in term %d%s", nd.id, old.cand, cand, x.Term, across))
		return
	}
	s.votedIn[k] = voteRec{cand, nd.epoch}
}

func (s *ccsess) oracleState(nd *ccnode, pre, post raft.VerifView) {
	c := s.c
	if post.State == raft.StateLeader {
		if post.IsLearner || nd.mem.l[nd.id] {
			c.Violation("learner-leader", fmt.Sprintf("learner %d is leader of term %d (members it applied: %s)", nd.id, post.Term, nd.mem))
		}
		if l, ok := s.leaderOf[post.Term]; ok && l != nd.id {
			c.Violation("two-leaders-one-term", fmt.Sprintf("term %d: leaders %d and %d (node %d counts voters %s; newest applied configuration %s)",
				post.Term, l, nd.id, nd.id, idsStr(post.Voters), s.glob))
		} else if !ok {
			s.leaderOf[post.Term] = nd.id
			s.leaders++
			s.flagOnce(&s.flagLeader, "sessions-with-leader")
			if s.leaders >= 3 {
				s.flagOnce(&s.flagChange, "sessions-with->=2-leader-changes")
			}
			c.Note("leader-elected")
			s.fact("leader%d@t%d[%s]", nd.id, post.Term, idsStr(post.Voters))
			if !s.glob.v[nd.id] {
				c.Note("leader-elected:not-a-voter-of-the-newest-applied-configuration")
			}
			if len(post.Voters) != len(s.glob.v) {
				s.flagOnce(&s.flagStale, "sessions-with-leader-elected-under-an-older-configuration")
			}
		}
	} else if post.Lead != 0 && post.Lead != pre.Lead {
		if l, ok := s.leaderOf[post.Term]; ok && l != post.Lead {
			c.Violation("two-leaders-one-term", fmt.Sprintf("term %d: leader %d, but node %d follows %d", post.Term, l, nd.id, post.Lead))
		}
	}
	if post.State == raft.StateLeader && (pre.State != raft.StateLeader || pre.Term != post.Term) {
		ents := raft.VerifLogEntries(nd.n)
		for i := uint64(1); i <= s.maxCommit; i++ {
			r, ok := s.commits[i]
			if !ok || r.repTerm >= post.Term || i < post.FirstIndex {
				continue // compacted indices are covered by the snapshot the node restored or made itself
			}
			if i-post.FirstIndex >= uint64(len(ents)) || ents[i-post.FirstIndex].Term != r.term {
				c.Violation("committed-lost", fmt.Sprintf("index %d term %d committed by node %d in term <= %d is not in the log of node %d, leader of term %d (it counts voters %s)",
					i, r.term, r.by, r.repTerm, nd.id, post.Term, idsStr(post.Voters)))
				break
			}
			if k := keyOf(ents[i-post.FirstIndex]); k != s.commitKey[i] {
				c.Violation("committed-lost", fmt.Sprintf("index %d committed by node %d in term <= %d as (term %d, %q) is (term %d, %q) in the log of node %d, leader of term %d (it counts voters %s)",
					i, r.by, r.repTerm, r.term, s.commitKey[i].data, k.term, k.data, nd.id, post.Term, idsStr(post.Voters)))
				break
			}
		}
	}
}

// oracleCommit records what a node reports committed: the commit index of a HardState that has been persisted.
func (s *ccsess) oracleCommit(nd *ccnode, rd raft.Ready, post raft.VerifView) {
	if raft.IsEmptyHardState(rd.HardState) || rd.HardState.Commit <= nd.repCommit {
		return
	}
	c := s.c
	for i := nd.repCommit + 1; i <= rd.HardState.Commit; i++ {
		e, ok := raft.VerifEntryAt(nd.n, i)
		if !ok || e.Term == 0 {
			continue
		}
		t := e.Term
		if r, ok := s.commits[i]; ok {
			if r.term != t {
				c.Violation("commit-mismatch", fmt.Sprintf("index %d committed with term %d by node %d and with term %d by node %d", i, r.term, r.by, t, nd.id))
			} else if k := keyOf(e); k != s.commitKey[i] {
				c.Violation("commit-mismatch", fmt.Sprintf("index %d committed as (term %d, %q) by node %d and as (term %d, %q) by node %d", i, r.term, s.commitKey[i].data, r.by, t, k.data, nd.id))
			}
			if post.Term < r.repTerm {
				r.repTerm = post.Term
				s.commits[i] = r
			}
		} else {
			s.commits[i] = commitRec{term: t, repTerm: post.Term, by: nd.id}
			s.commitKey[i] = keyOf(e)
		}
		if i > s.maxCommit {
			s.maxCommit = i
		}
	}
	nd.repCommit = rd.HardState.Commit
	if rd.HardState.Commit > uint64(s.v)+1 {
		s.flagOnce(&s.flagCommit, "sessions-with-commit")
	}
}

// keyOf: what makes two entries "the same entry" (term, type, payload).
func keyOf(e pb.Entry) entKey { return entKey{e.Term, string(rune('0'+int(e.Type))) + string(e.Data)} }

func (s *ccsess) oracleHandout(nd *ccnode, rd raft.Ready) {
	c := s.c
	if !raft.IsEmptySnap(rd.Snapshot) {
		if rd.Snapshot.Metadata.Index <= nd.handedTo {
			c.Violation("applied-mismatch", fmt.Sprintf("node %d: snapshot %d handed out at or below applied %d", nd.id, rd.Snapshot.Metadata.Index, nd.handedTo))
		}
		nd.handedTo = rd.Snapshot.Metadata.Index
	}
	if len(rd.CommittedEntries) > 0 {
		s.fact("ho%d:%d-%d", nd.id, rd.CommittedEntries[0].Index, rd.CommittedEntries[len(rd.CommittedEntries)-1].Index)
		if rd.MoreCommittedEntries {
			c.Note("hand-out-paginated")
		}
	}
	for _, e := range rd.CommittedEntries {
		if e.Index != nd.handedTo+1 {
			c.Violation("applied-mismatch", fmt.Sprintf("node %d: hand-out of index %d after %d (gap or repeat)", nd.id, e.Index, nd.handedTo))
		}
		nd.handedTo = e.Index
		k := keyOf(e)
		if old, ok := s.handed[e.Index]; ok {
			if old != k {
				c.Violation("applied-mismatch", fmt.Sprintf("index %d handed out as (term %d, %q) and by node %d as (term %d, %q)",
					e.Index, old.term, old.data, nd.id, k.term, k.data))
			}
		} else {
			s.handed[e.Index] = k
			c.Note("entries-applied-somewhere")
		}
	}
}
