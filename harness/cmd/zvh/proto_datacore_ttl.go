package main

import (
	"fmt"
	"math/rand"
)

// datacorettl: the executor of protocol `data` driven by a generator restricted to what the executable Lean models
// of expiry under the value-header policy cover (lean/ZanVerif/Data/KVExec.lean, HashTTLExec.lean, driver
// lean/Driver/DataTTL.lean): KV commands and hash commands (versioned layout) incl. EXPIRE / PERSIST / TTL per type,
// policy=compact, one entry per apply event, well-formed commands, log time stepping across the expiry seconds.
// Log timestamps are STRICTLY increasing — except in the sessions flagged `tsmode=equal` on the open line (about one in
// twelve), where writes may reuse the previous log timestamp and create / kill / re-create bursts run at one
// timestamp: there the real code shows the known equal-timestamp resurrection (generation = log timestamp) and the
// model must show the same lines.
func init() { register(&Proto{Name: "datacorettl", Gen: genDataCoreTTL, New: newData}) }

var dcttlKeys = []string{"default:t:h", "default:t:h:x", "default:tt:h", "default:t:\x00", "default:t:hh"}
var dcttlFields = []string{"f", "", "g", "f:g", "\x00\xff", "ff", "f\x00"}
var dcttlVals = []string{"1", "", "v", "w\x00", "007"}

func dcHashWrite(rng *rand.Rand, c *dcClock, past bool, k string) string {
	f := func() string { return dcttlFields[rng.Intn(len(dcttlFields))] }
	v := func() string { return dcttlVals[rng.Intn(len(dcttlVals))] }
	switch r := rng.Intn(100); {
	case r < 25:
		return dcHex("hset", k, f(), v())
	case r < 32:
		return dcHex("hsetnx", k, f(), v())
	case r < 47:
		a := dcHex("hmset", k)
		for j := 1 + rng.Intn(4); j > 0; j-- {
			a += dcHex(f(), v())
		}
		return a
	case r < 64:
		a := dcHex("hdel", k)
		for j := 1 + rng.Intn(3); j > 0; j-- {
			a += dcHex(f())
		}
		return a
	case r < 72:
		return dcHex("hclear", k)
	case r < 90:
		d := c.ttl(past)
		if rng.Intn(30) == 0 {
			d = []string{"abc", "", "99999999999999999999"}[rng.Intn(3)]
		}
		return dcHex("hexpire", k, d)
	default:
		return dcHex("hpersist", k)
	}
}

func dcHashRead(rng *rand.Rand, k string) string {
	f := func() string { return dcttlFields[rng.Intn(len(dcttlFields))] }
	switch rng.Intn(12) {
	case 0, 1:
		return dcHex("hget", k, f())
	case 2:
		return dcHex("hmget", k, f(), f(), f())
	case 3:
		return dcHex("hlen", k)
	case 4, 5:
		return dcHex("hgetall", k)
	case 6:
		return dcHex("hkeys", k)
	case 7:
		return dcHex("hvals", k)
	case 8:
		return dcHex("hexists", k, f())
	case 9:
		return dcHex("hkeyexist", k)
	default:
		return dcHex("httl", k)
	}
}

func genDataCoreTTL(rng *rand.Rand, tier string, emit func(string)) {
	sessions := 150
	if tier == "thorough" {
		sessions = 6000
	}
	for s := 0; s < sessions; s++ {
		eng := "mem"
		if rng.Intn(5) == 0 {
			eng = "pebble"
		}
		past := rng.Intn(100) < 55
		start := dataBaseFuture
		if past {
			start = dataBasePast
		}
		start += rng.Int63n(1e9)
		equal := rng.Intn(12) == 0
		mode := "mono"
		if equal {
			mode = "equal"
		}
		emit(fmt.Sprintf("open engine=%s policy=compact now=%d sh= tsmode=%s", eng, dataNowFixed, mode))
		c := &dcClock{rng: rng, ts: start}
		ks := append([]string{}, dcttlKeys...)
		rng.Shuffle(len(ks), func(i, j int) { ks[i], ks[j] = ks[j], ks[i] })
		ks = ks[:2+rng.Intn(len(ks)-1)]
		last := map[string]string{}
		n := 40 + rng.Intn(90)
		w := func(a string) {
			emit(fmt.Sprintf("w %d 1%s", c.ts, a))
		}
		for i := 0; i < n; i++ {
			k := ks[rng.Intn(len(ks))]
			if rng.Intn(100) < 55 {
				if !(equal && rng.Intn(100) < 35 && c.ts != start) {
					c.step()
				}
				if equal && rng.Intn(6) == 0 {
					// create / kill / re-create one hash at ONE log timestamp
					f1, f2 := dcttlFields[rng.Intn(len(dcttlFields))], dcttlFields[rng.Intn(len(dcttlFields))]
					w(dcHex("hset", k, f1, "old"))
					if rng.Intn(2) == 0 {
						w(dcHex("hclear", k))
					} else {
						w(dcHex("hexpire", k, "0"))
					}
					w(dcHex("hset", k, f2, "new"))
					emit("inv")
					emit("r" + dcHex("hgetall", k))
					continue
				}
				if rng.Intn(100) < 68 {
					w(dcHashWrite(rng, c, past, k))
					for rng.Intn(3) == 0 {
						emit("r" + dcHashRead(rng, k))
					}
				} else {
					w(dcKVWrite(rng, c, past, ks, k, last))
					for rng.Intn(3) == 0 {
						emit("r" + dcKVRead(rng, ks, k))
					}
				}
				if rng.Intn(4) == 0 {
					emit("inv")
				}
			} else if rng.Intn(100) < 68 {
				emit("r" + dcHashRead(rng, k))
			} else {
				emit("r" + dcKVRead(rng, ks, k))
			}
			if rng.Intn(40) == 0 {
				emit("dump")
			}
		}
		emit("inv")
		emit("dump")
		emit("end")
	}
}
