package main

import (
	"fmt"
	"math/rand"
)

// datacorettl: the executor of protocol `data` driven by a generator restricted to what the executable Lean models
// of expiry under the value-header policy cover (lean/ZanVerif/Data/KVExec.lean, HashTTLExec.lean, driver
// lean/Driver/DataTTL.lean): KV commands and hash commands (versioned layout, incl. HINCRBY) incl. EXPIRE / PERSIST / TTL
// per type, policy=compact, well-formed commands, log time stepping across the expiry seconds. KV writes are one entry per
// apply event; about one hash write in ten is an apply event of 2-5 hash writes on one key (`w <ts> 0 …` … `w <ts> 1 …`).
// HINCRBY scenarios: HSET f v / HINCRBY f d / HDEL f / HINCRBY f d (one event or four); HSET f v ; HEXPIRE k 1-3 ; the
// log clock moved to / beyond the expiry second ; HINCRBY f d (must start from 0 in a new generation without TTL);
// HSET ; HEXPIRE ; HPERSIST ; HINCRBY; and HINCRBY as the re-creating write of the equal-timestamp bursts.
// Log timestamps are STRICTLY increasing — except in the sessions flagged `tsmode=equal` on the open line (about one in
// twelve), where writes may reuse the previous log timestamp and create / kill / re-create bursts run at one
// timestamp: there the real code shows the known equal-timestamp resurrection (generation = log timestamp) and the
// model must show the same lines.
func init() { register(&Proto{Name: "datacorettl", Gen: genDataCoreTTL, New: newData}) }

var dcttlKeys = []string{"default:t:h", "default:t:h:x", "default:tt:h", "default:t:\x00", "default:t:hh"}
var dcttlFields = []string{"f", "", "g", "f:g", "\x00\xff", "ff", "f\x00"}
var dcttlVals = []string{"1", "", "v", "w\x00", "007"}

func dcHashWrite(rng *rand.Rand, c *dcClock, past bool, k string) string {
	f := func() string { return dcttlFields[rng.Intn(len(dcttlFields))] }
	v := func() string {
		if rng.Intn(100) < 40 {
			return dcIntVals[rng.Intn(len(dcIntVals))]
		}
		return dcttlVals[rng.Intn(len(dcttlVals))]
	}
	switch r := rng.Intn(115); {
	case r >= 100:
		return dcHex("hincrby", k, f(), dcDelta(rng))
	case r < 25:
		return dcHex("hset", k, f(), v())
	case r < 32:
		return dcHex("hsetnx", k, f(), v())
	case r < 47:
		a := dcHex("hmset", k)
		for j := 1 + rng.Intn(4); j > 0; j-- {
			a += dcHex(f(), v())
		}
		return a
	case r < 64:
		a := dcHex("hdel", k)
		for j := 1 + rng.Intn(3); j > 0; j-- {
			a += dcHex(f())
		}
		return a
	case r < 72:
		return dcHex("hclear", k)
	case r < 90:
		d := c.ttl(past)
		if rng.Intn(30) == 0 {
			d = []string{"abc", "", "99999999999999999999"}[rng.Intn(3)]
		}
		return dcHex("hexpire", k, d)
	default:
		return dcHex("hpersist", k)
	}
}

func dcHashRead(rng *rand.Rand, k string) string {
	f := func() string { return dcttlFields[rng.Intn(len(dcttlFields))] }
	switch rng.Intn(12) {
	case 0, 1:
		return dcHex("hget", k, f())
	case 2:
		return dcHex("hmget", k, f(), f(), f())
	case 3:
		return dcHex("hlen", k)
	case 4, 5:
		return dcHex("hgetall", k)
	case 6:
		return dcHex("hkeys", k)
	case 7:
		return dcHex("hvals", k)
	case 8:
		return dcHex("hexists", k, f())
	case 9:
		return dcHex("hkeyexist", k)
	default:
		return dcHex("httl", k)
	}
}

func genDataCoreTTL(rng *rand.Rand, tier string, emit func(string)) {
	sessions := 150
	if tier == "thorough" {
		sessions = 6000
	}
	for s := 0; s < sessions; s++ {
		eng := "mem"
		if rng.Intn(5) == 0 {
			eng = "pebble"
		}
		past := rng.Intn(100) < 55
		start := dataBaseFuture
		if past {
			start = dataBasePast
		}
		start += rng.Int63n(1e9)
		equal := rng.Intn(12) == 0
		mode := "mono"
		if equal {
			mode = "equal"
		}
		emit(fmt.Sprintf("open engine=%s policy=compact now=%d sh= tsmode=%s", eng, dataNowFixed, mode))
		c := &dcClock{rng: rng, ts: start}
		ks := append([]string{}, dcttlKeys...)
		rng.Shuffle(len(ks), func(i, j int) { ks[i], ks[j] = ks[j], ks[i] })
		ks = ks[:2+rng.Intn(len(ks)-1)]
		last := map[string]string{}
		n := 40 + rng.Intn(90)
		w := func(a string) {
			emit(fmt.Sprintf("w %d 1%s", c.ts, a))
		}
		// an apply event of several hash writes: every entry but the last leaves the event open
		event := func(as []string) {
			for j, a := range as {
				if j > 0 && !(equal && rng.Intn(3) == 0) {
					c.ts += 1 + rng.Int63n(1000)
				}
				b := 0
				if j == len(as)-1 {
					b = 1
				}
				emit(fmt.Sprintf("w %d %d%s", c.ts, b, a))
			}
		}
		for i := 0; i < n; i++ {
			k := ks[rng.Intn(len(ks))]
			if rng.Intn(100) < 55 {
				if !(equal && rng.Intn(100) < 35 && c.ts != start) {
					c.step()
				}
				if equal && rng.Intn(6) == 0 {
					// create / kill / re-create one hash at ONE log timestamp
					f1, f2 := dcttlFields[rng.Intn(len(dcttlFields))], dcttlFields[rng.Intn(len(dcttlFields))]
					w(dcHex("hset", k, f1, "old"))
					if rng.Intn(2) == 0 {
						w(dcHex("hclear", k))
					} else {
						w(dcHex("hexpire", k, "0"))
					}
					if rng.Intn(3) == 0 {
						w(dcHex("hincrby", k, f2, dcDelta(rng)))
					} else {
						w(dcHex("hset", k, f2, "new"))
					}
					emit("inv")
					emit("r" + dcHex("hgetall", k))
					continue
				}
				if r := rng.Intn(100); r < 6 {
					// HINCRBY across expiry / persist: the increment after the expiry second starts from 0 in a new generation
					f1 := dcttlFields[rng.Intn(len(dcttlFields))]
					w(dcHex("hset", k, f1, dcIntVals[rng.Intn(5)]))
					if rng.Intn(3) == 0 {
						c.step()
						w(dcHex("hset", k, dcttlFields[rng.Intn(len(dcttlFields))], "other"))
					}
					c.step()
					d := 1 + rng.Intn(3)
					w(dcHex("hexpire", k, fmt.Sprint(d)))
					exp := c.ts/1e9 + int64(d)
					c.expiries = append(c.expiries, exp)
					switch rng.Intn(4) {
					case 0: // persisted before it runs out
						c.step()
						w(dcHex("hpersist", k))
						c.ts = exp*1e9 + rng.Int63n(2e9)
					case 1: // still alive: one nanosecond before the expiry second
						if t := exp*1e9 - 1 - rng.Int63n(1000); t > c.ts {
							c.ts = t
						} else {
							c.step()
						}
					default: // at / beyond the expiry second
						if t := exp*1e9 + []int64{0, 1, 999999999, 1e9 + rng.Int63n(1e9)}[rng.Intn(4)]; t > c.ts {
							c.ts = t
						} else {
							c.step()
						}
					}
					w(dcHex("hincrby", k, f1, dcDelta(rng)))
					emit("r" + dcHex("hgetall", k))
					emit("r" + dcHex("httl", k))
					emit("r" + dcHex("hlen", k))
					emit("inv")
					continue
				} else if r < 14 {
					as := dcIncrSeq(rng, k, dcttlFields[rng.Intn(len(dcttlFields))])
					if rng.Intn(2) == 0 {
						event(as)
					} else {
						for j, a := range as {
							if j > 0 {
								c.step()
							}
							w(a)
						}
					}
					emit("r" + dcHex("hgetall", k))
					continue
				} else if r < 22 {
					var as []string
					for j := 2 + rng.Intn(4); j > 0; j-- {
						as = append(as, dcHashWrite(rng, c, past, k))
					}
					event(as)
					emit("inv")
					continue
				}
				if rng.Intn(100) < 68 {
					w(dcHashWrite(rng, c, past, k))
					for rng.Intn(3) == 0 {
						emit("r" + dcHashRead(rng, k))
					}
				} else {
					w(dcKVWrite(rng, c, past, ks, k, last))
					for rng.Intn(3) == 0 {
						emit("r" + dcKVRead(rng, ks, k))
					}
				}
				if rng.Intn(4) == 0 {
					emit("inv")
				}
			} else if rng.Intn(100) < 68 {
				emit("r" + dcHashRead(rng, k))
			} else {
				emit("r" + dcKVRead(rng, ks, k))
			}
			if rng.Intn(40) == 0 {
				emit("dump")
			}
		}
		emit("inv")
		emit("dump")
		emit("end")
	}
}
