package main

import (
	"fmt"
	"math/rand"
	"reflect"
	"strconv"
	"strings"

	"github.com/youzan/ZanRedisDB/raft/raftpb"
	"github.com/youzan/ZanRedisDB/transport/rafthttp"
)

// Protocol streamw (C16, oracle only): the real streamWriter GOROUTINE between a queue of raft messages and the real
// decoder of the stream type — batching, the forced flush every streamBufSize/2 messages, backlogs that were waiting in
// the writer's channel when the connection got attached. What is read back must be exactly the sequence queued.
//
//	w <v2|msg> <n> <pre> <groups> <seed>      n messages of <groups> interleaved raft groups, the first <pre> queued before
//	                                          the connection is attached                      → ok n=<n> | differs …
func init() { register(&Proto{Name: "streamw", Gen: genStreamW, New: newStreamW}) }

func genStreamW(rng *rand.Rand, tier string, emit func(string)) {
	half := rafthttp.VerifStreamBufSize() / 2
	ns := []int{1, 7, half - 1, half, half + 1, half + 2, half + 3, 2*half - 1, 2 * half, 2*half + 1, 2*half + 5, 3*half + 7}
	rounds := 1
	if tier == "thorough" {
		rounds = 6
	}
	for r := 0; r < rounds; r++ {
		for i, n := range ns {
			for _, typ := range []string{"v2", "msg"} {
				if tier != "thorough" && i%2 == 1 && typ == "msg" && n > 100 { // quick: every size on the msgappv2 stream, every other on the message stream
					continue
				}
				pre := n // the whole backlog waits in the channel (as far as it fits)
				if r%2 == 1 || rng.Intn(4) == 0 {
					pre = rng.Intn(n + 1)
				}
				emit(fmt.Sprintf("w %s %d %d %d %d", typ, n, pre, 1+rng.Intn(4), rng.Intn(1<<30)))
			}
		}
		for k := 0; k < 4; k++ {
			n := half - 3 + rng.Intn(2*half)
			emit(fmt.Sprintf("w %s %d %d %d %d", []string{"v2", "msg"}[rng.Intn(2)], n, rng.Intn(n+1), 1+rng.Intn(4), rng.Intn(1<<30)))
		}
	}
}

func streamwBacklog(rng *rand.Rand, n, groups int, v2 bool) []raftpb.Message {
	next := make([]uint64, groups)
	term := make([]uint64, groups)
	for g := range term {
		term[g] = 3
		next[g] = uint64(1 + rng.Intn(5))
	}
	msgs := make([]raftpb.Message, 0, n)
	g := 0
	for i := 0; i < n; i++ {
		if rng.Intn(3) == 0 { // runs of messages of one group, so that the msgappv2 stream uses both encodings
			g = rng.Intn(groups)
		}
		from := raftpb.Group{NodeId: 1, Name: "ns", GroupId: uint64(100 + g), RaftReplicaId: uint64(10 + g)}
		to := raftpb.Group{NodeId: 2, Name: "ns", GroupId: uint64(100 + g), RaftReplicaId: uint64(20 + g)}
		typ := raftpb.MsgApp
		if !v2 {
			typ = []raftpb.MessageType{raftpb.MsgAppResp, raftpb.MsgHeartbeat, raftpb.MsgHeartbeatResp, raftpb.MsgVote, raftpb.MsgApp}[rng.Intn(5)]
		}
		if rng.Intn(200) == 0 {
			term[g]++
		}
		m := raftpb.Message{Type: typ, From: from.RaftReplicaId, To: to.RaftReplicaId, FromGroup: from, ToGroup: to,
			Term: term[g], LogTerm: term[g], Index: next[g] - 1, Commit: next[g] - 1}
		if typ == raftpb.MsgApp {
			for e := rng.Intn(3); e > 0; e-- {
				m.Entries = append(m.Entries, raftpb.Entry{Term: term[g], Index: next[g], Data: []byte{byte(i), byte(i >> 8), byte(g)}})
				next[g]++
			}
		}
		msgs = append(msgs, m)
	}
	return msgs
}

func newStreamW(c *Ctx) func(string) string {
	return func(line string) string {
		f := strings.Fields(line)
		if len(f) != 6 || f[0] != "w" || (f[1] != "v2" && f[1] != "msg") {
			return "bad-op"
		}
		n, e1 := strconv.Atoi(f[2])
		pre, e2 := strconv.Atoi(f[3])
		groups, e3 := strconv.Atoi(f[4])
		seed, e4 := strconv.ParseInt(f[5], 10, 64)
		if e1 != nil || e2 != nil || e3 != nil || e4 != nil || n < 0 || n > 200000 || groups < 1 || groups > 16 || pre < 0 {
			return "bad-op"
		}
		v2 := f[1] == "v2"
		want := streamwBacklog(rand.New(rand.NewSource(seed)), n, groups, v2)
		// the writer clears m.Entries of its own copy only; keep an independent copy of what was queued anyway
		queued := make([]raftpb.Message, len(want))
		for i := range want {
			queued[i] = want[i]
			queued[i].Entries = append([]raftpb.Entry(nil), want[i].Entries...)
		}
		got, flushes, err := rafthttp.VerifWriterRoundTrip(queued, v2, pre, 2, 1)
		c.Note("streamw:" + f[1])
		if flushes > 1 {
			c.Note("streamw:several-flushes")
		}
		if err != nil {
			c.Violation("writer-error", fmt.Sprintf("%s: %v", line, err))
			return "err"
		}
		for i := 0; i < len(got) && i < len(want); i++ {
			a, b := got[i], want[i]
			if len(a.Entries) == 0 && len(b.Entries) == 0 {
				a.Entries, b.Entries = nil, nil
			}
			if !reflect.DeepEqual(a, b) {
				c.Violation("writer-sequence-differs", fmt.Sprintf("%s: message #%d read back differs from the one queued (%d queued, %d read): read %s, queued %s",
					line, i, len(want), len(got), got[i].String(), want[i].String()))
				return fmt.Sprintf("differs at=%d", i)
			}
		}
		if len(got) != len(want) {
			c.Violation("writer-sequence-differs", fmt.Sprintf("%s: %d messages queued, %d read back", line, len(want), len(got)))
			return fmt.Sprintf("differs queued=%d read=%d", len(want), len(got))
		}
		return fmt.Sprintf("ok n=%d", n)
	}
}
