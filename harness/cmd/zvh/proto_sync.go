package main

import (
	"encoding/json"
	"fmt"
	"math/rand"
	"strings"

	"github.com/youzan/ZanRedisDB/metric"
	"github.com/youzan/ZanRedisDB/node"
	"github.com/youzan/ZanRedisDB/raft/raftpb"
)

// C19: the real apply path (KVNode.applyEntry → isAlreadyApplied / postprocessRemoteApply, snapshot
// restore of the synced positions) around a recording state machine, vs the Lean receiver model.
//
//	reset | ent <cluster> <term> <index> normal|ignored | set <cluster> <term> <index> | snap | restore | pos <cluster> | data
func init() { register(&Proto{Name: "sync", Gen: genSync, New: newSync}) }

type recSM struct {
	data    []string // effects "cluster:index", oldest first
	ran     bool
	ignored map[string]bool // entries the state machine answers with errIgnoredRemoteApply
	snap    []string
}

func (s *recSM) ApplyRaftRequest(isReplaying bool, b node.IBatchOperator, req node.BatchInternalRaftRequest, term uint64, index uint64, stop chan struct{}) (bool, error) {
	s.ran = true
	k := fmt.Sprintf("%s:%d", strings.TrimPrefix(req.OrigCluster, "c"), req.OrigIndex)
	if len(req.Reqs) > 0 && string(req.Reqs[0].Data) == "ignored" { // decided by the entry itself, so a replay decides the same

		return false, node.VerifErrIgnoredRemoteApply()
	}
	s.data = append(s.data, k)
	return false, nil
}
func (s *recSM) ApplyRaftConfRequest(req raftpb.ConfChange, term uint64, index uint64, stop chan struct{}) error {
	return nil
}
func (s *recSM) GetSnapshot(term uint64, index uint64) (*node.KVSnapInfo, error) {
	return &node.KVSnapInfo{}, nil
}
func (s *recSM) UpdateSnapshotState(term uint64, index uint64) {}
func (s *recSM) PrepareSnapshot(raftSnapshot raftpb.Snapshot, stop chan struct{}) error {
	return nil
}
func (s *recSM) RestoreFromSnapshot(raftSnapshot raftpb.Snapshot, stop chan struct{}) error {
	s.data = append([]string{}, s.snap...)
	return nil
}
func (s *recSM) Destroy()                              {}
func (s *recSM) CleanData() error                      { return nil }
func (s *recSM) Optimize(string)                       {}
func (s *recSM) OptimizeExpire()                       {}
func (s *recSM) OptimizeAnyRange(node.CompactAPIRange) {}
func (s *recSM) DisableOptimize(bool)                  {}
func (s *recSM) GetStats(table string, needDetail bool) metric.NamespaceStats {
	return metric.NamespaceStats{}
}
func (s *recSM) EnableTopn(on bool)                    {}
func (s *recSM) ClearTopn()                            {}
func (s *recSM) Start() error                          { return nil }
func (s *recSM) Close()                                {}
func (s *recSM) GetBatchOperator() node.IBatchOperator { return nil }

func genSync(rng *rand.Rand, tier string, emit func(string)) {
	sessions := 300
	if tier == "thorough" {
		sessions = 30000
	}
	for s := 0; s < sessions; s++ {
		emit("reset")
		nc := 1 + rng.Intn(2)
		// the source logs: per cluster a term per index, weakly increasing
		next := make([]int, nc) // sender's resume point
		high := make([]int, nc) // highest index ever sent
		terms := make([][]int, nc)
		for c := range terms {
			t := 1
			terms[c] = []int{0}
			for i := 1; i < 60; i++ {
				if rng.Intn(6) == 0 {
					t++
				}
				terms[c] = append(terms[c], t)
			}
			next[c] = 1
		}
		n := 10 + rng.Intn(50)
		for k := 0; k < n; k++ {
			c := rng.Intn(nc)
			switch r := rng.Intn(20); {
			case r < 11: // next batch in order
				bl := 1 + rng.Intn(3)
				for b := 0; b < bl && next[c] < 59; b++ {
					kind := "normal"
					if rng.Intn(15) == 0 {
						kind = "ignored"
					}
					emit(fmt.Sprintf("ent %d %d %d %s", c, terms[c][next[c]], next[c], kind))
					if next[c] > high[c] {
						high[c] = next[c]
					}
					next[c]++
				}
			case r < 14: // stale re-send of something old (duplicate / retry)
				if high[c] > 0 {
					i := 1 + rng.Intn(high[c])
					emit(fmt.Sprintf("ent %d %d %d normal", c, terms[c][i], i))
				}
			case r < 16: // sender restarts from an earlier position: overlapping batch
				if next[c] > 1 {
					next[c] -= rng.Intn(next[c])
					if next[c] < 1 {
						next[c] = 1
					}
				}
			case r < 17: // arbitrary garbage: older term with a higher index, gaps
				emit(fmt.Sprintf("ent %d %d %d normal", c, rng.Intn(4), rng.Intn(70)))
			case r < 18:
				emit("snap")
			case r < 19:
				emit("restore")
			default:
				emit(fmt.Sprintf("pos %d", c))
			}
		}
		if rng.Intn(12) == 0 {
			emit(fmt.Sprintf("snapfail %d %d %d %d", rng.Intn(3), rng.Intn(30), 1+rng.Intn(3), 1+rng.Intn(60)))
		}
		if rng.Intn(30) == 0 {
			emit(fmt.Sprintf("set %d %d %d", rng.Intn(nc), rng.Intn(4), rng.Intn(40)))
			emit(fmt.Sprintf("ent 0 %d %d normal", rng.Intn(4), rng.Intn(60)))
		}
		emit("data")
	}
}

func newSync(c *Ctx) func(string) string {
	var sm *recSM
	var nd *node.KVNode
	var snapStates map[string]node.SyncedState
	haveSnap := false
	var tail []raftpb.Entry
	lastPos := map[string][2]uint64{}
	raftIdx := uint64(0)
	adminSet := false
	reset := func() {
		sm = &recSM{ignored: map[string]bool{}}
		nd = node.VerifNewBareNode(sm)
		haveSnap, tail, raftIdx, adminSet = false, nil, 0, false
		lastPos = map[string][2]uint64{}
	}
	reset()
	posOf := func(cl string) string {
		t, i, _ := nd.GetRemoteClusterSyncedRaft(cl)
		return fmt.Sprintf("%d,%d", t, i)
	}
	checkIncr := func() {
		// ORACLE at-most-once: per source cluster the applied source indexes are strictly increasing
		last := map[string]int{}
		for _, d := range sm.data {
			var cl string
			var idx int
			p := strings.SplitN(d, ":", 2)
			cl = p[0]
			fmt.Sscan(p[1], &idx)
			if l, ok := last[cl]; ok && idx <= l && !adminSet {
				c.Violation("applied-twice-or-out-of-order", fmt.Sprintf("cluster %s applied source index %d after %d (data %v)", cl, idx, l, sm.data))
			}
			last[cl] = idx
		}
	}
	return func(line string) string {
		f := strings.Fields(line)
		switch f[0] {
		case "reset":
			reset()
			return "ok"
		case "ent":
			var cl string = "c" + f[1]
			var t, i uint64
			fmt.Sscan(f[2], &t)
			fmt.Sscan(f[3], &i)
			payload := "x"
			if f[4] == "ignored" {
				payload = "ignored"
			}
			rl := node.BatchInternalRaftRequest{ReqNum: 1, Type: node.FromClusterSyncer, OrigCluster: cl, OrigTerm: t, OrigIndex: i, Timestamp: 1,
				Reqs: []node.InternalRaftRequest{{Header: node.RequestHeader{ID: 0, DataType: 0}, Data: []byte(payload)}}}
			data, _ := rl.Marshal()
			raftIdx++
			e := raftpb.Entry{Term: 1, Index: raftIdx, Type: raftpb.EntryNormal, Data: data}
			sm.ran = false
			before := lastPos[cl]
			nd.VerifApplyEntry(e, false)
			tail = append(tail, e)
			nt, ni, _ := nd.GetRemoteClusterSyncedRaft(cl)
			// ORACLE: position never moves backwards (index strictly when it moves, term weakly)
			if !adminSet && (ni < before[1] || nt < before[0]) {
				c.Violation("position-moved-backwards", fmt.Sprintf("%s from %v to %d,%d", cl, before, nt, ni))
			}
			// ORACLE: position advanced ⇒ the effect was applied (position after effect)
			if (nt != before[0] || ni != before[1]) && !sm.ran {
				c.Violation("position-advanced-without-effect", line)
			}
			lastPos[cl] = [2]uint64{nt, ni}
			checkIncr()
			r := 0
			if sm.ran {
				r = 1
			}
			return fmt.Sprintf("ran=%d pos=%s", r, posOf(cl))
		case "set":
			var t, i uint64
			fmt.Sscan(f[2], &t)
			fmt.Sscan(f[3], &i)
			nd.SetRemoteClusterSyncedRaft("c"+f[1], t, i, 0)
			adminSet = true // the admin API is excluded from the monotonicity oracles
			lastPos["c"+f[1]] = [2]uint64{t, i}
			return "ok"
		case "snap":
			snapStates = nd.VerifSyncedClone()
			sm.snap = append([]string{}, sm.data...)
			haveSnap = true
			tail = nil
			return "ok"
		case "restore":
			if !haveSnap {
				return "err:nosnap"
			}
			before := append([]string{}, sm.data...)
			beforePos := nd.VerifSyncedClone()
			si := node.KVSnapInfo{RemoteSyncedStates: snapStates}
			d, _ := json.Marshal(si)
			if err := nd.RestoreFromSnapshot(raftpb.Snapshot{Data: d}); err != nil {
				return "err:restore"
			}
			for _, e := range tail { // replay of the local log tail
				nd.VerifApplyEntry(e, true)
			}
			// ORACLE: restart from the snapshot + replay of the tail reproduces exactly the pre-restart pair
			if !adminSet {
				if strings.Join(before, ",") != strings.Join(sm.data, ",") {
					c.Violation("restart-changed-data", fmt.Sprintf("before %v after %v", before, sm.data))
				}
				after := nd.VerifSyncedClone()
				for k, v := range beforePos {
					if a := after[k]; a.SyncedTerm != v.SyncedTerm || a.SyncedIndex != v.SyncedIndex {
						c.Violation("restart-changed-position", fmt.Sprintf("%s before %v after %v", k, v, a))
					}
				}
			}
			for k := range lastPos {
				t, i, _ := nd.GetRemoteClusterSyncedRaft(k)
				lastPos[k] = [2]uint64{t, i}
			}
			checkIncr()
			return "data=[" + strings.Join(sm.data, ",") + "]"
		case "snapfail":
			// a remote-snapshot apply whose restore FAILS (no transferred backup exists), through the REAL kv state
			// machine: the synced position must not move (the entry is "ignored" in the model's terms)
			var t0, i0, t, i uint64
			fmt.Sscan(f[1], &t0)
			fmt.Sscan(f[2], &i0)
			fmt.Sscan(f[3], &t)
			fmt.Sscan(f[4], &i)
			rn, err := openNode("mem", "compact")
			if err != nil {
				return "err:open"
			}
			defer rn.close()
			if t0 != 0 || i0 != 0 {
				rn.vn.Node().SetRemoteClusterSyncedRaft("c0", t0, i0, 0)
			}
			rn.vn.ApplyEvent([]entryT{node.VerifApplyRemoteSnapEntry("c0", t, i, 1)}, false)
			nt, ni, _ := rn.vn.Node().GetRemoteClusterSyncedRaft("c0")
			if nt != t0 || ni != i0 {
				c.Violation("position-advanced-by-failed-snapshot-apply", fmt.Sprintf("%s: position moved from %d,%d to %d,%d although the restore failed", line, t0, i0, nt, ni))
			}
			return fmt.Sprintf("pos=%d,%d", nt, ni)
		case "pos":
			return posOf("c" + f[1])
		case "data":
			return "[" + strings.Join(sm.data, ",") + "]"
		}
		return "bad-op"
	}
}
