package main

import (
	"go/ast"
	"go/parser"
	"go/token"
	"os"
	"path/filepath"
	"sort"
	"strconv"
	"strings"
)

// magicStrings harvests, from the CURRENT source tree (env ZV_REPO, set by bin/check), the string literals the code
// compares error texts or client data with: arguments of strings.HasPrefix / HasSuffix / Contains / EqualFold / Index and
// of == / != comparisons one side of which calls .Error(). They are offered to the generators as argument values
// (a client can send any bytes: a text that the code takes for one of its own error messages must not change its path).
var magicCache []string
var magicDone bool

func magicStrings() []string {
	if !magicDone {
		magicCache = harvestMagic()
		magicDone = true
	}
	return magicCache
}

func harvestMagic() []string {
	repo := os.Getenv("ZV_REPO")
	if repo == "" {
		repo = "/repo"
	}
	set := map[string]bool{}
	for _, dir := range []string{"node", "rockredis", "server", "common"} {
		files, _ := filepath.Glob(filepath.Join(repo, dir, "*.go"))
		for _, f := range files {
			if strings.HasSuffix(f, "_test.go") {
				continue
			}
			fs := token.NewFileSet()
			af, err := parser.ParseFile(fs, f, nil, 0)
			if err != nil {
				continue
			}
			hasErrCall := func(e ast.Expr) bool {
				found := false
				ast.Inspect(e, func(n ast.Node) bool {
					if c, ok := n.(*ast.CallExpr); ok {
						if se, ok := c.Fun.(*ast.SelectorExpr); ok && se.Sel.Name == "Error" && len(c.Args) == 0 {
							found = true
						}
					}
					return true
				})
				return found
			}
			lit := func(e ast.Expr) (string, bool) {
				if bl, ok := e.(*ast.BasicLit); ok && bl.Kind == token.STRING {
					if s, err := strconv.Unquote(bl.Value); err == nil && len(s) >= 4 && len(s) <= 120 {
						return s, true
					}
				}
				return "", false
			}
			ast.Inspect(af, func(n ast.Node) bool {
				switch x := n.(type) {
				case *ast.CallExpr:
					if se, ok := x.Fun.(*ast.SelectorExpr); ok {
						if id, ok := se.X.(*ast.Ident); ok && id.Name == "strings" && len(x.Args) == 2 {
							switch se.Sel.Name {
							case "HasPrefix", "HasSuffix", "Contains", "EqualFold", "Index":
								if hasErrCall(x.Args[0]) {
									if s, ok := lit(x.Args[1]); ok {
										set[s] = true
									}
								}
							}
						}
					}
				case *ast.BinaryExpr:
					if x.Op == token.EQL || x.Op == token.NEQ {
						if s, ok := lit(x.Y); ok && hasErrCall(x.X) {
							set[s] = true
						}
						if s, ok := lit(x.X); ok && hasErrCall(x.Y) {
							set[s] = true
						}
					}
				}
				return true
			})
		}
	}
	var out []string
	for s := range set {
		out = append(out, s)
	}
	sort.Strings(out)
	return out
}
