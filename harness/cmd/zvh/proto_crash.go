package main

import (
	"bufio"
	"flag"
	"fmt"
	"io/ioutil"
	"math/rand"
	"net/http"
	"net/url"
	"os"
	"os/exec"
	"path/filepath"
	"sort"
	"strconv"
	"strings"
	"sync"
	"syscall"
	"time"

	"github.com/youzan/ZanRedisDB/common"
	"github.com/youzan/ZanRedisDB/node"
	"github.com/youzan/ZanRedisDB/rockredis"
	"github.com/youzan/ZanRedisDB/server"
	"github.com/youzan/ZanRedisDB/stats"
	"github.com/youzan/ZanRedisDB/transport/rafthttp"
	"github.com/youzan/ZanRedisDB/wal"
)

// Protocol crash (C06, certificate mode): a data node restarted after a crash serves exactly the acknowledged state.
//
//	run  seed=<n> point=<name> k=<k> writes=<w> [delay=<ms> [slow=1]] [win=<n>] [engine=pebble|mem] [kill=<after acks>] [phase=2|3]
//	run3 seed=<n> point=<name> k=<k> writes=<w> victim=leader|follower [delay=<ms>] [win=<n>] [phase=2]     (proto_crash3.go)
//
// The parent starts a CHILD PROCESS (`zvh child-kvnode …`: a real single-replica node.KVNode with raft, WAL, snapshots
// and checkpoints on a temp dir; small SnapCount and a small WAL segment size so that a run crosses snapshot, compaction
// and WAL-cut boundaries), sends <w> writes over a pipe (at most <win> unanswered, default 1; every write identifiable),
// records which were acknowledged, lets the child die at the k-th hit of the crash point (VERIF_CRASH=<name>:<k>[:<delay>],
// inserted by tools/instrument into copies of the current sources; with a delay the step is slow before the process
// dies) — or kills it with SIGKILL (point=kill: after <kill> acknowledgements plus a random fraction of a write; a point
// that is never reached k times: after the last acknowledgement) —, restarts the child on the same directory, waits
// until it serves, reads the full logical dump and answers ONE line (grammar: crashAnswerGrammar). With phase=2 the first
// life has no crash point and is SIGKILLed after the last acknowledgement, the crash point is armed in the SECOND life
// (points of the recovery path: restore from the checkpoint, WAL replay, WAL / snap file purge) and a third life is dumped.
// With phase=3 there are TWO WRITING lives: the first is SIGKILLed somewhere in its third of the history, the node restarts
// and goes on acknowledging writes on the reopened WAL and engine, the crash under test (point or SIGKILL) happens in this
// second life and the third life is dumped (what the first life left unanswered is reported as optional, like an error reply).
const crashAnswerGrammar = `
answer := "R " sent " " died " " restart { ";" rec }
died    := "point" (exit at the crash point) | "kill" (SIGKILL) ;  restart := "ok" | "failed"
rec     := "W " id " " st " " cmd " " key " " a1 " " a2 " " reply      writes in the order sent (= log order: one client)
         | "D " v0 " " v1 " " v2 " " v3                               dump after the restart (absent if restart failed; run3: one per replica)
         | "F " class                                                the Go oracle reported this run (class of its first violation)
st      := "ack" (answered) | "err" (error reply: may or may not be in the log) | "none" (no reply before the death)
cmd     := set | incr | hset | hincrby | lpush | lpop | sadd ;  key, reply, v0..v3: as in protocol lin
error   := "err " reason
`

func init() {
	register(&Proto{Name: "crash", Gen: genCrash, New: newCrash})
	subcmds["child-kvnode"] = childKVNode
}

// crash points at which a single-voter group has already handed the entry to the apply loop (publishEntries) but has
// not finished writing it to the WAL: DESIGN.md §9 F1
func prePersistPoint(p string) bool {
	switch p {
	case "ready.publish.after", "ready.persist.before", "persist.walsave.before", "persist.savesnap.before", "persist.savesnap.after",
		"wal.entry.after", "wal.state.after", "wal.cut.before", "wal.cut.opened", "wal.cut.crc", "wal.cut.rename.before":
		return true
	}
	return false
}

// How often a point is hit decides which k make sense: once per write / Ready, once per snapshot (every SnapCount = 15
// writes), once per WAL segment cut (every ~30 writes), only while a node restarts on an existing directory (the crash
// then happens in a SECOND life: phase=2), or only when a snapshot arrives from a leader (never in a single-replica group).
func crashPointKind(p string) string {
	switch {
	case strings.HasPrefix(p, "ckpt.capture."):
		return "capture" // a SLOW (not fatal) engine checkpoint, then SIGKILL after the last acknowledgement
	case strings.HasPrefix(p, "wal.cut."), strings.HasPrefix(p, "ckpt.remove."):
		return "long" // needs a longer history: a WAL segment cut, more checkpoints than are kept
	case strings.HasPrefix(p, "snap."), strings.HasPrefix(p, "savesnap."), strings.HasPrefix(p, "ckpt."), p == "apply.beginsnap.after":
		return "persnap"
	case strings.HasPrefix(p, "start."), strings.HasPrefix(p, "restore."), strings.HasPrefix(p, "purge."):
		return "restart"
	case strings.HasPrefix(p, "applysnap."), strings.HasPrefix(p, "persist.savesnap."), p == "ready.applysnap.before", p == "ready.applysnap.after",
		p == "ready.snapsync.after", p == "ready.release.after":
		return "multi"
	}
	return "perwrite"
}

func genCrash(rng *rand.Rand, tier string, emit func(string)) {
	if os.Getenv("CRASH_FOCUS") == "cluster" {
		// C04: kill -9 of the leader / a follower of a 3-process group in the MIDDLE of a history, the client goes on,
		// the victim comes back during or after the history
		runs := 6
		if tier == "thorough" {
			runs = 60
		}
		for i := 0; i < runs; i++ {
			w := 120 + rng.Intn(80)
			l := fmt.Sprintf("run3 seed=%d point=kill k=1 writes=%d victim=%s killat=%d", rng.Intn(1<<30), w, []string{"leader", "follower"}[i%2], 10+rng.Intn(w/2))
			if i%4 < 2 {
				l += " revive=1"
			}
			if i%3 == 2 {
				l += fmt.Sprintf(" win=%d", 2+rng.Intn(4))
			}
			emit(l)
		}
		// a STALLED apply loop on the leader: one entry is applied 4.5 s after it was proposed, i.e. after its proposal
		// timed out (4 s) and was answered with an error; the writes that follow must still get their own replies
		for i := 0; i < map[bool]int{false: 1, true: 4}[tier == "thorough"]; i++ {
			emit(fmt.Sprintf("run3 seed=%d point=apply.entry.before k=%d writes=%d victim=leader delay=4500 slow=1 procs=1", rng.Intn(1<<30), 30+rng.Intn(40), 110+rng.Intn(40)))
		}
		return
	}
	found, _ := node.VerifPoints()
	sort.Strings(found)
	var pts []string
	for _, p := range found {
		if !strings.HasPrefix(p, "trace:") && crashPointKind(p) != "multi" {
			pts = append(pts, p)
		}
	}
	sort.Strings(pts)
	rounds := 1
	if tier == "thorough" {
		rounds = 20
	}
	for r := 0; r < rounds; r++ {
		for _, p := range pts {
			for j := 0; j < 2; j++ {
				k, w, extra := 1+j, 70, ""
				switch crashPointKind(p) {
				case "perwrite":
					// j=0: early (possibly while the group bootstraps), j=1: in the middle of the history, as a SLOW step:
					// the other goroutines keep running for 30 ms before the process dies
					k = []int{3 + rng.Intn(4), 25 + rng.Intn(35)}[j]
					if j == 1 {
						extra = " delay=30"
					}
				case "persnap":
					if r > 0 {
						k = 1 + rng.Intn(4)
					}
				case "capture":
					if p != "ckpt.capture.pebble.before" { // the other engines are not run here
						continue
					}
					// the engine's capture of the k-th checkpoint takes 150 ms longer than the 20 ms after which the
					// apply loop goes on; the node is killed after the last acknowledgement and restarted
					// (history length chosen so that the k-th checkpoint is the LAST one before the kill)
					k, w, extra = 1+j, 22+16*j+rng.Intn(5), " delay=150 slow=1"
				case "long":
					w = 110
				case "restart":
					// hit once per start: always k=1, two different histories
					k, w, extra = 1, []int{70, 45}[j], " phase=2"
				}
				if r > 0 {
					w += rng.Intn(80)
					if r%2 == 1 {
						extra += fmt.Sprintf(" win=%d", 2+rng.Intn(6))
					}
					if r%4 == 3 {
						extra += " engine=mem"
					}
				}
				emit(fmt.Sprintf("run seed=%d point=%s k=%d writes=%d%s", rng.Intn(1<<30), p, k, w, extra))
			}
		}
		// 3-replica groups (three child processes): the window of F1 on a leader and on a follower, the snapshot-receiving
		// path of a follower that was down (phase=2), plain SIGKILL of either
		type r3 struct {
			point, victim   string
			k, delay, phase int
		}
		list3 := []r3{
			{"ready.persist.before", "leader", 150 + rng.Intn(150), 30, 0},
			{"persist.walsave.before", "leader", 150 + rng.Intn(150), 30, 0},
			{"ready.persist.before", "follower", 150 + rng.Intn(150), 30, 0},
			{"applysnap.restore.before", "follower", 1, 0, 2},
			{"applysnap.restore.after", "follower", 1, 0, 2},
			{"kill", "leader", 1, 0, 0},
			{"kill", "leader", 1, 0, 3}, // phase 3 here: kill -9 in the middle of the history, the client moves to the new leader, the victim comes back meanwhile
		}
		if tier == "thorough" {
			for _, p := range found {
				if crashPointKind(p) == "multi" {
					list3 = append(list3, r3{p, "follower", 1, 0, 2})
				}
			}
			for _, p := range []string{"ready.publish.after", "wal.entry.after", "apply.entry.after", "ready.advance.before", "ready.append.after", "snap.savesnap.after"} {
				list3 = append(list3, r3{p, []string{"leader", "follower"}[rng.Intn(2)], 100 + rng.Intn(200), 30 * rng.Intn(2), 0})
			}
			list3 = append(list3, r3{"kill", "follower", 1, 0, 0})
		}
		have := map[string]bool{"kill": true}
		for _, p := range found {
			have[p] = true
		}
		for _, x := range list3 {
			if !have[x.point] { // anchor missing in this tree (listed as crash_points_missing)
				continue
			}
			l := fmt.Sprintf("run3 seed=%d point=%s k=%d writes=%d victim=%s", rng.Intn(1<<30), x.point, x.k, 110+rng.Intn(60), x.victim)
			if x.delay > 0 {
				l += fmt.Sprintf(" delay=%d", x.delay)
			}
			if x.phase == 2 {
				l += " phase=2"
			}
			if x.phase == 3 {
				l += fmt.Sprintf(" killat=%d revive=1", 20+rng.Intn(60))
			}
			if r%2 == 1 {
				l += fmt.Sprintf(" win=%d", 2+rng.Intn(4))
			}
			emit(l)
		}
		// two writing lives (phase=3): SIGKILL in the first, the crash under test in the second (after further
		// acknowledged writes on the reopened WAL / engine), dump of the third
		n3 := 6
		if tier == "thorough" {
			n3 = 14
		}
		perWrite := []string{}
		for _, p := range pts {
			if k := crashPointKind(p); k == "perwrite" || k == "persnap" {
				perWrite = append(perWrite, p)
			}
		}
		for i := 0; i < n3; i++ {
			w := 90 + rng.Intn(90)
			if i%2 == 0 || len(perWrite) == 0 {
				emit(fmt.Sprintf("run seed=%d point=kill k=1 writes=%d kill=%d win=%d phase=3", rng.Intn(1<<30), w, []int{0, 3 + rng.Intn(30)}[rng.Intn(2)], 1+rng.Intn(3)))
			} else {
				p := perWrite[rng.Intn(len(perWrite))]
				k := 1 + rng.Intn(3)
				if crashPointKind(p) == "perwrite" {
					k = 5 + rng.Intn(40)
				}
				emit(fmt.Sprintf("run seed=%d point=%s k=%d writes=%d win=%d phase=3", rng.Intn(1<<30), p, k, w, 1+rng.Intn(3)))
			}
		}
		// a torn WAL tail INSIDE one large Save: the crash point is armed in mid-history and one 300 kB write follows (the page writer
		// has flushed a part of its record when the process dies); the node must come back with every acknowledged write
		for _, p := range []string{"wal.entry.after", "persist.walsave.after"} {
			if have[p] {
				emit(fmt.Sprintf("run seed=%d point=%s k=1 writes=%d big=%d", rng.Intn(1<<30), p, 50+rng.Intn(30), 15+rng.Intn(25)))
			}
		}
		// SIGKILL at arbitrary instants
		nk := 4
		if tier == "thorough" {
			nk = 12
		}
		for i := 0; i < nk; i++ {
			w := 60 + rng.Intn(100)
			emit(fmt.Sprintf("run seed=%d point=kill k=1 writes=%d kill=%d win=%d", rng.Intn(1<<30), w, 5+rng.Intn(w-5), 1+rng.Intn(4)))
		}
	}
}

// ---------------------------------------------------------------------------------------------------------------
// child process

const crashNS = "default-0"

func childKVNode(args []string) {
	fs := flag.NewFlagSet("child-kvnode", flag.ExitOnError)
	dir := fs.String("dir", "", "")
	port := fs.Int("raftport", 0, "")
	engineType := fs.String("engine", "pebble", "")
	snapCount := fs.Int("snap", 15, "")
	walSeg := fs.Int64("walseg", 4000, "")
	serveWait := fs.Int("servewait", 12, "")
	replicas := fs.Int("replicas", 1, "")
	myID := fs.Int("id", 1, "")
	raftPorts := fs.String("raftports", "", "")
	httpPorts := fs.String("httpports", "", "")
	redisPorts := fs.String("redisports", "", "")
	grpcPorts := fs.String("grpcports", "", "")
	fs.Parse(args)
	in := os.NewFile(3, "cmd")
	out := os.NewFile(4, "rsp")
	var omu sync.Mutex
	say := func(s string) {
		omu.Lock()
		out.WriteString(s + "\n") // unbuffered: in the pipe before anything else happens
		omu.Unlock()
	}
	if os.Getenv("VERIF_LOG") == "" {
		q := linQuietLogger{}
		node.SetLogger(common.LOG_ERR, q)
		rockredis.SetLogger(common.LOG_ERR, q)
		rafthttp.SetLogger(common.LOG_ERR, q)
	}
	wal.SegmentSizeBytes = *walSeg
	ints := func(s string) []int {
		var r []int
		for _, x := range strings.Split(s, ",") {
			n, _ := strconv.Atoi(x)
			r = append(r, n)
		}
		return r
	}
	var getNode func() *node.NamespaceNode
	if *replicas == 3 {
		if os.Getenv("VERIF_LOG") == "" {
			server.SetLogger(common.LOG_ERR, linQuietLogger{})
		}
		var err error
		getNode, err = childServer3(*dir, *myID, ints(*raftPorts), ints(*httpPorts), ints(*redisPorts), ints(*grpcPorts), *engineType, *snapCount)
		if err != nil {
			say("fatal init: " + err.Error())
			os.Exit(3)
		}
	} else {
		nn1, err := childNode1(*dir, *port, *engineType, *snapCount)
		if err != nil {
			say("fatal init: " + err.Error())
			os.Exit(3)
		}
		getNode = func() *node.NamespaceNode { return nn1 }
	}
	// serving = started, leader, everything in the log applied
	t0 := time.Now()
	stable := 0
	var last uint64
	for stable < 3 {
		if time.Since(t0) > time.Duration(*serveWait)*time.Second { // a healthy node serves in well under a second
			say(fmt.Sprintf("fatal not serving after %ds", *serveWait))
			os.Exit(4)
		}
		time.Sleep(20 * time.Millisecond)
		nn := getNode()
		if nn == nil || !nn.IsReady() {
			stable = 0
			continue
		}
		if *replicas == 3 {
			// a member of a group serves once it is started and knows a leader; the parent waits for the group to settle
			if nn.Node.GetLeadMember() == nil {
				stable = 0
				continue
			}
			stable++
			last = nn.Node.GetAppliedIndex()
			continue
		}
		if !nn.Node.IsLead() {
			stable = 0
			continue
		}
		ai, ci := nn.Node.GetAppliedIndex(), nn.Node.GetRaftStatus().Commit
		if ai == ci && ai == last && ai > 0 {
			stable++
		} else {
			stable = 0
		}
		last = ai
	}
	say(fmt.Sprintf("ready %d", last))

	tok := func(v interface{}, err error) string {
		if err != nil {
			return "e"
		}
		switch x := v.(type) {
		case nil:
			return "n"
		case int64:
			return "i" + strconv.FormatInt(x, 10)
		case int:
			return "i" + strconv.Itoa(x)
		case []byte:
			if x == nil {
				return "n"
			}
			return "b" + string(x)
		case string:
			return "s" + x
		case error:
			return "e"
		}
		return "e"
	}
	sc := bufio.NewScanner(in)
	sc.Buffer(make([]byte, 1<<16), 1<<20)
	for sc.Scan() {
		f := strings.Fields(sc.Text())
		if len(f) == 0 {
			continue
		}
		nn := getNode()
		if nn == nil {
			if f[0] == "w" {
				say("a " + f[1] + " e")
			} else if f[0] == "stop" {
				os.Exit(0)
			} else {
				say(f[0] + " err not-ready")
			}
			continue
		}
		switch f[0] {
		case "role": // role <leader|follower> <applied> <commit>
			r := "follower"
			if nn.Node.IsLead() {
				r = "leader"
			}
			say(fmt.Sprintf("role %s %d %d", r, nn.Node.GetAppliedIndex(), nn.Node.GetRaftStatus().Commit))
		case "xfer":
			to, _ := strconv.ParseUint(f[1], 10, 64)
			if err := nn.Node.TransferLeadership(to); err != nil {
				say("xfer err " + err.Error())
			} else {
				say("xfer ok")
			}
		case "w": // w <id> <cmd> <args…>   — proposed here, in the order received; answered when applied
			id := f[1]
			if f[2] == "setbig" && len(f) >= 5 { // setbig <key> <size>: a SET with a value of that many bytes (a raft entry, hence a WAL record, of that size)
				sz, _ := strconv.Atoi(f[4])
				f = []string{"w", id, "set", f[3], strings.Repeat("x", sz)}
			}
			cmd := mkCmd(append([]string{f[2], "default:crash:" + f[3]}, f[4:]...)...)
			wh, ok := nn.Node.GetWriteHandler(f[2])
			if !ok {
				say("a " + id + " e")
				continue
			}
			v, err := wh(cmd)
			if fr, isF := v.(*node.FutureRsp); isF && err == nil {
				go func() {
					say("a " + id + " " + tok(fr.WaitRsp()))
				}()
			} else {
				say("a " + id + " " + tok(v, err))
			}
		case "dump":
			cl := &linCluster{}
			d, err := cl.dumpNode(nn, "default:crash:")
			if err != nil {
				say("d err " + strings.ReplaceAll(err.Error(), "\n", " "))
			} else {
				say("d " + d)
			}
		case "stop":
			nn.Close()
			say("stopped")
			os.Exit(0)
		}
	}
	os.Exit(0)
}

// childNode1 starts the single-replica KVNode (as node/*_test.go build it: NamespaceMgr + rafthttp transport, no server).
func childNode1(dir string, port int, engineType string, snapCount int) (*node.NamespaceNode, error) {
	raftAddr := "http://127.0.0.1:" + strconv.Itoa(port)
	replica := node.ReplicaInfo{NodeID: 1, ReplicaID: 1, RaftAddr: raftAddr}
	ts := &stats.TransportStats{}
	ts.Initialize()
	tr := &rafthttp.Transport{DialTimeout: time.Second * 5, ClusterID: "verif-crash", TrStats: ts, PeersStats: stats.NewPeersStats()}
	nsConf := node.NewNSConfig()
	nsConf.Name = crashNS
	nsConf.BaseName = "default"
	nsConf.EngType = rockredis.EngType
	nsConf.PartitionNum = 1
	nsConf.Replicator = 1
	nsConf.SnapCount = snapCount
	nsConf.SnapCatchup = snapCount / 3
	nsConf.RaftGroupConf.GroupID = 1000
	nsConf.RaftGroupConf.SeedNodes = []node.ReplicaInfo{replica}
	nsConf.ExpirationPolicy = common.DefaultExpirationPolicy
	mconf := &node.MachineConfig{BroadcastAddr: "127.0.0.1", LocalRaftAddr: raftAddr, DataRootDir: dir, TickMs: 10, ElectionTick: 5,
		KeepBackup: 2, KeepWAL: 2}
	mconf.RocksDBOpts.EngineType = engineType
	nsMgr := node.NewNamespaceMgr(tr, mconf)
	nn, err := nsMgr.InitNamespaceNode(nsConf, 1, false)
	if err != nil {
		return nil, err
	}
	tr.Raft = nn.Node
	tr.Snapshotter = nn.Node
	tr.Start()
	u, _ := url.Parse(raftAddr)
	stopC := make(chan struct{})
	ln, err := common.NewStoppableListener(u.Host, stopC)
	if err != nil {
		return nil, err
	}
	go (&http.Server{Handler: tr.Handler()}).Serve(ln)
	nsMgr.Start()
	return nn, nil
}

// ---------------------------------------------------------------------------------------------------------------
// parent

var crashStartFailures int

type crashChild struct {
	cmd  *exec.Cmd
	in   *os.File // we write commands
	out  *bufio.Scanner
	outf *os.File
	dead chan struct{}
	werr error
}

func startCrashChild(dir string, port int, engine string, env string, logName string) (*crashChild, error) {
	exe, err := os.Executable()
	if err != nil {
		return nil, err
	}
	cr, cw, err := os.Pipe() // commands: parent writes cw, child reads cr (fd 3)
	if err != nil {
		return nil, err
	}
	rr, rw, err := os.Pipe() // replies: child writes rw (fd 4), parent reads rr
	if err != nil {
		return nil, err
	}
	wait := 12
	if crashStartFailures >= 3 { // a tree on which restarts hang: do not spend 12 s on each of a hundred runs
		wait = 4
	}
	c := exec.Command(exe, "child-kvnode", "-dir", dir, "-raftport", strconv.Itoa(port), "-engine", engine, "-servewait", strconv.Itoa(wait))
	c.ExtraFiles = []*os.File{cr, rw}
	lf, _ := os.Create(filepath.Join(dir, logName))
	c.Stdout, c.Stderr = lf, lf
	armFile := ""
	if i := strings.Index(env, "|ARM="); i >= 0 {
		env, armFile = env[:i], env[i+5:]
	}
	c.Env = append(os.Environ(), "VERIF_CRASH="+env)
	if armFile != "" {
		c.Env = append(c.Env, "VERIF_CRASH_ARM="+armFile)
	}
	if err := c.Start(); err != nil {
		return nil, err
	}
	cr.Close()
	rw.Close()
	if lf != nil {
		lf.Close()
	}
	ch := &crashChild{cmd: c, in: cw, outf: rr, dead: make(chan struct{})}
	ch.out = newLineScanner(rr)
	go func() { ch.werr = c.Wait(); close(ch.dead) }()
	return ch, nil
}

func newLineScanner(f *os.File) *bufio.Scanner {
	sc := bufio.NewScanner(f)
	sc.Buffer(make([]byte, 1<<16), 1<<22)
	return sc
}

// line reads one reply line ("" when the child is gone or silent for too long)
func (ch *crashChild) line(timeout time.Duration) string {
	res := make(chan string, 1)
	go func() {
		if ch.out.Scan() {
			res <- ch.out.Text()
		} else {
			res <- ""
		}
	}()
	select {
	case s := <-res:
		return s
	case <-time.After(timeout):
		return ""
	}
}

func (ch *crashChild) kill() {
	ch.cmd.Process.Signal(syscall.SIGKILL)
	<-ch.dead
	ch.in.Close()
	ch.outf.Close()
}

type crashWrite struct {
	id    int
	spec  specOp
	st    string // ack | err | none
	reply string
}

func genCrashWrites(rng *rand.Rand, n int, win int) []*crashWrite {
	ws := make([]*crashWrite, n)
	for i := range ws {
		w := &crashWrite{id: i + 1, st: "none", reply: "-"}
		x := rng.Intn(100)
		switch {
		case x < 22:
			w.spec = specOp{"set", "k0", strconv.Itoa(1000 * (i + 1)), "-"}
		case x < 40:
			w.spec = specOp{"incr", "k0", "-", "-"}
		case x < 52:
			w.spec = specOp{"hset", "k1", "f" + strconv.Itoa(rng.Intn(4)), strconv.Itoa(i + 1)}
		case x < 62:
			w.spec = specOp{"hincrby", "k1", "f" + strconv.Itoa(4+rng.Intn(2)), strconv.Itoa(1 + rng.Intn(9))}
		case x < 80:
			w.spec = specOp{"lpush", "k2", "v" + strconv.Itoa(i+1), "-"}
		case x < 88 && win <= 1: // LPOP is answered from local state when the list looks empty: sequential clients only
			w.spec = specOp{"lpop", "k2", "-", "-"}
		default:
			w.spec = specOp{"sadd", "k3", "m" + strconv.Itoa(i+1), "-"}
		}
		ws[i] = w
	}
	return ws
}

func newCrash(c *Ctx) func(string) string {
	_, missing := node.VerifPoints()
	for _, m := range missing {
		c.Note("crash_points_missing:" + m)
	}
	return func(line string) string {
		if !strings.HasPrefix(line, "run ") && !strings.HasPrefix(line, "run3 ") {
			return "bad-op"
		}
		a := linKV(line)
		seed, _ := strconv.ParseInt(a["seed"], 10, 64)
		k, _ := strconv.Atoi(a["k"])
		n, _ := strconv.Atoi(a["writes"])
		delay, _ := strconv.Atoi(a["delay"])
		win, _ := strconv.Atoi(a["win"])
		killAfter, _ := strconv.Atoi(a["kill"])
		if win < 1 {
			win = 1
		}
		if n < 1 {
			n = 1
		}
		if k < 1 {
			k = 1
		}
		engine := a["engine"]
		if engine == "" {
			engine = "pebble"
		}
		point := a["point"]
		if point == "" {
			point = "kill"
		}
		phase, _ := strconv.Atoi(a["phase"])
		if a["slow"] == "1" {
			delay = -delay // negative: the step is only slow, the process is not killed at the point
		}
		return retryHarness(c, 3, func() string {
			if strings.HasPrefix(line, "run3 ") {
				role := a["victim"]
				if role != "leader" {
					role = "follower"
				}
				killAt, _ := strconv.Atoi(a["killat"])
				procs, _ := strconv.Atoi(a["procs"])
				return runCrash3(c, seed, point, k, n, delay, win, role, phase, killAt, a["revive"] == "1", procs)
			}
			crashBigAt, _ = strconv.Atoi(a["big"])
			defer func() { crashBigAt = 0 }()
			return runCrash(c, seed, point, k, n, delay, win, killAfter, engine, phase)
		})
	}
}

func runCrash(c *Ctx, seed int64, point string, k, n, delay, win, killAfter int, engine string, phase int) string {
	return runCrashOnce(c, seed, point, k, n, delay, win, killAfter, engine, phase, false)
}

var crashBigAt = 0 // run … big=<acks>: after that many acknowledgements the crash point is armed and ONE untracked 300 kB SET is sent

func runCrashOnce(c *Ctx, seed int64, point string, k, n, delay, win, killAfter int, engine string, phase int, retried bool) string {
	rng := rand.New(rand.NewSource(seed))
	bigAt := crashBigAt
	dir, err := ioutil.TempDir("", "zvh-crash-")
	if err != nil {
		return "err tempdir " + err.Error()
	}
	defer os.RemoveAll(dir)
	ports, err := freePorts(1)
	if err != nil {
		return "err port " + err.Error()
	}
	env, env2, env3 := "", "", ""
	slow := delay < 0
	if slow {
		delay = -delay
	}
	if point != "kill" {
		env = fmt.Sprintf("%s:%d:%d", point, k, delay)
		if slow {
			env += ":slow"
		}
	}
	armFile := ""
	if bigAt > 0 && env != "" {
		armFile = filepath.Join(dir, "arm-crash-point")
		env += "|ARM=" + armFile
	}
	if phase == 2 {
		env, env2 = "", env
	}
	if phase == 3 {
		env, env3 = "", env
	}
	ch, err := startCrashChild(dir, ports[0], engine, env, "child-1.log")
	if err != nil {
		return "err start " + err.Error()
	}
	tag := fmt.Sprintf("seed=%d point=%s k=%d delay=%d slow=%v win=%d engine=%s phase=%d", seed, point, k, delay, slow, win, engine, phase)
	if l := ch.line(20 * time.Second); !strings.HasPrefix(l, "ready") {
		ch.kill()
		if point != "kill" && l == "" {
			// died at the crash point before it ever served (points on the start path): nothing was sent
			c.Note("crash-died-before-serving")
			return crashRestart(c, dir, ports[0], engine, tag, point, nil, "point", win)
		}
		if !retried {
			// a fresh node that does not come up has nothing to do with the crash under test (port taken meanwhile, …)
			c.Note("crash-first-start-retried")
			return runCrashOnce(c, seed, point, k, n, delay, win, killAfter, engine, phase, true)
		}
		c.Violation("harness", "child did not come up: "+l+" "+tailFile(filepath.Join(dir, "child-1.log")))
		return "err child-start " + l
	}
	ws := genCrashWrites(rng, n, win)
	sent, answered := 0, 0
	died := "point"
	// one life of the node: sends ws[sent:upto] (at most win unanswered), until the child dies at its crash point, is
	// SIGKILLed (lifePoint "kill": after lifeKill acknowledgements plus a fraction of a write, or after the last
	// acknowledgement), or everything is answered
	runLife := func(ch *crashChild, logName string, upto int, lifePoint string, lifeKill int, lastLife bool) string {
		// replies are read by one goroutine; the sender keeps at most win writes unanswered
		type rsp struct {
			id    int
			reply string
		}
		acks := make(chan rsp, n+8)
		go func() {
			for ch.out.Scan() {
				f := strings.Fields(ch.out.Text())
				if len(f) == 3 && f[0] == "a" {
					id, _ := strconv.Atoi(f[1])
					acks <- rsp{id, f[2]}
				}
			}
			close(acks)
		}()
		died = "point"
		alive := true
		record := func(r rsp) {
			if r.id < 1 || r.id > len(ws) {
				return // the untracked big write
			}
			w := ws[r.id-1]
			w.reply = r.reply
			if r.reply == "e" {
				w.st, w.reply = "err", "-"
			} else {
				w.st = "ack"
			}
			answered++
		}
		killFrac := time.Duration(rng.Intn(3000)) * time.Microsecond
		answered0 := answered
	loop:
		for alive && (sent < upto || answered < sent) {
			for sent < upto && sent-answered < win {
				w := ws[sent]
				args := []string{"w", strconv.Itoa(w.id), w.spec.Cmd, w.spec.Key}
				if w.spec.A != "-" {
					args = append(args, w.spec.A)
				}
				if w.spec.B != "-" {
					args = append(args, w.spec.B)
				}
				if _, err := ch.in.WriteString(strings.Join(args, " ") + "\n"); err != nil {
					alive = false
					break loop
				}
				sent++
				if armFile != "" && bigAt > 0 && answered >= bigAt {
					// arm the crash point and send ONE untracked write whose raft entry is larger than the WAL page writer's
					// buffer: the process dies inside wal.Save with a part of that record written (a torn tail)
					bigAt = 0
					ioutil.WriteFile(armFile, []byte("x"), 0644)
					ch.in.WriteString("w 0 setbig kbig 300000\n")
					c.Note("crash-big-write-armed")
				}
				if lifePoint == "kill" && lifeKill > 0 && answered-answered0 >= lifeKill {
					time.Sleep(killFrac)
					died = "kill"
					ch.kill()
					alive = false
					break loop
				}
			}
			select {
			case r, ok := <-acks:
				if !ok {
					alive = false
					break loop
				}
				record(r)
			case <-ch.dead:
				alive = false
			case <-time.After(20 * time.Second):
				c.Violation("harness", tag+": child silent for 20s "+tailFile(filepath.Join(dir, logName)))
				ch.kill()
				return "err child-silent"
			}
		}
		if alive {
			// the point was not reached k times (or point=kill without an instant): SIGKILL after the last acknowledgement
			if slow && lastLife {
				c.Note("crash-slow-step:" + point)
				time.Sleep(time.Duration(delay+250) * time.Millisecond) // let the slow step and what follows it (snapshot record) finish
			} else if lifePoint != "kill" && phase != 2 {
				c.Note("crash-point-not-reached:" + point)
			}
			died = "kill"
			ch.kill()
		} else {
			select {
			case <-ch.dead:
			case <-time.After(10 * time.Second):
				ch.kill()
			}
			ch.in.Close()
		}
		// acknowledgements that were already in the pipe when the child died
		for r := range acks {
			record(r)
		}
		ch.outf.Close()
		if died == "point" {
			c.Note("crash-at:" + point)
		}
		return ""
	}
	if phase == 3 {
		// TWO writing lives: the first is SIGKILLed at a random instant of its share of the history, the node restarts on
		// the same directory and goes on serving writes; the crash under test happens in this second life and the THIRD
		// life is dumped. What the first life left unanswered may or may not be in the log (reported like an
		// error-answered write: optional), everything after it follows it in log order.
		n1 := n/3 + rng.Intn(n/3+1)
		if n1 < 1 {
			n1 = 1
		}
		k1 := 0
		if rng.Intn(3) > 0 && n1 > 4 {
			k1 = 2 + rng.Intn(n1-3)
		}
		if e := runLife(ch, "child-1.log", n1, "kill", k1, false); e != "" {
			return e
		}
		for _, w := range ws[:sent] {
			if w.st == "none" {
				w.st, w.reply = "err", "-"
			}
		}
		answered = sent
		c.Note("crash-two-writing-lives")
		ch2, err := startCrashChild(dir, ports[0], engine, env3, "child-1b.log")
		if err != nil {
			return "err start2 " + err.Error()
		}
		if l := ch2.line(20 * time.Second); !strings.HasPrefix(l, "ready") {
			ch2.kill()
			if point != "kill" && l == "" {
				c.Note("crash-died-before-serving")
				return crashRestart(c, dir, ports[0], engine, tag, point, ws[:sent], "point", win)
			}
			crashStartFailures++
			c.Violation("restart-failed", fmt.Sprintf("%s: the node restarted after a SIGKILL does not serve (%s) %s", tag, l, tailFile(filepath.Join(dir, "child-1b.log"))))
			return crashRestart(c, dir, ports[0], engine, tag, point, ws[:sent], "kill", win)
		}
		if e := runLife(ch2, "child-1b.log", n, point, killAfter, true); e != "" {
			return e
		}
		return crashRestart(c, dir, ports[0], engine, tag, point, ws[:sent], died, win)
	}
	if e := runLife(ch, "child-1.log", n, point, killAfter, true); e != "" {
		return e
	}
	if env2 != "" {
		// second life with the crash point armed: dies while recovering (or comes up: the point was not on its way)
		ch2, err := startCrashChild(dir, ports[0], engine, env2, "child-1b.log")
		if err == nil {
			l := ch2.line(20 * time.Second)
			if strings.HasPrefix(l, "ready") {
				c.Note("crash-point-not-reached:" + point)
				ch2.kill()
			} else {
				select {
				case <-ch2.dead:
					if ws, ok := ch2.werr.(*exec.ExitError); ok && ws.ExitCode() == 137 {
						died = "point"
						c.Note("crash-at:" + point)
					} else {
						c.Note("crash-second-life-failed")
					}
					ch2.in.Close()
					ch2.outf.Close()
				case <-time.After(10 * time.Second):
					c.Note("crash-second-life-hung")
					ch2.kill()
				}
			}
		}
	}
	return crashRestart(c, dir, ports[0], engine, tag, point, ws[:sent], died, win)
}

func tailFile(p string) string {
	b, _ := ioutil.ReadFile(p)
	if len(b) > 600 {
		b = b[len(b)-600:]
	}
	return strings.ReplaceAll(string(b), "\n", " | ")
}

func crashRestart(c *Ctx, dir string, port int, engine, tag, point string, ws []*crashWrite, died string, win int) string {
	var sb strings.Builder
	ch, err := startCrashChild(dir, port, engine, "", "child-2.log")
	restart := "ok"
	dump := ""
	if err != nil {
		restart = "failed"
	} else {
		if l := ch.line(20 * time.Second); !strings.HasPrefix(l, "ready") {
			restart = "failed"
			crashStartFailures++
			c.Violation("restart-failed", fmt.Sprintf("%s: the restarted node does not serve (%s) %s", tag, l, tailFile(filepath.Join(dir, "child-2.log"))))
			ch.kill()
		} else {
			ch.in.WriteString("dump\n")
			l := ch.line(30 * time.Second)
			if !strings.HasPrefix(l, "d ") || strings.HasPrefix(l, "d err") {
				restart = "failed"
				c.Violation("restart-failed", fmt.Sprintf("%s: no dump after restart (%s)", tag, l))
				ch.kill()
			} else {
				dump = l[2:]
				ch.in.WriteString("stop\n")
				select {
				case <-ch.dead:
				case <-time.After(15 * time.Second):
					ch.kill()
				}
				ch.in.Close()
				ch.outf.Close()
			}
		}
	}
	// every property violation the oracle reports is also told to the certificate checker (record F): the Lean driver
	// answers "ok" when it AGREES with the oracle (accepts an unflagged run, rejects a flagged one)
	flagged := ""
	viol := func(class, what string) {
		c.Violation(class, what)
		if flagged == "" {
			flagged = class
		}
	}
	if restart != "ok" {
		flagged = "restart-failed"
	}
	fmt.Fprintf(&sb, "R %d %s %s", len(ws), died, restart)
	for _, w := range ws {
		fmt.Fprintf(&sb, ";W %d %s %s %s %s %s %s", w.id, w.st, w.spec.Cmd, w.spec.Key, w.spec.A, w.spec.B, w.reply)
	}
	if restart != "ok" {
		return sb.String() + ";F " + flagged
	}
	fmt.Fprintf(&sb, ";D %s", dump)

	crashOracle(c, viol, tag, ws, dump, died, point, win, 1)
	if flagged != "" {
		fmt.Fprintf(&sb, ";F %s", flagged)
	}
	return sb.String()
}

// crashOracle: the dump is the replay of a prefix of the sent writes (error-answered ones optional) that holds every
// acknowledged one, and the acknowledged replies are the specified ones.
func crashOracle(c *Ctx, viol func(class, what string), tag string, ws []*crashWrite, dump string, died string, point string, win int, replicas int) {
	// ---- oracle: dump = apply of a prefix of the sent writes (error-answered ones optional) holding every acknowledged one
	lastAck := 0
	var errIdx []int
	for i, w := range ws {
		if w.st == "ack" {
			lastAck = i + 1
		}
		if w.st == "err" {
			errIdx = append(errIdx, i)
		}
	}
	if len(errIdx) > 10 {
		c.Note("crash-too-many-error-replies")
		errIdx = errIdx[:10]
	}
	render := func(st specStore) string {
		return strings.Join([]string{st.dumpKey("k0", 'b'), st.dumpKey("k1", 'h'), st.dumpKey("k2", 'l'), st.dumpKey("k3", 'z')}, " ")
	}
	matches := []int{} // prefix lengths that explain the dump
	wrongReply := ""
	for mask := 0; mask < 1<<uint(len(errIdx)); mask++ {
		skip := map[int]bool{}
		for j, i := range errIdx {
			if mask&(1<<uint(j)) != 0 {
				skip[i] = true
			}
		}
		st := specStore{}
		if render(st) == dump {
			matches = append(matches, 0)
		}
		for i, w := range ws {
			if skip[i] {
				continue
			}
			want := st.apply(w.spec)
			if mask == 0 && w.st == "ack" && w.reply != want && wrongReply == "" {
				wrongReply = fmt.Sprintf("write %d (%v) answered %s, the log order gives %s", w.id, w.spec, w.reply, want)
			}
			if render(st) == dump {
				matches = append(matches, i+1)
			}
		}
	}
	if wrongReply != "" {
		viol("wrong-reply", tag+": "+wrongReply)
	}
	best := -1
	for _, m := range matches {
		if m > best {
			best = m
		}
	}
	switch {
	case best >= lastAck:
		c.Note("crash-ok")
		if best < len(ws) {
			c.Note("crash-unacked-tail-dropped")
		}
	case best >= 0:
		cls := "acked-lost"
		if replicas == 1 && lastAck-best <= win {
			// Only the acknowledged TAIL is gone: the entries of the Ready that was being persisted when the process died
			// (at most one per unanswered write of the client window) had already been applied and answered – DESIGN.md
			// §9 F1. Deterministic when the process dies at a point between publishEntries and the end of the WAL write
			// (class …:before-persist); the same loss shows up by timing alone under SIGKILL / a crash point on another
			// goroutine, mostly on the mem engine whose apply is faster than the WAL write (class …:tail).
			// Anything older that is lost is NOT this and stays plain acked-lost.
			if died == "point" && prePersistPoint(point) {
				cls = "acked-lost:single-voter:before-persist"
			} else {
				cls = "acked-lost:single-voter:tail"
			}
		}
		var lost []string
		for _, w := range ws[best:lastAck] {
			if w.st == "ack" {
				lost = append(lost, fmt.Sprintf("%d(%v=>%s)", w.id, w.spec, w.reply))
			}
		}
		viol(cls, fmt.Sprintf("%s died=%s: after the restart the node serves the state after %d of %d sent writes, but write %d was acknowledged; lost: %s; dump {%s}",
			tag, died, best, len(ws), lastAck, strings.Join(lost, " "), dump))
	default:
		// A restore from a checkpoint that holds MORE than its index says, followed by the replay of the log from that
		// index: state = writes 1..c, then writes s+1..p again (s < c <= p) – non-idempotent writes s+1..c applied twice.
		if len(ws) <= 200 {
			pre := []specStore{specStore{}}
			for _, w := range ws {
				n := pre[len(pre)-1].clone()
				n.apply(w.spec)
				pre = append(pre, n)
			}
			for s0 := 0; s0 < len(ws); s0++ {
				for cx := s0 + 1; cx <= len(ws); cx++ {
					st := pre[cx].clone()
					for p := s0; p < len(ws); p++ {
						st.apply(ws[p].spec)
						if p+1 >= cx && p+1 >= lastAck && render(st) == dump {
							viol("double-apply:checkpoint-holds-later-entries", fmt.Sprintf("%s died=%s: the served state is explained by a checkpoint holding writes 1..%d restored as if it held 1..%d, followed by the replay of writes %d..%d: writes %d..%d were applied TWICE (e.g. %d: %v); dump {%s}",
								tag, died, cx, s0, s0+1, p+1, s0+1, cx, ws[s0].id, ws[s0].spec, dump))
							return
						}
					}
				}
			}
		}
		// something that was never sent?
		known := map[string]bool{}
		for _, w := range ws {
			known[w.spec.A] = true
			known[w.spec.B] = true
		}
		phantom := ""
		f := strings.Fields(dump)
		if len(f) == 4 {
			for _, x := range strings.Split(f[2][2:], ",") {
				if x != "" && !known[x] {
					phantom = "list element " + x
				}
			}
			for _, x := range strings.Split(f[3][2:], ",") {
				if x != "" && !known[x] {
					phantom = "set member " + x
				}
			}
		}
		if phantom != "" {
			viol("phantom-write", fmt.Sprintf("%s died=%s: %s was never sent; dump {%s}", tag, died, phantom, dump))
		} else {
			st := specStore{}
			for _, w := range ws[:lastAck] {
				st.apply(w.spec)
			}
			viol("not-a-prefix", fmt.Sprintf("%s died=%s: dump {%s} is the state after no prefix of the %d sent writes (state after the last acknowledged one, %d: {%s})",
				tag, died, dump, len(ws), lastAck, render(st)))
		}
	}
}
