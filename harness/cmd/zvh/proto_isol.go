package main

import (
	"fmt"
	"math/rand"
	"sort"
	"strings"

	"github.com/youzan/ZanRedisDB/common"
)

// C12, operation level: range operations (whole-table delete, clear of a collection, delete of a key) on one
// (type, table, key) leave the logical content of EVERY other (type, table, key) unchanged and remove exactly what
// they address. Oracle-only (the range theorems of Props/C12.lean say which storage keys the ranges hold; here the
// real operations are run on a real store with adversarial table / key names).
//
//	open <eng> <policy>
//	pop <type> <hexraw> [<hexsub>…]
//	deltable <hextable>        whole-table delete (RockDB.DeleteTableRange)
//	clear <type> <hexraw>      hclear / lclear / sclear / zclear / del through the store API
func init() { register(&Proto{Name: "isol", Gen: genIsol, New: newIsol}) }

var isolTypes = []string{"kv", "hash", "list", "set", "zset"}

func genIsol(rng *rand.Rand, tier string, emit func(string)) {
	sessions := 40
	if tier == "thorough" {
		sessions = 2500
	}
	// a table name is what precedes the first ':' of a redis key, so it never contains ':' (keys and members do)
	tables := []string{"t", "t2", "t!", "t0", "tt", "t;", "s", "t\x00", "meta", "t9"}
	keys := []string{"a", "a:b", "t:a", "t2:a", "", "a\x00", "\xff", "ab", "2:a", ":a", ":", ";a", "a;"}
	subs := []string{"m", "", "m:n", "\x00", "\xff\xff", "mm", "n"}
	// big collections: clears above RangeDeleteNum take the range-delete path
	nbig := 1
	if tier == "thorough" {
		nbig = 6
	}
	for s := 0; s < nbig; s++ {
		emit("open pebble local")
		for _, tp := range isolTypes[1:] {
			big := "t:a"
			if rng.Intn(2) == 0 {
				big = "t:t:a"
			}
			for _, sib := range []string{"t:a", "t:t:a", "t:t:t:a", "t:a:", "t2:a", "t:a\x00", "t:", "tt:a"} {
				if sib != big {
					emit(fmt.Sprintf("pop %s %s %s %s", tp, hexs([]byte(sib)), hexs([]byte("m00001")), hexs([]byte("x"))))
				}
			}
			emit(fmt.Sprintf("popn %s %s %d", tp, hexs([]byte(big)), 5001+rng.Intn(300)))
			emit(fmt.Sprintf("clear %s %s", tp, hexs([]byte(big))))
			emit(fmt.Sprintf("pop %s %s %s", tp, hexs([]byte(big)), hexs([]byte("m00001"))))
			emit(fmt.Sprintf("clear %s %s", tp, hexs([]byte("t:t:a"))))
			// exactly at the boundary between the iterate path and the range-delete path of a clear, and one below:
			// clear, re-create with one element, the collection must hold that element only
			for _, n := range []int{5000, 4999} {
				bk := fmt.Sprintf("t:b%d", n)
				emit(fmt.Sprintf("popn %s %s %d", tp, hexs([]byte(bk)), n))
				emit(fmt.Sprintf("clear %s %s", tp, hexs([]byte(bk))))
				emit(fmt.Sprintf("pop %s %s %s", tp, hexs([]byte(bk)), hexs([]byte("zz-after-clear"))))
			}
		}
	}
	for s := 0; s < sessions; s++ {
		eng := "pebble"
		if rng.Intn(3) == 0 {
			eng = "mem"
		}
		pol := "local"
		if rng.Intn(3) == 0 {
			pol = "compact"
		}
		emit(fmt.Sprintf("open %s %s", eng, pol))
		nt := 2 + rng.Intn(4)
		perm := rng.Perm(len(tables))[:nt]
		var pops []string
		for i := 0; i < 10+rng.Intn(25); i++ {
			tp := isolTypes[rng.Intn(5)]
			raw := tables[perm[rng.Intn(nt)]] + ":" + keys[rng.Intn(len(keys))]
			line := fmt.Sprintf("pop %s %s", tp, hexs([]byte(raw)))
			if tp != "kv" {
				for j := 0; j < 1+rng.Intn(5); j++ {
					line += " " + hexs([]byte(subs[rng.Intn(len(subs))]))
				}
			}
			emit(line)
			pops = append(pops, tp+" "+hexs([]byte(raw)))
		}
		for q := 0; q < 6; q++ {
			if rng.Intn(3) == 0 {
				emit("deltable " + hexs([]byte(tables[perm[rng.Intn(nt)]])))
			} else if len(pops) > 0 {
				emit("clear " + pops[rng.Intn(len(pops))])
			}
			// and write again afterwards so that later operations meet re-created data
			if rng.Intn(2) == 0 && len(pops) > 0 {
				emit("pop " + pops[rng.Intn(len(pops))] + " " + hexs([]byte(subs[rng.Intn(len(subs))])))
			}
		}
	}
}

func newIsol(c *Ctx) func(string) string {
	var n *dnode
	known := map[string]bool{} // "type rawkey" ever written
	ts := int64(1600000000000000000)
	closeN := func() {
		if n != nil {
			n.close()
			n = nil
		}
	}
	tOf := map[string]dtype{"kv": tKV, "hash": tHash, "list": tList, "set": tSet, "zset": tZSet}
	snapshot := func() map[string]string {
		out := map[string]string{}
		for k := range known {
			p := strings.SplitN(k, " ", 2)
			out[k] = n.content(tOf[p[0]], append([]byte(dataNS+":"), unhex(p[1])...))
		}
		return out
	}
	tableOf := func(raw []byte) string {
		t, _, err := common.ExtractTable(raw)
		if err != nil {
			return ""
		}
		return string(t)
	}
	return func(line string) string {
		f := strings.Fields(line)
		if f[0] == "open" {
			closeN()
			var err error
			n, err = openNode(f[1], f[2])
			if err != nil {
				return "err:open"
			}
			known = map[string]bool{}
			return "ok"
		}
		if n == nil {
			return "err:not-open"
		}
		ts += 1000
		switch f[0] {
		case "pop":
			raw := unhex(f[2])
			var err error
			beforeC := "?"
			if f[1] != "kv" {
				beforeC = n.content(tOf[f[1]], append([]byte(dataNS+":"), raw...))
			}
			switch f[1] {
			case "kv":
				err = n.kv.KVSet(ts, raw, []byte("v"))
			default:
				for i, hx := range f[3:] {
					m := unhex(hx)
					switch f[1] {
					case "hash":
						_, err = n.kv.HSet(ts, false, raw, m, []byte("v"))
					case "set":
						_, err = n.kv.SAdd(ts, raw, m)
					case "zset":
						_, err = n.kv.ZAdd(ts, raw, common.ScorePair{Score: float64(i), Member: m})
					case "list":
						_, err = n.kv.RPush(ts, raw, m)
					}
					if err != nil {
						break
					}
				}
			}
			if err != nil {
				return "err:" + errClass(err.Error())
			}
			if beforeC == "" {
				// written into an empty / absent / just cleared collection: it must now hold what was written and nothing else
				// (a clear that left element keys behind shows here, when the collection is created again)
				want := len(f[3:])
				if f[1] != "list" {
					seen := map[string]bool{}
					for _, hx := range f[3:] {
						seen[hx] = true
					}
					want = len(seen)
				}
				afterC := n.content(tOf[f[1]], append([]byte(dataNS+":"), raw...))
				got := 0
				if afterC != "" {
					got = strings.Count(afterC, ",") + 1
				}
				if got != want {
					c.Violation("recreated-holds-other-data:"+f[1], fmt.Sprintf("%s: %d element(s) written into an empty %s, it now holds %d: %.300s", line, want, f[1], got, afterC))
				}
			}
			known[f[1]+" "+f[2]] = true
			return "ok"
		case "popn":
			raw := unhex(f[2])
			cnt := 0
			fmt.Sscanf(f[3], "%d", &cnt)
			var err error
			for i := 0; i < cnt && err == nil; i++ {
				m := []byte(fmt.Sprintf("m%05d", i))
				switch f[1] {
				case "hash":
					_, err = n.kv.HSet(ts, false, raw, m, []byte("v"))
				case "set":
					_, err = n.kv.SAdd(ts, raw, m)
				case "zset":
					_, err = n.kv.ZAdd(ts, raw, common.ScorePair{Score: float64(i), Member: m})
				case "list":
					_, err = n.kv.RPush(ts, raw, m)
				}
			}
			if err != nil {
				return "err:" + errClass(err.Error())
			}
			known[f[1]+" "+f[2]] = true
			return "ok"
		case "deltable":
			table := string(unhex(f[1]))
			before := snapshot()
			if err := n.kv.DeleteTableRange(false, table, nil, nil); err != nil {
				return "err:" + errClass(err.Error())
			}
			after := snapshot()
			var ks []string
			for k := range before {
				ks = append(ks, k)
			}
			sort.Strings(ks)
			for _, k := range ks {
				p := strings.SplitN(k, " ", 2)
				own := tableOf(unhex(p[1])) == table
				if own && after[k] != "" {
					c.Violation("table-delete-left-data:"+p[0], fmt.Sprintf("%s: %s %q still holds %s", line, p[0], unhex(p[1]), after[k]))
				}
				if !own && after[k] != before[k] {
					c.Violation("table-delete-touched-other-table:"+p[0], fmt.Sprintf("deleting table %q changed %s %q from [%s] to [%s]", table, p[0], unhex(p[1]), before[k], after[k]))
				}
			}
			return "ok"
		case "clear":
			raw := unhex(f[2])
			before := snapshot()
			var err error
			switch f[1] {
			case "kv":
				_, err = n.kv.DelKeys(raw)
			case "hash":
				_, err = n.kv.HClear(ts, raw)
			case "list":
				_, err = n.kv.LClear(ts, raw)
			case "set":
				_, err = n.kv.SClear(ts, raw)
			case "zset":
				_, err = n.kv.ZClear(ts, raw)
			}
			if err != nil {
				return "err:" + errClass(err.Error())
			}
			after := snapshot()
			self := f[1] + " " + f[2]
			for k := range before {
				p := strings.SplitN(k, " ", 2)
				if k == self {
					if after[k] != "" {
						c.Violation("clear-left-data:"+p[0], fmt.Sprintf("%s: still holds %s", line, after[k]))
					}
					continue
				}
				if after[k] != before[k] {
					c.Violation("clear-touched-other-key:"+f[1]+"->"+p[0], fmt.Sprintf("clearing %s %q changed %s %q from [%s] to [%s]", f[1], raw, p[0], unhex(p[1]), before[k], after[k]))
				}
			}
			return "ok"
		}
		return "bad-op"
	}
}
