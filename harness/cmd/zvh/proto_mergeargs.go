package main

import (
	"fmt"
	"math/rand"
	"strings"

	"github.com/absolute8511/redcon"
)

// C11, merge commands: the handlers registered with RegisterMerge (scan, revscan, advscan, advrevscan, fullscan,
// hidx.from, exists) run inside goroutines of the server's merge layer that have NO recover: a panic there is a crash
// of the whole data node process. Oracle-only: every handler is called on a real KVNode with adversarial argument
// vectors; a panic (caught here by the runner) is a violation of class `panic`.
//
//	open <eng>
//	pop                                     a few keys of every type in table t (so that scans have something to return)
//	m <hexarg0=command> <hexarg>…           → ok | err:<class> | nohandler
func init() { register(&Proto{Name: "mergeargs", Gen: genMergeArgs, New: newMergeArgs}) }

var mergeCmds = []string{"scan", "revscan", "advscan", "advrevscan", "fullscan", "hidx.from", "exists", "SCAN", "HIDX.FROM"}

// mergeArgPools are the adversarial values the merge-command argument vectors are drawn from.
type mergeArgPools struct {
	cursors, types, nums, words, wheres []string
}

func defaultMergeArgPools() mergeArgPools {
	return mergeArgPools{
		cursors: []string{"default:t:", "default:t:a", "default:zz:", "default:t", "default:", "t:", "", ":", "default::", "default:t:\xff", "default:t:a:b"},
		types:   []string{"kv", "hash", "list", "set", "zset", "KV", "bitmap", "", "x"},
		nums:    []string{"0", "1", "2", "10", "-1", "-2", "-9223372036854775808", "9223372036854775807", "4294967296", "+3", "1.5", "", "a", "00", "-0"},
		words:   []string{"count", "match", "COUNT", "MATCH", "where", "limit", "WHERE", "and", "*", "a*", "[", "\\", "?", "**"},
		wheres: []string{"=1", "\"=1\"", "a=1", "\"a=1\"", "a<=", "<=1", "\"<=1\"", ">=", "\">\"", "<", "a>1 and", "\"a>1 and b<2\"", "and", "\"and\"", "\"a=1 and =2\"",
			"\"\"", "\"", "a", "\"a\"", " = ", "\" = \"", "\"a<1 and a>0\"", "\"=\"", "=", "\"a==1\"", "\"<\"", "\" \""},
	}
}

// genMergeArgVector draws one adversarial argument vector (command name + arguments) for a merge command; shared by
// protocol mergeargs (node-level handlers) and protocol srvmerge (the same vectors through Server.serverRedis).
func genMergeArgVector(rng *rand.Rand, p mergeArgPools) (string, []string) {
	pick := func(xs []string) string { return xs[rng.Intn(len(xs))] }
	cmd := pick(mergeCmds)
	var args []string
	lc := strings.ToLower(cmd)
	switch {
	case lc == "hidx.from":
		// hidx.from table where "cond" [limit offset cnt] [fields…]
		args = append(args, pick([]string{"default:t", "default:zz", "default:", "t", ""}))
		for j := rng.Intn(5); j > 0; j-- {
			switch rng.Intn(4) {
			case 0:
				args = append(args, pick(p.words))
			case 1:
				args = append(args, pick(p.nums))
			default:
				args = append(args, pick(p.wheres))
			}
		}
		if rng.Intn(2) == 0 {
			args = append([]string{args[0], "where", pick(p.wheres)}, args[1:]...)
		}
	case strings.HasPrefix(lc, "adv") || lc == "fullscan":
		args = append(args, pick(p.cursors), pick(p.types))
		fallthrough
	default:
		if len(args) == 0 {
			args = append(args, pick(p.cursors))
		}
		for j := rng.Intn(5); j > 0; j-- {
			switch rng.Intn(3) {
			case 0:
				args = append(args, pick(p.words))
			case 1:
				args = append(args, pick(p.nums))
			default:
				args = append(args, "count", pick(p.nums))
			}
		}
	}
	if rng.Intn(12) == 0 && len(args) > 0 { // drop / duplicate an argument
		k := rng.Intn(len(args))
		if rng.Intn(2) == 0 {
			args = append(args[:k:k], args[k+1:]...)
		} else {
			args = append(args, args[k])
		}
	}
	return cmd, args
}

func genMergeArgs(rng *rand.Rand, tier string, emit func(string)) {
	sessions, per := 6, 400
	if tier == "thorough" {
		sessions, per = 40, 5000
	}
	pools := defaultMergeArgPools()
	for s := 0; s < sessions; s++ {
		emit("open " + []string{"mem", "pebble"}[rng.Intn(2)])
		if rng.Intn(3) > 0 {
			emit("pop")
		}
		for i := 0; i < per; i++ {
			cmd, args := genMergeArgVector(rng, pools)
			if len(args) == 0 { // the server's merge layer refuses a merge command without a first argument before dispatching
				args = append(args, pools.cursors[0])
			}
			line := "m " + hexs([]byte(cmd))
			for _, a := range args {
				line += " " + hexs([]byte(a))
			}
			emit(line)
		}
	}
}

func newMergeArgs(c *Ctx) func(string) string {
	var n *dnode
	ts := int64(1600000000000000000)
	return func(line string) string {
		f := strings.Fields(line)
		switch f[0] {
		case "open":
			if n != nil {
				n.close()
				n = nil
			}
			var err error
			n, err = openNode(f[1], "compact")
			if err != nil {
				return "err:open"
			}
			return "ok"
		case "pop":
			if n == nil {
				return "err:not-open"
			}
			for i := 0; i < 6; i++ {
				ts += 1000
				k := []byte(fmt.Sprintf("t:k%d", i))
				n.kv.KVSet(ts, k, []byte("v"))
				n.kv.HSet(ts, false, []byte("t:h"), []byte(fmt.Sprintf("f%d", i)), []byte("v"))
				n.kv.SAdd(ts, []byte("t:s"), []byte(fmt.Sprintf("m%d", i)))
				n.kv.RPush(ts, []byte("t:l"), []byte("e"))
			}
			return "ok"
		case "m":
			if n == nil {
				return "err:not-open"
			}
			var args [][]byte
			for _, x := range f[1:] {
				args = append(args, unhex(x))
			}
			h, _, ok := n.vn.Node().GetMergeHandler(strings.ToLower(string(args[0])))
			if !ok {
				return "nohandler"
			}
			c.Note("merge:" + strings.ToLower(string(args[0])))
			_, err := h(redcon.Command{Args: args})
			if err != nil {
				c.Note("merge-err:" + errClass(err.Error()))
				return "err:" + errClass(err.Error())
			}
			c.Note("merge-ok:" + strings.ToLower(string(args[0])))
			return "ok"
		}
		return "bad-op"
	}
}
