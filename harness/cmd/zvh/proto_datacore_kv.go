package main

import (
	"fmt"
	"math/rand"
)

// datacorekv: the executor of protocol `data` (real KVNode: real leader-side handlers incl. the wall-clock
// pre-checks of setnx / setifeq / delifeq, proposal capture, real apply path, real read handlers) driven by a
// generator restricted to what the executable Lean KV model (lean/ZanVerif/Data/KVExec.lean, driver
// lean/Driver/DataKV.lean) covers: KV commands under policy=compact (value header), one entry per apply event,
// STRICTLY increasing log timestamps, well-formed commands (argument counts right; numeric / option arguments may be
// wrong in value), so that EVERY answer line is compared in diff mode.
// Each session lives in exactly one clock regime (notes/proto_data.md section 4): every stored expiry instant is
// either before 1.7e9 s or after 3.5e9 s, so that wall-clock reads are unambiguous.
func init() { register(&Proto{Name: "datacorekv", Gen: genDataCoreKV, New: newData}) }

var dckvKeys = []string{"default:t:a", "default:t:a:b", "default:tt:a", "default:t:\x00", "default:t:ab", "default:t:\xff"}
var dckvVals = []string{"v", "", "12", "-3", "w\x00", "9223372036854775807", "-9223372036854775808", "9223372036854775806",
	"1.5", "007", "+5", "-0", " 1", "9223372036854775808", "\xff\xfe", "abcdefghij", "1_0", "99999999999999999999x", "-"}
var dckvIdx = []string{"0", "1", "-1", "-2", "2", "5", "-100", "100", "3"}

// dcClock is the strictly increasing log clock shared by datacorekv and datacorettl.
type dcClock struct {
	rng      *rand.Rand
	ts       int64
	expiries []int64 // expiry seconds given so far in this session
}

// step advances the clock: mostly small steps, 15 % onto / around an expiry second given earlier (-1 ns, 0, +1 ns,
// +999 999 999 ns), some second-sized steps so that TTLs of 1-3 s run out inside the session.
func (c *dcClock) step() int64 {
	r := c.rng.Intn(100)
	if r < 15 && len(c.expiries) > 0 {
		e := c.expiries[c.rng.Intn(len(c.expiries))]
		t := e*1e9 + []int64{-1, 0, 1, 999999999, -1000000000}[c.rng.Intn(5)]
		if t > c.ts {
			c.ts = t
			return c.ts
		}
	}
	switch {
	case r < 50:
		c.ts += 1 + c.rng.Int63n(1000)
	case r < 70:
		c.ts += 1 + c.rng.Int63n(1e6)
	case r < 88:
		c.ts += 1 + c.rng.Int63n(1e9)
	default:
		c.ts += 1e9 + c.rng.Int63n(1e9)
	}
	return c.ts
}

// ttl picks a duration argument: 1-3 s, 5 % 2000000000 (year 2084 in the past regime, uint32 overflow in the future
// regime), 4 % {0,-1,-5}; in the past regime 1 % -2000000000 (wraps around uint32 into the far future).
func (c *dcClock) ttl(past bool) string {
	r := c.rng.Intn(100)
	switch {
	case r < 5:
		return "2000000000"
	case r < 9:
		return []string{"0", "-1", "-5"}[c.rng.Intn(3)]
	case r < 10 && past:
		return "-2000000000"
	}
	d := 1 + c.rng.Intn(3)
	c.expiries = append(c.expiries, c.ts/1e9+int64(d), c.ts/1e9+int64(d)+1)
	if len(c.expiries) > 16 {
		c.expiries = c.expiries[len(c.expiries)-16:]
	}
	return fmt.Sprint(d)
}

func dcHex(ss ...string) string {
	out := ""
	for _, s := range ss {
		out += " " + hexs([]byte(s))
	}
	return out
}

func dcOpen(rng *rand.Rand, emit func(string)) (past bool, start int64) {
	eng := "mem"
	if rng.Intn(5) == 0 {
		eng = "pebble"
	}
	past = rng.Intn(100) < 55
	start = dataBaseFuture
	if past {
		start = dataBasePast
	}
	start += rng.Int63n(1e9)
	emit(fmt.Sprintf("open engine=%s policy=compact now=%d sh=", eng, dataNowFixed))
	return
}

// dcKVWrite emits one KV write on key k (and sometimes further keys for del).
func dcKVWrite(rng *rand.Rand, c *dcClock, past bool, ks []string, k string, last map[string]string) string {
	v := func() string {
		x := dckvVals[rng.Intn(len(dckvVals))]
		last[k] = x // rough shadow of the key's value: the expected-value argument of setifeq / delifeq is drawn from it
		return x
	}
	// the expected old value: what was last written (passes the pre-check in the future regime and on keys without
	// TTL), the empty string (passes it on a key the wall clock sees as absent), or a random value
	old := func() string {
		switch r := rng.Intn(10); {
		case r < 5:
			return last[k]
		case r < 8:
			return ""
		}
		return dckvVals[rng.Intn(len(dckvVals))]
	}
	switch r := rng.Intn(100); {
	case r < 14:
		return dcHex("set", k, v())
	case r < 26:
		// SET with options: ex / nx / xx in both cases and orders, a few ill-formed option lists
		switch o := rng.Intn(20); {
		case o < 6:
			return dcHex("set", k, v(), []string{"ex", "EX", "Ex"}[rng.Intn(3)], c.ttl(past))
		case o < 9:
			return dcHex("set", k, v(), []string{"nx", "NX"}[rng.Intn(2)])
		case o < 12:
			return dcHex("set", k, v(), []string{"xx", "XX"}[rng.Intn(2)])
		case o < 14:
			return dcHex("set", k, v(), "ex", c.ttl(past), []string{"nx", "xx"}[rng.Intn(2)])
		case o < 16:
			return dcHex("set", k, v(), []string{"nx", "xx"}[rng.Intn(2)], "ex", c.ttl(past))
		case o < 17:
			return dcHex("set", k, v(), "ex", "2", "ex", c.ttl(past))
		default:
			return dcHex("set", k, v()) + dcOptTail(rng)
		}
	case r < 32:
		return dcHex("setnx", k, v())
	case r < 41:
		d := c.ttl(past)
		if rng.Intn(25) == 0 {
			d = []string{"abc", "", "99999999999999999999", "1.5"}[rng.Intn(4)]
		}
		return dcHex("setex", k, d, v())
	case r < 47:
		if rng.Intn(3) == 0 {
			ex := []string{"ex", "EX"}[rng.Intn(2)]
			d := c.ttl(past)
			if rng.Intn(8) == 0 {
				ex, d = []string{"px", "ex", "ex"}[rng.Intn(3)], []string{"abc", "0", "99999999999999999999"}[rng.Intn(3)]
			}
			return dcHex("setifeq", k, old(), v(), ex, d)
		}
		return dcHex("setifeq", k, old(), v())
	case r < 51:
		return dcHex("delifeq", k, old())
	case r < 56:
		return dcHex("getset", k, v())
	case r < 62:
		return dcHex("incr", k)
	case r < 68:
		d := []string{"1", "-1", "5", "9223372036854775807", "-9223372036854775808", "0", "+7", "abc", "99999999999999999999", ""}[rng.Intn(10)]
		return dcHex("incrby", k, d)
	case r < 75:
		return dcHex("append", k, v())
	case r < 82:
		off := []string{"0", "1", "3", "10", "2", "8388608", "8388607", "-1", "abc", "+2"}[rng.Intn(10)]
		val := v()
		if off == "8388607" {
			val = "xy" // one byte beyond the limit: refused, nothing large is ever stored
		}
		a := dcHex("setrange", k, off, val)
		if rng.Intn(12) == 0 {
			a += dcHex("extra")
		}
		return a
	case r < 89:
		d := c.ttl(past)
		if rng.Intn(25) == 0 {
			d = []string{"abc", "", "99999999999999999999"}[rng.Intn(3)]
		}
		return dcHex("expire", k, d)
	case r < 93:
		return dcHex("persist", k)
	default:
		a := dcHex("del", k)
		for j := rng.Intn(3); j > 0; j-- {
			a += dcHex(ks[rng.Intn(len(ks))]) // may repeat a key
		}
		return a
	}
}

// dcOptTail: an ill-formed (or unusual) option list for SET; the leader-side getExNxXXArgs answers args / ttl
func dcOptTail(rng *rand.Rand) string {
	opts := [][]string{{"nx", "xx"}, {"ex"}, {"px", "3"}, {"ex", "abc"}, {"ex", "0"}, {"nx", "nx"}, {"ex", "99999999999999999999"}, {"ex", "-1", "nx"}, {"xx", "ex", "3", "zz"}}
	return dcHex(opts[rng.Intn(len(opts))]...)
}

func dcKVRead(rng *rand.Rand, ks []string, k string) string {
	other := func() string { return ks[rng.Intn(len(ks))] }
	switch rng.Intn(12) {
	case 0, 1, 2:
		return dcHex("get", k)
	case 3:
		return dcHex("mget", k, other(), other())
	case 4:
		return dcHex("mget", k)
	case 5:
		return dcHex("exists", k)
	case 6:
		return dcHex("exists", k, other(), other())
	case 7:
		return dcHex("strlen", k)
	case 8:
		return dcHex("getrange", k, dckvIdx[rng.Intn(len(dckvIdx))], dckvIdx[rng.Intn(len(dckvIdx))])
	case 9, 10:
		return dcHex("ttl", k)
	default:
		return dcHex("stale.getversion", k)
	}
}

func genDataCoreKV(rng *rand.Rand, tier string, emit func(string)) {
	sessions := 150
	if tier == "thorough" {
		sessions = 6000
	}
	for s := 0; s < sessions; s++ {
		past, start := dcOpen(rng, emit)
		c := &dcClock{rng: rng, ts: start}
		ks := append([]string{}, dckvKeys...)
		rng.Shuffle(len(ks), func(i, j int) { ks[i], ks[j] = ks[j], ks[i] })
		ks = ks[:2+rng.Intn(len(ks)-1)]
		n := 30 + rng.Intn(90)
		last := map[string]string{}
		for i := 0; i < n; i++ {
			k := ks[rng.Intn(len(ks))]
			if rng.Intn(100) < 55 {
				c.step()
				emit(fmt.Sprintf("w %d 1%s", c.ts, dcKVWrite(rng, c, past, ks, k, last)))
				for rng.Intn(3) == 0 {
					emit("r" + dcKVRead(rng, ks, k))
				}
				if rng.Intn(10) == 0 {
					emit("inv")
				}
			} else {
				emit("r" + dcKVRead(rng, ks, k))
			}
			if rng.Intn(40) == 0 {
				emit("dump")
			}
		}
		emit("dump")
		emit("end")
	}
}
