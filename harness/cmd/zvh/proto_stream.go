package main

import (
	"bytes"
	"fmt"
	"io"
	"math/rand"
	"reflect"
	"strings"

	"github.com/youzan/ZanRedisDB/raft/raftpb"
	"github.com/youzan/ZanRedisDB/transport/rafthttp"
)

// C16: the real stream codecs vs the Lean framing + stateful msgappv2 model.
//
//	reset <local> <remote>
//	v2 hb                                                     link heartbeat through the msgappv2 encoder
//	v2 app <wf> <from> <to> <term> <logterm> <index> <commit> <fn.fg.fr.name> <tn.tg.tr.name> <lastidx|-> <payload hex> <ent hex,…|->
//	                                                          → bytes the real encoder wrote for this message (hex)
//	v2dec <k>                                                 decode the first k bytes (k<0: all) of everything the session's v2 encoder wrote
//	m <payload hex>                                           any message through messageEncoder → bytes written
//	mdec <k>                                                  decode the first k bytes of the session's message stream
func init() { register(&Proto{Name: "stream", Gen: genStream, New: newStream}) }

type grp struct{ n, g, r, name uint64 }

func (g grp) pb() raftpb.Group {
	return raftpb.Group{NodeId: g.n, GroupId: g.g, RaftReplicaId: g.r, Name: fmt.Sprintf("ns%d", g.name)}
}

func sum16(b []byte) string {
	s := 0
	for _, x := range b {
		s = (s + int(x)) % 65521
	}
	return fmt.Sprintf("%d:%d", len(b), s)
}

func genStream(rng *rand.Rand, tier string, emit func(string)) {
	sessions := 40
	if tier == "thorough" {
		sessions = 1500
	}
	for s := 0; s < sessions; s++ {
		local, remote := uint64(1+rng.Intn(3)), uint64(4+rng.Intn(3))
		emit(fmt.Sprintf("reset %d %d", local, remote))
		// raft groups sharing this stream: remote node's replicas → local node's replicas
		type gstate struct {
			from, to   grp
			term, next uint64 // next = index of the next entry to send
			commit     uint64
		}
		ng := 1 + rng.Intn(3)
		gs := make([]*gstate, ng)
		// replica ids are small per-partition counters: in half of the sessions all groups use the SAME replica ids
		// (only the group id tells them apart), and the groups start at the same term and index, so that a message of
		// one group can sit exactly where the previous message of another group ended
		sameIDs := rng.Intn(2) == 0
		t0, n0 := uint64(1+rng.Intn(3)), uint64(1+rng.Intn(5))
		for i := range gs {
			gid := uint64(10 + i)
			fr, tr := gid*10+remote, gid*10+local
			if sameIDs {
				fr, tr = remote, local
			}
			gs[i] = &gstate{from: grp{remote, gid, fr, gid}, to: grp{local, gid, tr, gid},
				term: uint64(1 + rng.Intn(3)), next: uint64(1 + rng.Intn(5))}
			if sameIDs {
				gs[i].term, gs[i].next = t0, n0
			}
		}
		nmsg := 5 + rng.Intn(40)
		total := 0
		bigLeft := 0 // entries around the 1 MiB buffer limit: a few per run (each costs 4 MB on the op line)
		if (tier != "thorough" && rng.Intn(10) == 0) || (tier == "thorough" && rng.Intn(50) == 0) {
			bigLeft = 1 + rng.Intn(2)
		}
		// one session per quick run (a few per thorough run): an entry ABOVE the 1 MiB decode buffer inside a compact
		// (continuation) message, with further continuations behind it — the decoder's index bookkeeping across its
		// one-off large buffer
		if (tier != "thorough" && s == 2) || (tier == "thorough" && s%300 == 2) {
			g := gs[0]
			for k, sizes := range [][]int{{3}, {7, 1024*1024 + 1 + rng.Intn(40)}, {5}, {1024*1024 + 1 + rng.Intn(40), 2}, {4, 4}, {}} {
				m := raftpb.Message{Type: raftpb.MsgApp, From: g.from.r, To: g.to.r, FromGroup: g.from.pb(), ToGroup: g.to.pb(),
					Term: g.term, LogTerm: g.term, Index: g.next - 1}
				for _, sz := range sizes {
					data := make([]byte, sz)
					rng.Read(data)
					m.Entries = append(m.Entries, raftpb.Entry{Term: g.term, Index: g.next, Data: data, ID: rng.Uint64(), Timestamp: rng.Int63()})
					g.next++
				}
				if k > 0 {
					g.commit = m.Index
				}
				m.Commit = g.commit
				emit(v2line(&m, 1, g.from, g.to))
				total++
			}
		}
		for i := 0; i < nmsg; i++ {
			if rng.Intn(8) == 0 {
				emit("v2 hb")
				total++
				continue
			}
			g := gs[rng.Intn(ng)]
			wf := 1
			m := raftpb.Message{Type: raftpb.MsgApp, From: g.from.r, To: g.to.r, FromGroup: g.from.pb(), ToGroup: g.to.pb()}
			if sameIDs && ng > 1 && rng.Intn(3) == 0 { // continue exactly where ANOTHER group's last message ended
				o := gs[rng.Intn(ng)]
				g.term, g.next = o.term, o.next
			}
			switch rng.Intn(10) {
			case 0: // term change → full message
				g.term += uint64(1 + rng.Intn(2))
			case 1: // probe: go back (retransmission) → index does not continue
				if g.next > 2 {
					g.next -= uint64(1 + rng.Intn(2))
				}
			}
			m.Term = g.term
			m.LogTerm = g.term
			if rng.Intn(6) == 0 && g.term > 1 {
				m.LogTerm = g.term - 1
			}
			m.Index = g.next - 1
			ne := rng.Intn(4)
			for e := 0; e < ne; e++ {
				sz := rng.Intn(40)
				if bigLeft > 0 && rng.Intn(8) == 0 {
					sz = 1024*1024 - 40 + rng.Intn(60) // around the 1 MiB buffer
					bigLeft--
				}
				data := make([]byte, sz)
				rng.Read(data)
				m.Entries = append(m.Entries, raftpb.Entry{Term: g.term, Index: g.next, Data: data, ID: rng.Uint64(), Timestamp: rng.Int63()})
				g.next++
			}
			if g.commit < m.Index {
				g.commit = m.Index - uint64(rng.Intn(int(m.Index-g.commit)+1))
			}
			m.Commit = g.commit
			if rng.Intn(25) == 0 { // not well-formed on purpose (sender id differs from the group's replica id): model-vs-code only
				m.From = g.from.r + 1000
				wf = 0
			}
			emit(v2line(&m, wf, g.from, g.to))
			total++
		}
		emit("v2dec -1")
		// corrupted (not truncated) length words: the reader must answer with an error, never panic
		for c := 0; c < 3; c++ {
			emit(fmt.Sprintf("v2corrupt %d %d", rng.Intn(total+1), rng.Intn(3)))
		}
		// truncation points
		cuts := 25
		if tier == "thorough" {
			cuts = 120
		}
		for c := 0; c < cuts; c++ {
			emit(fmt.Sprintf("v2dec %d", rng.Intn(1+total*60)))
		}
		// generic message stream: all message types with arbitrary fields
		nm := 3 + rng.Intn(10)
		for i := 0; i < nm; i++ {
			m := raftpb.Message{Type: raftpb.MessageType(rng.Intn(19)), To: rng.Uint64() >> uint(rng.Intn(64)), From: rng.Uint64() >> uint(rng.Intn(64)),
				Term: rng.Uint64() >> uint(rng.Intn(64)), LogTerm: uint64(rng.Intn(9)), Index: rng.Uint64() >> uint(rng.Intn(64)),
				Commit: uint64(rng.Intn(99)), Reject: rng.Intn(2) == 0, RejectHint: uint64(rng.Intn(5))}
			if rng.Intn(2) == 0 {
				m.Context = []byte(fmt.Sprintf("ctx-%d-%d", s, i)) // distinct per message: a decoder that aliases its buffer shows
			}
			if rng.Intn(3) == 0 {
				m.Entries = []raftpb.Entry{{Term: 3, Index: 9, Data: []byte("x")}}
			}
			if rng.Intn(4) == 0 {
				m.Snapshot = raftpb.Snapshot{Data: []byte("snap"), Metadata: raftpb.SnapshotMetadata{Index: 7, Term: 2, ConfState: raftpb.ConfState{Nodes: []uint64{1, 2}}}}
			}
			m.FromGroup = grp{uint64(rng.Intn(5)), uint64(rng.Intn(5)), uint64(rng.Intn(5)), 1}.pb()
			b, _ := m.Marshal()
			emit("m " + hexs(b))
		}
		// a message above the 1 MiB internal buffer on the general stream (different code path), cut densely near its end
		// and right behind its header: a cut that falls on a protobuf field boundary must still be an error
		bigM := (tier != "thorough" && s == 1) || (tier == "thorough" && s%300 == 1) // costly on the Lean side (1 MiB byte lists): one per quick run
		if bigM {
			m := raftpb.Message{Type: raftpb.MsgApp, To: 2, From: 1, Term: 3, LogTerm: 3, Index: 10, Commit: 41,
				FromGroup: grp{1, 7, 1, 7}.pb(), ToGroup: grp{2, 7, 2, 7}.pb()}
			for e := 0; e < 4; e++ {
				data := make([]byte, 263*1024+rng.Intn(100))
				rng.Read(data)
				m.Entries = append(m.Entries, raftpb.Entry{Term: 3, Index: uint64(11 + e), Data: data})
			}
			b, _ := m.Marshal()
			emit("m " + hexs(b))
			emit("mdec -1")
			for back := 1; back <= 64; back++ {
				emit(fmt.Sprintf("mdec -%d", back+1)) // -k-1 = cut k bytes before the end
			}
		}
		emit("mdec -1")
		for c := 0; c < 10; c++ {
			emit(fmt.Sprintf("mdec %d", rng.Intn(1+nm*40)))
		}
	}
}

func v2line(m *raftpb.Message, wf int, from, to grp) string {
	payload, _ := m.Marshal()
	var ents []string
	last := "-"
	for i := range m.Entries {
		b, _ := m.Entries[i].Marshal()
		ents = append(ents, hexs(b))
		last = fmt.Sprint(m.Entries[i].Index)
	}
	es := "-"
	if len(ents) > 0 {
		es = strings.Join(ents, ",")
	}
	return fmt.Sprintf("v2 app %d %d %d %d %d %d %d %d.%d.%d.%d %d.%d.%d.%d %s %s %s", wf, m.From, m.To, m.Term, m.LogTerm, m.Index, m.Commit,
		from.n, from.g, from.r, from.name, to.n, to.g, to.r, to.name, last, hexs(payload), es)
}

func canonMsg(m *raftpb.Message) string {
	var es []string
	for i := range m.Entries {
		b, _ := m.Entries[i].Marshal()
		es = append(es, sum16(b))
	}
	return fmt.Sprintf("m(%d,%d,%d,%d,%d,%d,%d,%d.%d.%d,%d.%d.%d,[%s])", int(m.Type), m.From, m.To, m.Term, m.LogTerm, m.Index, m.Commit,
		m.FromGroup.NodeId, m.FromGroup.GroupId, m.FromGroup.RaftReplicaId, m.ToGroup.NodeId, m.ToGroup.GroupId, m.ToGroup.RaftReplicaId,
		strings.Join(es, ";"))
}

func streamErrClass(err error) string {
	switch {
	case err == io.EOF:
		return "eof"
	case err == io.ErrUnexpectedEOF:
		return "ueof"
	case err == rafthttp.ErrExceedSizeLimit:
		return "toolarge"
	}
	return "err"
}

func newStream(c *Ctx) func(string) string {
	var v2buf, mbuf bytes.Buffer
	var v2enc, menc func(*raftpb.Message) error
	var local, remote uint64
	var sentV2 []raftpb.Message // well-formed session so far?
	allWf := true
	var sentM []raftpb.Message
	reset := func() {
		v2buf.Reset()
		mbuf.Reset()
		v2enc = rafthttp.VerifNewMsgAppV2Encoder(&v2buf)
		menc = rafthttp.VerifNewMessageEncoder(&mbuf)
		sentV2, sentM, allWf = nil, nil, true
	}
	reset()
	normalize := func(m raftpb.Message) raftpb.Message { // nil vs empty slices
		b, _ := m.Marshal()
		var x raftpb.Message
		x.Unmarshal(b)
		return x
	}
	return func(line string) string {
		f := strings.Fields(line)
		switch f[0] {
		case "reset":
			fmt.Sscan(f[1], &local)
			fmt.Sscan(f[2], &remote)
			reset()
			return "ok"
		case "v2":
			var m raftpb.Message
			if f[1] == "hb" {
				m = raftpb.Message{Type: raftpb.MsgHeartbeat}
			} else {
				if err := m.Unmarshal(unhex(f[12])); err != nil {
					return "err:unmarshal"
				}
				if f[2] == "0" {
					allWf = false
				}
			}
			before := v2buf.Len()
			if err := v2enc(&m); err != nil {
				return "err:encode"
			}
			sentV2 = append(sentV2, m)
			return hexs(v2buf.Bytes()[before:])
		case "v2dec", "mdec":
			var k int
			fmt.Sscan(f[1], &k)
			isV2 := f[0] == "v2dec"
			all := mbuf.Bytes()
			sent := sentM
			if isV2 {
				all, sent = v2buf.Bytes(), sentV2
			}
			if k < -1 { // -k-1: cut that many bytes before the end
				k = len(all) + k + 1
				if k < 0 {
					k = 0
				}
			}
			if k < 0 || k > len(all) {
				k = len(all)
			}
			r := bytes.NewReader(all[:k])
			var dec func() (raftpb.Message, error)
			if isV2 {
				dec = rafthttp.VerifNewMsgAppV2Decoder(r, local, remote)
			} else {
				dec = rafthttp.VerifNewMessageDecoder(r)
			}
			var out []string
			var held []raftpb.Message // what raft would still hold while later messages are decoded
			n := 0
			for {
				m, err := dec()
				if err != nil {
					out = append(out, streamErrClass(err))
					// ORACLE: what was decoded is a prefix of what was sent, then an error; the uncut stream gives everything
					if (!isV2 || allWf) && k == len(all) && (n != len(sent) || err != io.EOF) {
						c.Violation("roundtrip-incomplete:"+f[0], fmt.Sprintf("decoded %d of %d messages, then %v", n, len(sent), err))
					}
					break
				}
				held = append(held, m)
				if !isV2 || allWf {
					if n >= len(sent) {
						c.Violation("decoded-extra-message:"+f[0], canonMsg(&m))
					} else if !reflect.DeepEqual(normalize(m), normalize(sent[n])) {
						c.Violation("decoded-differs-from-sent:"+f[0], fmt.Sprintf("#%d got %s want %s", n, canonMsg(&m), canonMsg(&sent[n])))
					}
				}
				if isV2 {
					if rafthttp.VerifIsLinkHeartbeat(&m) {
						out = append(out, "hb")
					} else {
						out = append(out, canonMsg(&m))
					}
				} else {
					b, _ := m.Marshal()
					out = append(out, "p("+sum16(b)+")")
				}
				n++
			}
			// messages handed out earlier must still be what was sent after the whole stream was read (no aliasing of a
			// reused decode buffer)
			if !isV2 || allWf {
				for i := range held {
					if i < len(sent) && !reflect.DeepEqual(normalize(held[i]), normalize(sent[i])) {
						c.Violation("decoded-message-changed-later:"+f[0], fmt.Sprintf("#%d now %s ctx=%q want ctx=%q", i, canonMsg(&held[i]), held[i].Context, sent[i].Context))
						break
					}
				}
			}
			return strings.Join(out, " ")
		case "v2corrupt":
			// overwrite the top byte of a length word of the n-th frame (0: entry count, 1: first entry size,
			// 2: message size) with 0xC0 and decode the whole stream. Not modelled in Lean (answer is not compared
			// beyond "corrupt"); the oracle demands an error instead of a panic.
			var n, which int
			fmt.Sscan(f[1], &n)
			fmt.Sscan(f[2], &which)
			all := append([]byte{}, v2buf.Bytes()...)
			// walk the frames with a fresh real decoder to find frame starts
			starts := []int{}
			{
				r := bytes.NewReader(all)
				dec := rafthttp.VerifNewMsgAppV2Decoder(r, local, remote)
				for {
					starts = append(starts, len(all)-r.Len())
					if _, err := dec(); err != nil {
						break
					}
				}
			}
			done := false
			for i := n; i < len(starts) && !done; i++ {
				p := starts[i]
				if p >= len(all) {
					break
				}
				switch {
				case which == 0 && all[p] == 1 && p+1 < len(all):
					all[p+1] = 0xC0
					done = true
				case which == 1 && all[p] == 1 && p+9+8 < len(all) && (all[p+8] != 0 || all[p+7] != 0 || all[p+6] != 0):
					all[p+9] = 0xC0
					done = true
				case which == 2 && all[p] == 2 && p+1 < len(all):
					all[p+1] = 0xC0
					done = true
				}
			}
			if !done {
				return "corrupt:none"
			}
			res := quiet(func() string {
				r := bytes.NewReader(all)
				dec := rafthttp.VerifNewMsgAppV2Decoder(r, local, remote)
				for i := 0; i < 10000; i++ {
					if _, err := dec(); err != nil {
						return "corrupt:error"
					}
				}
				return "corrupt:noerror"
			})
			if res == "panic" {
				c.Violation(fmt.Sprintf("panic:v2-decoder:corrupt-length-word:%d", which), line+" makes the msgappv2 decoder panic (makeslice: len out of range)")
			}
			if res == "corrupt:noerror" {
				c.Violation("corrupt-stream-accepted", line)
			}
			return "corrupt"
		case "m":
			var m raftpb.Message
			if err := m.Unmarshal(unhex(f[1])); err != nil {
				return "err:unmarshal"
			}
			before := mbuf.Len()
			if err := menc(&m); err != nil {
				return "err:encode"
			}
			sentM = append(sentM, m)
			return hexs(mbuf.Bytes()[before:])
		}
		return "bad-op"
	}
}
