package main

import (
	"fmt"
	"math/rand"
	"strings"
)

// datacoreset: the executor of protocol `data` (real KVNode, real leader-side handlers incl. the sadd/srem/spop
// pre-checks that answer without raft, real apply path) driven by a generator restricted to the SET family under
// the local-deletion layout, one entry per apply event, strictly increasing log time, well-formed commands, so
// that EVERY answer line is compared with the executable Lean storage model (lean/Driver/DataSet.lean over
// lean/ZanVerif/Data/SetExec.lean) in diff mode.
func init() { register(&Proto{Name: "datacoreset", Gen: genDataCoreSet, New: newData}) }

func genDataCoreSet(rng *rand.Rand, tier string, emit func(string)) {
	sessions := 110
	if tier == "thorough" {
		sessions = 5000
	}
	keys := []string{"default:t:s", "default:t:s:x", "default:tt:s", "default:t:\x00", "default:t:ss", "default:t:s\xff"}
	members := []string{"m", "", "n", "m:n", "\x00\xff", "mm", "m\x00", ":", "\xff"}
	counts := []string{"1", "2", "3", "100", "0", "-1", "+2", "007", "5000", "5001"}
	h := func(ss ...string) string {
		out := ""
		for _, s := range ss {
			out += " " + hexs([]byte(s))
		}
		return out
	}
	long := strings.Repeat("L", 10241) // over MaxSubKeyLen: srem reaches the apply-time size check, sadd is rejected by the leader
	for s := 0; s < sessions; s++ {
		eng := "mem"
		if rng.Intn(5) == 0 {
			eng = "pebble"
		}
		emit(fmt.Sprintf("open engine=%s policy=local now=%d sh=", eng, dataNowFixed))
		ts := int64(1600000000000000000) + rng.Int63n(1e9)
		n := 20 + rng.Intn(80)
		ks := keys[:1+rng.Intn(3)]
		if rng.Intn(4) == 0 {
			ks = keys[:2+rng.Intn(len(keys)-1)]
		}
		ms := members[:3+rng.Intn(len(members)-2)]
		// generator-side bookkeeping (members ever added and not removed by srem/sclear; spop is not tracked): ONLY
		// steers srem / sismember towards present members; never used for an answer
		has := map[string][]string{}
		for i := 0; i < n; i++ {
			k := ks[rng.Intn(len(ks))]
			mem := func() string { return ms[rng.Intn(len(ms))] }
			present := func() string {
				if l := has[k]; len(l) > 0 && rng.Intn(10) < 6 {
					return l[rng.Intn(len(l))]
				}
				return mem()
			}
			cnt := func() string {
				if rng.Intn(3) == 0 {
					return counts[rng.Intn(len(counts))]
				}
				return counts[rng.Intn(4)]
			}
			if rng.Intn(100) < 55 {
				ts += 1 + rng.Int63n(1e6)
				var a string
				switch r := rng.Intn(20); {
				case r < 9:
					a = h("sadd", k)
					for j := 0; j < 1+rng.Intn(4); j++ {
						x := mem()
						a += h(x)
						has[k] = append(has[k], x)
					}
					if rng.Intn(4) == 0 { // a member repeated inside one command
						a += h(mem()) + a[strings.LastIndex(a, " "):]
					}
				case r < 14:
					a = h("srem", k)
					for j := 0; j < 1+rng.Intn(3); j++ {
						a += h(present())
					}
					if rng.Intn(5) == 0 {
						a += a[strings.LastIndex(a, " "):]
					}
					if rng.Intn(60) == 0 {
						a += h(long)
					}
				case r < 16:
					a = h("spop", k)
				case r < 19:
					a = h("spop", k, cnt())
				default:
					a = h("sclear", k)
					has[k] = nil
				}
				if rng.Intn(150) == 0 {
					a = h("sadd", k, mem(), long)
				}
				emit(fmt.Sprintf("w %d 1%s", ts, a))
				if rng.Intn(4) == 0 {
					emit("inv")
				}
			} else {
				var a string
				switch rng.Intn(8) {
				case 0:
					a = h("scard", k)
				case 1, 2:
					a = h("sismember", k, present())
				case 3, 4:
					a = h("smembers", k)
				case 5:
					a = h("srandmember", k)
				case 6:
					a = h("srandmember", k, cnt())
				case 7:
					a = h("skeyexist", k)
				}
				emit("r" + a)
			}
		}
		emit("dump")
		emit("end")
	}
}
