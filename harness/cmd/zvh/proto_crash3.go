package main

import (
	"fmt"
	"io/ioutil"
	"math/rand"
	"os"
	"os/exec"
	"path"
	"path/filepath"
	"strconv"
	"strings"
	"syscall"
	"time"

	"github.com/youzan/ZanRedisDB/common"
	"github.com/youzan/ZanRedisDB/node"
	"github.com/youzan/ZanRedisDB/rockredis"
	"github.com/youzan/ZanRedisDB/server"
)

// Protocol crash, 3-replica runs:
//
//	run3 seed=<n> point=<name> k=<k> writes=<w> victim=leader|follower [delay=<ms>] [win=<n>] [phase=2] [killat=<acks> [revive=1]] [procs=<n>]
//
// (killat: the victim is killed with SIGKILL after that many acknowledgements, in the MIDDLE of the history; the client
// goes on writing — to the new leader when the leader was killed; what the dead leader left unanswered is reported as
// optional —; with revive=1 the victim is restarted a fifth of the history later, while the writes go on.)
//
// Three CHILD PROCESSES, each a real server.Server with one replica of the namespace (raft over rafthttp between the
// processes, snapshot transfer between their data directories through the servers' HTTP API + cp, SnapCount 15). The
// crash point is armed in ONE of them, which is first made leader / follower as asked (leadership transfer); a single
// client writes to the leader. A victim that is still alive after the last write is SIGKILLed. With phase=2 (follower
// victims) the victim is SIGKILLed early, the others go on far enough that the victim needs a snapshot, and the crash
// point is armed in its SECOND life (points of the snapshot-receiving path: applysnap.*, persist.savesnap.*, …). Then
// the victim is restarted, the group settles, all three replicas are dumped. Answer: as for `run`, with one D record
// per replica; every replica must serve a prefix of the sent writes that holds every acknowledged one.

// server3 starts the replica of a 3-process group inside a child process.
func childServer3(root string, id int, raftPorts, httpPorts, redisPorts, grpcPorts []int, engineType string, snapCount int) (func() *node.NamespaceNode, error) {
	var seeds []node.ReplicaInfo
	ci := &linFakeCI{}
	for i := 0; i < 3; i++ {
		seeds = append(seeds, node.ReplicaInfo{NodeID: uint64(1 + i), ReplicaID: uint64(1 + i),
			RaftAddr: "http://127.0.0.1:" + strconv.Itoa(raftPorts[i])})
		ci.snapSyncs = append(ci.snapSyncs, common.SnapshotSyncInfo{NodeID: uint64(1 + i), ReplicaID: uint64(1 + i),
			RemoteAddr: "127.0.0.1", HttpAPIPort: strconv.Itoa(httpPorts[i]), DataRoot: path.Join(root, strconv.Itoa(i))})
	}
	d := path.Join(root, strconv.Itoa(id-1))
	os.MkdirAll(d, 0700)
	ioutil.WriteFile(path.Join(d, "myid"), []byte(strconv.Itoa(id)), common.FILE_PERM)
	opts := server.ServerConfig{
		ClusterID: "verif-crash3", DataDir: d, BroadcastAddr: "127.0.0.1", MetricAddr: "127.0.0.1:0", ProfilePort: -1,
		LocalRaftAddr: seeds[id-1].RaftAddr, RedisAPIPort: redisPorts[id-1], HttpAPIPort: httpPorts[id-1], GrpcAPIPort: grpcPorts[id-1],
		TickMs: 100, ElectionTick: 5, KeepBackup: 2, KeepWAL: 2,
	}
	opts.RocksDBOpts.EngineType = engineType
	nsConf := node.NewNSConfig()
	nsConf.Name = crashNS
	nsConf.BaseName = "default"
	nsConf.EngType = rockredis.EngType
	nsConf.PartitionNum = 1
	nsConf.SnapCount = snapCount
	nsConf.SnapCatchup = snapCount / 3
	nsConf.Replicator = 3
	nsConf.RaftGroupConf.GroupID = 1000
	nsConf.RaftGroupConf.SeedNodes = seeds
	nsConf.ExpirationPolicy = common.DefaultExpirationPolicy
	srv, err := server.NewServer(opts)
	if err != nil {
		return nil, err
	}
	srv.GetNsMgr().SetIClusterInfo(ci)
	_, existed := os.Stat(path.Join(d, crashNS))
	if _, err := srv.InitKVNamespace(uint64(id), nsConf, existed == nil); err != nil {
		return nil, err
	}
	srv.Start()
	return func() *node.NamespaceNode { return srv.GetNamespaceFromFullName(crashNS) }, nil
}

// ---------------------------------------------------------------------------------------------------------------

type child3 struct {
	*crashChild
	id    int
	acks  chan [2]string // id, reply token
	other chan string    // every other line
}

func (ch *child3) startReader() {
	ch.acks = make(chan [2]string, 4096)
	ch.other = make(chan string, 64)
	go func() {
		for ch.out.Scan() {
			l := ch.out.Text()
			f := strings.Fields(l)
			if len(f) == 3 && f[0] == "a" {
				ch.acks <- [2]string{f[1], f[2]}
			} else {
				ch.other <- l
			}
		}
		close(ch.acks)
		close(ch.other)
	}()
}

func (ch *child3) ask(cmd string, timeout time.Duration) string {
	if _, err := ch.in.WriteString(cmd + "\n"); err != nil {
		return ""
	}
	select {
	case l := <-ch.other:
		return l
	case <-ch.dead:
		return ""
	case <-time.After(timeout):
		return ""
	}
}

func (ch *child3) waitLine(prefix string, timeout time.Duration) string {
	t := time.After(timeout)
	for {
		select {
		case l, ok := <-ch.other:
			if !ok {
				return ""
			}
			if strings.HasPrefix(l, prefix) || strings.HasPrefix(l, "fatal") {
				return l
			}
		case <-t:
			return ""
		}
	}
}

func (ch *child3) alive() bool {
	select {
	case <-ch.dead:
		return false
	default:
		return true
	}
}

type group3 struct {
	root  string
	ports []int // raft×3, http×3, redis×3, grpc×3
	kids  [3]*child3
	lives [3]int
	procs int // GOMAXPROCS of the children (0 = default)
}

func (g *group3) start(i int, env string) error {
	exe, err := os.Executable()
	if err != nil {
		return err
	}
	cr, cw, err := os.Pipe()
	if err != nil {
		return err
	}
	rr, rw, err := os.Pipe()
	if err != nil {
		return err
	}
	js := func(p []int) string {
		var s []string
		for _, x := range p {
			s = append(s, strconv.Itoa(x))
		}
		return strings.Join(s, ",")
	}
	c := exec.Command(exe, "child-kvnode", "-dir", g.root, "-replicas", "3", "-id", strconv.Itoa(i+1), "-raftports", js(g.ports[0:3]),
		"-httpports", js(g.ports[3:6]), "-redisports", js(g.ports[6:9]), "-grpcports", js(g.ports[9:12]), "-servewait", "25")
	c.ExtraFiles = []*os.File{cr, rw}
	g.lives[i]++
	lf, _ := os.Create(filepath.Join(g.root, fmt.Sprintf("child-%d-%d.log", i+1, g.lives[i])))
	c.Stdout, c.Stderr = lf, lf
	c.Env = append(os.Environ(), "VERIF_CRASH="+env)
	if g.procs > 0 {
		c.Env = append(c.Env, "GOMAXPROCS="+strconv.Itoa(g.procs))
	}
	if err := c.Start(); err != nil {
		return err
	}
	cr.Close()
	rw.Close()
	if lf != nil {
		lf.Close()
	}
	cc := &crashChild{cmd: c, in: cw, outf: rr, dead: make(chan struct{})}
	cc.out = newLineScanner(rr)
	go func() { cc.werr = c.Wait(); close(cc.dead) }()
	k := &child3{crashChild: cc, id: i + 1}
	k.startReader()
	g.kids[i] = k
	return nil
}

func (g *group3) killAll() {
	for _, k := range g.kids {
		if k != nil && k.alive() {
			k.cmd.Process.Signal(syscall.SIGKILL)
			<-k.dead
		}
		if k != nil {
			k.in.Close()
			k.outf.Close()
		}
	}
}

// roles asks every live child; returns leader index (-1: none or several) and applied / commit per child
func (g *group3) roles() (int, [3]uint64, [3]uint64) {
	leader, n := -1, 0
	var ap, co [3]uint64
	for i, k := range g.kids {
		if k == nil || !k.alive() {
			continue
		}
		f := strings.Fields(k.ask("role", 3*time.Second))
		if len(f) >= 4 && f[0] == "role" {
			ap[i], _ = strconv.ParseUint(f[2], 10, 64)
			co[i], _ = strconv.ParseUint(f[3], 10, 64)
			if f[1] == "leader" {
				leader = i
				n++
			}
		}
	}
	if n != 1 {
		leader = -1
	}
	return leader, ap, co
}

func (g *group3) waitLeader(d time.Duration) int {
	t0 := time.Now()
	for time.Since(t0) < d {
		if l, _, _ := g.roles(); l >= 0 {
			return l
		}
		time.Sleep(50 * time.Millisecond)
	}
	return -1
}

func runCrash3(c *Ctx, seed int64, point string, k, n, delay, win int, victimRole string, phase int, killAt int, revive bool, procs int) string {
	rng := rand.New(rand.NewSource(seed))
	root, err := ioutil.TempDir("", "zvh-crash3-")
	if err != nil {
		return "err tempdir " + err.Error()
	}
	defer os.RemoveAll(root)
	ports, err := freePorts(12)
	if err != nil {
		return "err ports " + err.Error()
	}
	g := &group3{root: root, ports: ports, procs: procs}
	defer g.killAll()
	tag := fmt.Sprintf("seed=%d point=%s k=%d delay=%d win=%d victim=%s phase=%d replicas=3", seed, point, k, delay, win, victimRole, phase)
	if killAt > 0 {
		tag += fmt.Sprintf(" killat=%d revive=%v", killAt, revive)
	}
	victim := rng.Intn(3)
	env := ""
	slow := delay < 0 // the step is only slow (the goroutine sleeps at the point), the process is not killed there
	if slow {
		delay = -delay
	}
	if point != "kill" {
		env = fmt.Sprintf("%s:%d:%d", point, k, delay)
		if slow {
			env += ":slow"
			tag += " slow"
		}
	}
	for i := 0; i < 3; i++ {
		e := ""
		if i == victim && phase != 2 {
			e = env
		}
		if err := g.start(i, e); err != nil {
			return "err start " + err.Error()
		}
	}
	for i, kid := range g.kids {
		if l := kid.waitLine("ready", 30*time.Second); !strings.HasPrefix(l, "ready") {
			if i == victim && !kid.alive() {
				c.Note("crash3-victim-died-at-start")
				continue
			}
			c.Violation("harness", fmt.Sprintf("%s: replica %d did not come up: %s %s", tag, i+1, l, tailFile(filepath.Join(root, fmt.Sprintf("child-%d-1.log", i+1)))))
			return "err child-start"
		}
	}
	leader := g.waitLeader(20 * time.Second)
	if leader < 0 {
		c.Violation("harness", tag+": no leader")
		return "err no-leader"
	}
	// give the victim the role asked for
	if g.kids[victim].alive() {
		want := victim
		if victimRole == "follower" {
			want = leader
			if leader == victim {
				want = (victim + 1) % 3
			}
		}
		if want != leader {
			g.kids[leader].ask(fmt.Sprintf("xfer %d", want+1), 5*time.Second)
			t0 := time.Now()
			for time.Since(t0) < 8*time.Second {
				if l, _, _ := g.roles(); l == want {
					break
				}
				time.Sleep(50 * time.Millisecond)
			}
			if leader = g.waitLeader(10 * time.Second); leader < 0 {
				c.Violation("harness", tag+": no leader after the transfer")
				return "err no-leader"
			}
		}
		if (leader == victim) != (victimRole == "leader") {
			c.Note("crash3-role-not-obtained")
		}
	}
	ws := genCrashWrites(rng, n, win)
	if slow && win <= 1 {
		// around the stalled entry (hit k of the point ~ write k-1): a filled list, then value-returning writes whose
		// reply cannot be produced before they are applied (LPOP of a non-empty list), so that a reply handed out early
		// or belonging to another request shows as a wrong reply rather than as an error
		for i := k - 6; i < k+12 && i < len(ws); i++ {
			if i < 0 {
				continue
			}
			switch {
			case i < k-1:
				ws[i].spec = specOp{"lpush", "k2", "v" + strconv.Itoa(i+1), "-"}
			case i >= k && (i-k)%3 != 2:
				ws[i].spec = specOp{"lpop", "k2", "-", "-"}
			case i >= k:
				ws[i].spec = specOp{"lpush", "k2", "v" + strconv.Itoa(i+1), "-"}
			}
		}
	}
	L := g.kids[leader]
	sent, answered := 0, 0
	died := "kill"
	record := func(a [2]string) {
		id, _ := strconv.Atoi(a[0])
		if id < 1 || id > len(ws) {
			return
		}
		w := ws[id-1]
		if a[1] == "e" {
			w.st, w.reply = "err", "-"
		} else {
			w.st, w.reply = "ack", a[1]
		}
		answered++
	}
	victimDead := !g.kids[victim].alive()
	earlyKill := n / 4
	secondLife := false
	revived := false
	killedAtAnswered := 0
	for sent < n || answered < sent {
		if killAt > 0 && !victimDead && answered >= killAt && g.kids[victim].alive() {
			// kill -9 of one replica in the middle of the history; the client goes on (with the new leader, if the leader died)
			time.Sleep(time.Duration(rng.Intn(3000)) * time.Microsecond)
			g.kids[victim].cmd.Process.Signal(syscall.SIGKILL)
			<-g.kids[victim].dead
			victimDead, died = true, "kill"
			killedAtAnswered = answered
			c.Note("crash3-kill9-mid-history:" + map[bool]string{true: "leader", false: "follower"}[victim == leader])
			if victim == leader {
				for a := range L.acks {
					record(a)
				}
				// what the dead leader left unanswered may or may not be in the log; everything sent from now on follows it
				for _, w := range ws[:sent] {
					if w.st == "none" {
						w.st, w.reply = "err", "-"
					}
				}
				answered = sent
				nl := g.waitLeader(25 * time.Second)
				if nl < 0 {
					c.Violation("harness", tag+": no new leader 25 s after the kill of the leader")
					return "err no-leader"
				}
				leader = nl
				L = g.kids[leader]
				c.Note("crash3-client-moved-to-new-leader")
			}
		}
		if killAt > 0 && revive && victimDead && !revived && answered >= killedAtAnswered+n/5 {
			// the killed replica comes back while the writes go on
			g.kids[victim].in.Close()
			g.kids[victim].outf.Close()
			if err := g.start(victim, ""); err == nil {
				revived = true
				c.Note("crash3-revived-mid-history")
			}
		}
		if !L.alive() {
			break
		}
		if !victimDead && !g.kids[victim].alive() {
			victimDead = true
			died = "point"
			c.Note("crash-at:" + point)
			if victim == leader {
				break
			}
		}
		if phase == 2 && !victimDead && answered >= earlyKill && victim != leader {
			g.kids[victim].cmd.Process.Signal(syscall.SIGKILL)
			<-g.kids[victim].dead
			victimDead = true
		}
		for sent < n && sent-answered < win {
			w := ws[sent]
			args := []string{"w", strconv.Itoa(w.id), w.spec.Cmd, w.spec.Key}
			if w.spec.A != "-" {
				args = append(args, w.spec.A)
			}
			if w.spec.B != "-" {
				args = append(args, w.spec.B)
			}
			if _, err := L.in.WriteString(strings.Join(args, " ") + "\n"); err != nil {
				break
			}
			sent++
		}
		select {
		case a, ok := <-L.acks:
			if ok {
				record(a)
			}
		case <-L.dead:
		case <-g.kids[victim].dead:
			if victimDead { // already known: do not spin
				select {
				case a, ok := <-L.acks:
					if ok {
						record(a)
					}
				case <-L.dead:
				case <-time.After(20 * time.Second):
					c.Violation("harness", tag+": leader silent for 20s "+tailFile(filepath.Join(root, fmt.Sprintf("child-%d-%d.log", leader+1, g.lives[leader]))))
					return "err child-silent"
				}
			}
		case <-time.After(20 * time.Second):
			c.Violation("harness", tag+": leader silent for 20s "+tailFile(filepath.Join(root, fmt.Sprintf("child-%d-%d.log", leader+1, g.lives[leader]))))
			return "err child-silent"
		}
	}
	if !L.alive() { // acknowledgements already in the pipe when the leader died
		for a := range L.acks {
			record(a)
		}
		if victim == leader && !victimDead {
			victimDead, died = true, "point"
			c.Note("crash-at:" + point)
		}
	}
	if !victimDead {
		if g.kids[victim].alive() {
			if point != "kill" {
				c.Note("crash-point-not-reached:" + point)
			}
			g.kids[victim].cmd.Process.Signal(syscall.SIGKILL)
		}
		<-g.kids[victim].dead
		victimDead = true
	}
	if !revived {
		g.kids[victim].in.Close()
		g.kids[victim].outf.Close()
	}
	if phase == 2 && env != "" {
		// second life of the victim with the crash point armed: it has to catch up, possibly by a snapshot
		secondLife = true
		if err := g.start(victim, env); err == nil {
			kid := g.kids[victim]
			select {
			case <-kid.dead:
				if ee, ok := kid.werr.(*exec.ExitError); ok && ee.ExitCode() == 137 {
					died = "point"
					c.Note("crash-at:" + point)
				} else {
					c.Note("crash-second-life-failed")
				}
			case <-time.After(12 * time.Second):
				c.Note("crash-point-not-reached:" + point)
				kid.cmd.Process.Signal(syscall.SIGKILL)
				<-kid.dead
			}
			kid.in.Close()
			kid.outf.Close()
		}
	}
	_ = secondLife
	// restart, settle, dump
	restart := "ok"
	flagged := ""
	viol := func(class, what string) {
		c.Violation(class, what)
		if flagged == "" {
			flagged = class
		}
	}
	var startErr error
	if !revived {
		startErr = g.start(victim, "")
	}
	if startErr != nil {
		restart = "failed"
	} else if l := g.kids[victim].waitLine("ready", 30*time.Second); !strings.HasPrefix(l, "ready") {
		restart = "failed"
		viol("restart-failed", fmt.Sprintf("%s: the restarted replica %d does not serve (%s) %s", tag, victim+1, l,
			tailFile(filepath.Join(root, fmt.Sprintf("child-%d-%d.log", victim+1, g.lives[victim])))))
	}
	var dumps []string
	if restart == "ok" {
		t0 := time.Now()
		stable := 0
		var last uint64
		why := ""
		for stable < 3 && time.Since(t0) < 40*time.Second {
			time.Sleep(60 * time.Millisecond)
			l, ap, co := g.roles()
			if l < 0 {
				stable, why = 0, "no single leader"
				continue
			}
			ok := true
			for i := 0; i < 3; i++ {
				if ap[i] != co[l] || co[l] == 0 {
					ok = false
					why = fmt.Sprintf("replica %d applied %d, leader commit %d", i+1, ap[i], co[l])
				}
			}
			if ok && co[l] == last {
				stable++
			} else {
				stable = 0
			}
			last = co[l]
		}
		if stable < 3 {
			restart = "failed"
			viol("restart-failed", fmt.Sprintf("%s: the group does not settle after the restart of replica %d: %s %s", tag, victim+1, why,
				tailFile(filepath.Join(root, fmt.Sprintf("child-%d-%d.log", victim+1, g.lives[victim])))))
		} else {
			for i, kid := range g.kids {
				l := kid.ask("dump", 20*time.Second)
				if !strings.HasPrefix(l, "d ") || strings.HasPrefix(l, "d err") {
					restart = "failed"
					viol("restart-failed", fmt.Sprintf("%s: no dump from replica %d (%s)", tag, i+1, l))
					break
				}
				dumps = append(dumps, l[2:])
			}
		}
	}
	for _, kid := range g.kids {
		if kid.alive() {
			kid.in.WriteString("stop\n")
		}
	}
	for _, kid := range g.kids {
		select {
		case <-kid.dead:
		case <-time.After(6 * time.Second):
		}
	}
	var sb strings.Builder
	fmt.Fprintf(&sb, "R %d %s %s", sent, died, restart)
	for _, w := range ws[:sent] {
		fmt.Fprintf(&sb, ";W %d %s %s %s %s %s %s", w.id, w.st, w.spec.Cmd, w.spec.Key, w.spec.A, w.spec.B, w.reply)
	}
	if restart != "ok" {
		if flagged == "" {
			flagged = "restart-failed"
		}
		return sb.String() + ";F " + flagged
	}
	for _, d := range dumps {
		fmt.Fprintf(&sb, ";D %s", d)
	}
	for i, d := range dumps[1:] {
		if d != dumps[0] {
			viol("replica-diverge", fmt.Sprintf("%s: after the restart replica %d serves {%s}, replica 1 {%s}", tag, i+2, d, dumps[0]))
		}
	}
	for i, d := range dumps {
		crashOracle(c, viol, fmt.Sprintf("%s replica=%d", tag, i+1), ws[:sent], d, died, point, win, 3)
	}
	if flagged != "" {
		fmt.Fprintf(&sb, ";F %s", flagged)
	}
	return sb.String()
}
