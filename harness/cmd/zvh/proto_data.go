package main

// Protocol "data": the Go side of the data-mapping correspondence (DESIGN.md section 7 C07-C11, Appendix A).
//
// Every op line is executed on a REAL node.KVNode whose raft node is a recorder (harness/overlay/node/verif_export_data.go):
//   - a write goes through the registered leader-side handler (node_cmd_reg.go: KVNode.registerHandler; looked up with
//     KVNode.GetWriteHandler / GetMergeHandler exactly as server.handleRedisSingleCmd / doMergeKeysCommand do), which
//     validates, possibly answers locally, and otherwise proposes; the proposed raftpb.Entry is captured, its proposal
//     time is replaced by the op's log timestamp, and it waits in the current apply event;
//   - at an event boundary the buffered entries are handed to the REAL KVNode.applyEntries (shared batch operator,
//     one kvStoreSM.ApplyRaftRequest per entry, CommitBatch at the end) and each client reply is read through the
//     handler's own FutureRsp.WaitRsp and formatted like server.handleRedisWrite;
//   - a read goes through the registered read handler with a recording redcon.Conn.
// The server layer in front of the node (server/redis_api.go, server.go, merge.go) needs a NamespaceMgr with running
// raft groups; the few things it does to a command before the node sees it are re-stated here (marked SERVER-EMU):
// namespace extraction (the real server.GetPKAndHashSum is called), the single-namespace lookup, the read-then-write
// handler lookup order, the merge-keys dispatch of del / exists / plset and the reply formatting switch.
//
// Grammar of op lines and answers: see notes/proto_data.md.

import (
	"bytes"
	"fmt"
	"io/ioutil"
	"net"
	"os"
	"sort"
	"strconv"
	"strings"
	"time"

	"github.com/absolute8511/redcon"
	"github.com/youzan/ZanRedisDB/common"
	"github.com/youzan/ZanRedisDB/engine"
	"github.com/youzan/ZanRedisDB/node"
	"github.com/youzan/ZanRedisDB/raft/raftpb"
	"github.com/youzan/ZanRedisDB/rockredis"
	"github.com/youzan/ZanRedisDB/server"
	"github.com/youzan/ZanRedisDB/slow"
)

const dataNS = "default"

type entryT = raftpb.Entry

func parseRedis(data []byte) ([][]byte, error) {
	cmd, err := redcon.Parse(data)
	if err != nil {
		return nil, err
	}
	return cloneArgs(cmd.Args), nil
}

func init() {
	register(&Proto{Name: "data", Gen: genData, New: newData})
}

// ---------------------------------------------------------------------------------------------------------------
// logging off

type nullLogger struct{}

func (nullLogger) Output(int, string) error        { return nil }
func (nullLogger) OutputErr(int, string) error     { return nil }
func (nullLogger) OutputWarning(int, string) error { return nil }

var dataLogOnce bool

func dataQuiet() {
	if dataLogOnce {
		return
	}
	dataLogOnce = true
	if os.Getenv("ZVH_DATA_LOG") != "" {
		return
	}
	node.SetLogger(0, nullLogger{})
	rockredis.SetLogger(0, nullLogger{})
	engine.SetLogger(0, nullLogger{})
	slow.SetLogger(0, nullLogger{})
}

// ---------------------------------------------------------------------------------------------------------------
// replies

// rv is one RESP value as written by a handler.
type rv struct {
	k   byte // 'e' error, 's' simple string, 'b' bulk, 'i' int, 'a' array, 'n' null, 'r' raw
	b   []byte
	n   int64
	arr []rv
}

// dconn records what a read handler writes.
type dconn struct {
	toks []rv
}

func (c *dconn) RemoteAddr() string     { return "verif" }
func (c *dconn) Close() error           { return nil }
func (c *dconn) WriteError(msg string)  { c.toks = append(c.toks, rv{k: 'e', b: []byte(msg)}) }
func (c *dconn) WriteString(str string) { c.toks = append(c.toks, rv{k: 's', b: []byte(str)}) }
func (c *dconn) WriteBulk(bulk []byte) {
	c.toks = append(c.toks, rv{k: 'b', b: append([]byte{}, bulk...)})
}
func (c *dconn) WriteBulkString(bulk string) { c.toks = append(c.toks, rv{k: 'b', b: []byte(bulk)}) }
func (c *dconn) WriteInt(num int)            { c.toks = append(c.toks, rv{k: 'i', n: int64(num)}) }
func (c *dconn) WriteInt64(num int64)        { c.toks = append(c.toks, rv{k: 'i', n: num}) }
func (c *dconn) WriteArray(count int)        { c.toks = append(c.toks, rv{k: 'a', n: int64(count)}) }
func (c *dconn) WriteNull()                  { c.toks = append(c.toks, rv{k: 'n'}) }
func (c *dconn) WriteRaw(data []byte) {
	c.toks = append(c.toks, rv{k: 'r', b: append([]byte{}, data...)})
}
func (c *dconn) Context() interface{}           { return nil }
func (c *dconn) SetContext(v interface{})       {}
func (c *dconn) SetReadBuffer(bytes int)        {}
func (c *dconn) Detach() redcon.DetachedConn    { return nil }
func (c *dconn) ReadPipeline() []redcon.Command { return nil }
func (c *dconn) PeekPipeline() []redcon.Command { return nil }
func (c *dconn) NetConn() net.Conn              { return nil }
func (c *dconn) Flush() error                   { return nil }

// tree folds the flat token stream into values; ok=false if an array announces more elements than follow.
func (c *dconn) tree() (out []rv, ok bool) {
	pos := 0
	ok = true
	var one func() rv
	one = func() rv {
		t := c.toks[pos]
		pos++
		if t.k == 'a' {
			a := rv{k: 'a'}
			for i := int64(0); i < t.n; i++ {
				if pos >= len(c.toks) {
					ok = false
					break
				}
				a.arr = append(a.arr, one())
			}
			if t.n < 0 {
				a.k = 'n'
			}
			return a
		}
		return t
	}
	for pos < len(c.toks) {
		out = append(out, one())
	}
	return
}

// errClass derives the short stable error token from a message (never the message itself).
var errClassTable = []struct{ sub, class string }{
	{"wrong number", "argc"},
	{"value out of range", "numrange"},
	{"strconv.ParseFloat", "notfloat"},
	{"strconv.", "notint"},
	{"invalid sub key size", "subkeylen"},
	{"invalid key size", "keylen"},
	{"invalid value size", "valuelen"},
	{"invalid zset member size", "memberlen"},
	{"invalid arguments", "args"},
	{"invalid argument", "args"},
	{"invalid expire time", "ttl"},
	{"invalid redis key", "nskey"},
	{"invalid command", "badcmd"},
	{"invalid prefix", "prefix"},
	{"invalid table name length", "tablelen"},
	{"invalid table name", "table"},
	{"table name is invalid", "table"},
	{"invalid range string", "rangestr"},
	{"syntax error", "syntax"},
	{"batch size exceed", "batchsize"},
	{"invalid integer", "notint"},
	{"invalid float64", "notfloat"},
	{"expiration time overflow", "expoverflow"},
	{"change ttl is not supported", "ttlunsupported"},
	{"invalid response type", "badresp"},
	{"invalid count", "count"},
	{"invalid list index", "listindex"},
	{"invalid list sequence", "listseq"},
	{"invalid list meta", "listmeta"},
	{"zset score overflow", "scoreoverflow"},
	{"not a number (nan)", "scorenan"},
	{"namespace is not found", "nons"},
	{"not ready for write", "notready"},
	{"invalide db value", "dbvalue"},
	{"bit offset", "bitoffset"},
	{"bit should be", "bitvalue"},
	{"invalid header meta", "header"},
	{"verif: proposal dropped", "dropped"},
	{"unknown request data type", "unknowndata"},
}

func errClass(msg string) string {
	l := strings.ToLower(msg)
	for _, e := range errClassTable {
		if strings.Contains(l, e.sub) {
			return e.class
		}
	}
	// other:<first three words>, letters and digits only
	for _, p := range []string{"err for ", "err: ", "err ", "invalid index: "} {
		l = strings.TrimPrefix(l, p)
	}
	var ws []string
	for _, w := range strings.Fields(l) {
		var b []byte
		for i := 0; i < len(w); i++ {
			ch := w[i]
			if ch >= 'a' && ch <= 'z' || ch >= '0' && ch <= '9' {
				b = append(b, ch)
			}
		}
		if len(b) > 0 {
			ws = append(ws, string(b))
		}
		if len(ws) == 3 {
			break
		}
	}
	return "other:" + strings.Join(ws, "-")
}

func canonRV(v rv) string {
	switch v.k {
	case 'e':
		return "err:" + errClass(string(v.b))
	case 's':
		return "str:" + string(v.b)
	case 'b':
		return "bulk:" + hexs(v.b)
	case 'i':
		return "int:" + strconv.FormatInt(v.n, 10)
	case 'n':
		return "nil"
	case 'a':
		ps := make([]string, len(v.arr))
		for i, e := range v.arr {
			ps[i] = canonRV(e)
		}
		return "arr:[" + strings.Join(ps, ",") + "]"
	case 'r':
		return "raw:" + hexs(v.b)
	}
	return "?"
}

func canonRVs(vs []rv) string {
	if len(vs) == 0 {
		return "noreply"
	}
	if len(vs) == 1 {
		return canonRV(vs[0])
	}
	ps := make([]string, len(vs))
	for i, e := range vs {
		ps[i] = canonRV(e)
	}
	return "multi:[" + strings.Join(ps, ",") + "]"
}

// writeReply is the switch at the end of server.handleRedisWrite (SERVER-EMU): how a write result reaches the client.
func writeReply(v interface{}, err error) rv {
	if err != nil {
		return rv{k: 'e', b: []byte(err.Error())}
	}
	switch x := v.(type) {
	case error:
		return rv{k: 'e', b: []byte(x.Error())}
	case string:
		return rv{k: 's', b: []byte(x)}
	case int64:
		return rv{k: 'i', n: x}
	case int:
		return rv{k: 'i', n: int64(x)}
	case nil:
		return rv{k: 'n'}
	case []byte:
		return rv{k: 'b', b: x}
	case [][]byte:
		a := rv{k: 'a'}
		for _, d := range x {
			a.arr = append(a.arr, rv{k: 'b', b: d})
		}
		return a
	default:
		return rv{k: 'e', b: []byte("Invalid response type")}
	}
}

// ---------------------------------------------------------------------------------------------------------------
// command classification (harness-side knowledge used by the oracles only, never to compute an answer)

type dtype byte

const (
	tNone dtype = iota
	tKV
	tHash
	tList
	tSet
	tZSet
)

var dtypeName = map[dtype]string{tKV: "kv", tHash: "hash", tList: "list", tSet: "set", tZSet: "zset"}
var dtypeStore = map[dtype]byte{tKV: rockredis.KVType, tHash: rockredis.HashType, tList: rockredis.ListType, tSet: rockredis.SetType, tZSet: rockredis.ZSetType}
var allTypes = []dtype{tKV, tHash, tList, tSet, tZSet}

func cmdType(name string) dtype {
	switch name {
	case "set", "setnx", "setex", "setifeq", "delifeq", "getset", "incr", "incrby", "append", "setrange", "del", "expire",
		"persist", "plset", "get", "mget", "getrange", "strlen", "exists", "ttl", "stale.getversion", "stale.getexpired", "getnolock", "pfadd", "pfcount":
		return tKV
	}
	if strings.HasPrefix(name, "h") {
		return tHash
	}
	if strings.HasPrefix(name, "l") || name == "rpush" || name == "rpop" {
		return tList
	}
	if strings.HasPrefix(name, "z") {
		return tZSet
	}
	if strings.HasPrefix(name, "s") {
		return tSet
	}
	return tNone
}

// membersOf returns the sub-keys a write command adds (for the resurrection monitor) and whether one is repeated.
func membersOf(name string, a [][]byte) (ms [][]byte, dup bool) {
	switch name {
	case "hset", "hsetnx", "hincrby":
		if len(a) > 2 {
			ms = [][]byte{a[2]}
		}
	case "hmset":
		for i := 2; i < len(a); i += 2 {
			ms = append(ms, a[i])
		}
	case "hdel", "srem", "zrem", "sadd":
		if len(a) > 2 {
			ms = a[2:]
		}
	case "zadd":
		for i := 3; i < len(a); i += 2 {
			ms = append(ms, a[i])
		}
	case "zincrby":
		if len(a) > 3 {
			ms = [][]byte{a[3]}
		}
	case "lpush", "rpush":
		if len(a) > 2 {
			ms = a[2:]
		}
	case "lset":
		if len(a) > 3 {
			ms = [][]byte{a[3]}
		}
	}
	seen := map[string]bool{}
	for _, m := range ms {
		if seen[string(m)] {
			dup = true
		}
		seen[string(m)] = true
	}
	if name == "lpush" || name == "rpush" || name == "lset" {
		dup = false
	}
	return
}

func addsMembers(name string) bool {
	switch name {
	case "hset", "hsetnx", "hincrby", "hmset", "sadd", "zadd", "zincrby", "lpush", "rpush", "lset":
		return true
	}
	return false
}

// ---------------------------------------------------------------------------------------------------------------
// one real node + the pending apply event

type dpend struct {
	name  string
	args  [][]byte // as the client sent them
	ts    int64
	ent   raftpb.Entry
	fr    *node.FutureRsp // async handlers
	done  chan dres       // merge (synchronous) handlers: result of the blocked handler goroutine
	merge bool
	line  int
}

type dres struct {
	v   interface{}
	err error
	pan string
}

type dnode struct {
	eng, pol string
	opts     *node.KVOptions
	dir      string
	vn       *node.VerifNode
	kv       *node.KVStore
	replay   bool
}

func openNode(eng, pol string) (*dnode, error) {
	dataQuiet()
	rockredis.VerifRawSkipPrefix = [][]byte{append([]byte{rockredis.KVType}, []byte("t:pf")...)}
	dir, err := ioutil.TempDir("", "zvh-data")
	if err != nil {
		return nil, err
	}
	opts := &node.KVOptions{DataDir: dir, EngType: rockredis.EngType, KeepBackup: 1}
	switch pol {
	case "compact":
		opts.ExpirationPolicy = common.WaitCompact
		opts.DataVersion = common.ValueHeaderV1
	case "local":
		opts.ExpirationPolicy = common.LocalDeletion
	default:
		os.RemoveAll(dir)
		return nil, fmt.Errorf("policy")
	}
	switch eng {
	case "mem":
		// the default radix structure deadlocks with two open write batches (F13); btree queues ops until Commit
		engine.VerifSetMemTypeName("btree")
		opts.RockOpts.EngineType = "mem"
	case "pebble":
		opts.RockOpts.EngineType = "pebble"
	default:
		os.RemoveAll(dir)
		return nil, fmt.Errorf("engine")
	}
	engine.FillDefaultOptions(&opts.RockOpts)
	vn, err := node.NewVerifNode(opts, dataNS+"-0")
	if err != nil {
		os.RemoveAll(dir)
		return nil, err
	}
	return &dnode{eng: eng, pol: pol, opts: opts, dir: dir, vn: vn, kv: vn.Store()}, nil
}

// restart closes the node's store and opens it again on the same directory (a clean restart of the data node: the
// state machine starts from what is on disk, every in-memory cache is gone). Only for persistent engines.
func (n *dnode) restart() error {
	func() {
		defer func() { recover() }()
		n.vn.Close()
	}()
	vn, err := node.NewVerifNode(n.opts, dataNS+"-0")
	if err != nil {
		return err
	}
	n.vn, n.kv = vn, vn.Store()
	return nil
}

func (n *dnode) close() {
	if n == nil {
		return
	}
	func() {
		defer func() { recover() }()
		n.vn.Close()
	}()
	os.RemoveAll(n.dir)
}

func cloneArgs(a [][]byte) [][]byte {
	out := make([][]byte, len(a))
	for i, x := range a {
		out[i] = append([]byte{}, x...)
	}
	return out
}

// read runs a read command through the node's registered read handler (SERVER-EMU for what precedes it).
func (n *dnode) read(args [][]byte) []rv {
	if len(args) == 0 {
		return []rv{{k: 'e', b: []byte("invalid command")}}
	}
	name := strings.ToLower(string(args[0]))
	cmd := common.BuildCommand(cloneArgs(args))
	if common.IsMergeCommand(name) {
		if !common.IsMergeKeysCommand(name) {
			return []rv{{k: 'e', b: []byte("invalid command")}}
		}
		h, isWrite, ok := n.vn.Node().GetMergeHandler(name)
		if !ok || isWrite {
			return []rv{{k: 'e', b: []byte("invalid command")}}
		}
		mc, e := mergePrepare(name, cmd)
		if e != nil {
			return []rv{{k: 'e', b: []byte(e.Error())}}
		}
		v, err := h(mc)
		return mergeFormat(name, mc, v, err)
	}
	ns, _, _, err := server.GetPKAndHashSum(name, cmd)
	if err != nil {
		return []rv{{k: 'e', b: []byte(err.Error())}}
	}
	if ns != dataNS {
		return []rv{{k: 'e', b: []byte(node.ErrNamespaceNotFound.Error())}}
	}
	h, ok := n.vn.Node().GetHandler(name)
	if !ok {
		return []rv{{k: 'e', b: []byte(common.ErrInvalidCommand.Error())}}
	}
	c := &dconn{}
	h(c, cmd)
	t, wf := c.tree()
	if !wf {
		t = append(t, rv{k: 'r', b: []byte("short-array")})
	}
	return t
}

// mergePrepare is server.getHandlersForKeys for a single partition (SERVER-EMU): split keys / values, check that all
// keys carry the same, existing namespace, rebuild the per-node command with the lower-cased name.
func mergePrepare(name string, cmd redcon.Command) (redcon.Command, error) {
	if len(cmd.Args) < 2 {
		return cmd, fmt.Errorf("ERR wrong number of arguments for '%s' command", string(cmd.Args[0]))
	}
	if name == "plset" && len(cmd.Args)%2 == 0 { // fix d9960d0: a key without value is refused
		return cmd, fmt.Errorf("ERR wrong number of arguments for '%s' command", string(cmd.Args[0]))
	}
	orig := cmd.Args[1:]
	keys := orig
	var vals [][]byte
	if name == "plset" {
		keys = nil
		for i := 0; i < len(orig)-1; i += 2 {
			keys = append(keys, orig[i])
			vals = append(vals, orig[i+1])
		}
	}
	// GetMergeHandlers looks at the first raw key before anything else
	ns0, _, err := common.ExtractNamesapce(cmd.Args[1])
	if err != nil {
		return cmd, err
	}
	if ns0 != dataNS {
		return cmd, node.ErrNamespaceNotFound
	}
	out := [][]byte{[]byte(name)}
	namespace := ""
	for i, k := range keys {
		ns, _, err := common.ExtractNamesapce(k)
		if err != nil {
			return cmd, err
		}
		if namespace != "" && ns != namespace {
			return cmd, common.ErrInvalidArgs
		}
		namespace = ns
		if ns != dataNS {
			return cmd, node.ErrNamespaceNotFound
		}
		out = append(out, k)
		if name == "plset" {
			out = append(out, vals[i])
		}
	}
	if len(out) == 1 {
		// no key at all: the server ends with an empty handler list and writes 0 / nothing
		return common.BuildCommand(out), nil
	}
	return common.BuildCommand(out), nil
}

// mergeFormat is the tail of server.doMergeKeysCommand (SERVER-EMU).
func mergeFormat(name string, mc redcon.Command, v interface{}, err error) []rv {
	switch name {
	case "exists", "del":
		if n, ok := v.(int64); ok && err == nil {
			return []rv{{k: 'i', n: n}}
		}
		return []rv{{k: 'i', n: 0}} // an error result of a partition is not an int64 and is not counted
	case "plset":
		var out []rv
		for ci := 1; ci < len(mc.Args); ci += 2 {
			if err != nil {
				out = append(out, rv{k: 'e', b: []byte("ERR :" + err.Error())})
			} else if e2, ok := v.(error); ok {
				out = append(out, rv{k: 'e', b: []byte("ERR :" + e2.Error())})
			} else {
				out = append(out, rv{k: 's', b: []byte("OK")})
			}
		}
		return out
	}
	return []rv{{k: 'e', b: []byte("invalid command")}}
}

// submit runs the leader side of a write. Exactly one of (status "queued" + pending) / (final status) results.
func (n *dnode) submit(c *Ctx, ts int64, args [][]byte, line int) (string, *dpend) {
	if len(args) == 0 {
		return "err:badcmd", nil
	}
	name := strings.ToLower(string(args[0]))
	cmd := common.BuildCommand(cloneArgs(args))
	nd := n.vn.Node()
	n.vn.TakeProposed()
	p := &dpend{name: name, args: args, ts: ts, line: line}
	if common.IsMergeCommand(name) {
		if !common.IsMergeKeysCommand(name) {
			return "err:badcmd", nil
		}
		h, isWrite, ok := nd.GetMergeHandler(name)
		if !ok || !isWrite {
			return "err:badcmd", nil
		}
		mc, e := mergePrepare(name, cmd)
		if e != nil {
			return "err:" + errClass(e.Error()), nil
		}
		if len(mc.Args) < 2 {
			return "local:" + canonRVs(mergeFormat(name, mc, nil, fmt.Errorf("no handler"))), nil
		}
		p.merge = true
		p.done = make(chan dres, 1)
		p.args = mc.Args
		hc := common.BuildCommand(cloneArgs(mc.Args))
		go func() {
			var r dres
			defer func() {
				if x := recover(); x != nil {
					r.pan = strings.SplitN(fmt.Sprint(x), "\n", 2)[0]
				}
				p.done <- r
			}()
			r.v, r.err = h(hc)
		}()
		select {
		case r := <-p.done:
			// answered (or rejected) without a proposal
			if r.pan != "" {
				c.Violation("panic:"+name+":leader", hexLine(args)+" => "+r.pan)
				return "panic:" + r.pan, nil
			}
			return "local:" + canonRVs(mergeFormat(name, mc, r.v, r.err)), nil
		case <-n.vn.ProposedCh():
		case <-time.After(10 * time.Second):
			c.Violation("hang:"+name+":leader", hexLine(args))
			return "hang", nil
		}
	} else {
		// SERVER-EMU: redis_api.go serverRedis / server.go handleRedisSingleCmd
		ns, _, _, err := server.GetPKAndHashSum(name, cmd)
		if err != nil {
			return "err:" + errClass(err.Error()), nil
		}
		if ns != dataNS {
			return "err:" + errClass(node.ErrNamespaceNotFound.Error()), nil
		}
		if _, isRead := nd.GetHandler(name); isRead {
			return "err:badcmd", nil // a read command on a w line: the harness keeps reads on r lines
		}
		h, ok := nd.GetWriteHandler(name)
		if !ok {
			return "err:badcmd", nil
		}
		v, err := h(cmd)
		if err != nil {
			if len(n.vn.TakeProposed()) != 0 {
				c.Violation("proposed-and-rejected:"+name, hexLine(args))
			}
			return "err:" + errClass(err.Error()), nil
		}
		fr, isFuture := v.(*node.FutureRsp)
		if !isFuture {
			if len(n.vn.TakeProposed()) != 0 {
				c.Violation("proposed-and-answered:"+name, hexLine(args))
			}
			return "local:" + canonRV(writeReply(v, nil)), nil
		}
		p.fr = fr
	}
	ents := n.vn.TakeProposed()
	if len(ents) != 1 {
		c.Violation("proposal-count:"+name, fmt.Sprintf("%s proposed %d entries", hexLine(args), len(ents)))
		if len(ents) == 0 {
			return "err:noproposal", nil
		}
	}
	p.ent = ents[0]
	if err := node.VerifSetEntryTimestamp(&p.ent, ts); err != nil {
		return "err:entry", nil
	}
	return "queued", p
}

// finish reads the client's reply of a pending write after its event was applied on the main node.
func (n *dnode) finish(c *Ctx, p *dpend) []rv {
	if p.merge {
		select {
		case r := <-p.done:
			if r.pan != "" {
				c.Violation("panic:"+p.name+":reply", hexLine(p.args)+" => "+r.pan)
				return []rv{{k: 'r', b: []byte("panic")}}
			}
			return mergeFormat(p.name, redcon.Command{Args: p.args}, r.v, r.err)
		case <-time.After(10 * time.Second):
			c.Violation("no-reply:"+p.name, hexLine(p.args))
			return []rv{{k: 'r', b: []byte("noreply")}}
		}
	}
	v, err := p.fr.WaitRsp()
	return []rv{writeReply(v, err)}
}

func hexLine(args [][]byte) string {
	ps := make([]string, len(args))
	for i, a := range args {
		if len(a) > 40 {
			ps[i] = fmt.Sprintf("%x…(%d bytes)", a[:16], len(a))
		} else if isPrintable(a) {
			ps[i] = string(a)
		} else {
			ps[i] = "0x" + hexs(a)
		}
	}
	return strings.Join(ps, " ")
}

func isPrintable(b []byte) bool {
	if len(b) == 0 {
		return false
	}
	for _, c := range b {
		if c < 0x21 || c > 0x7e {
			return false
		}
	}
	return true
}

// applyShadow applies entries (copies) as one event on a shadow node and returns the raw result per entry.
func (n *dnode) applyShadow(ps []*dpend, packed bool) []interface{} {
	ents := make([]raftpb.Entry, len(ps))
	type reg interface {
		GetResult() interface{}
		WaitC() <-chan struct{}
	}
	regs := make([]reg, len(ps))
	for i, p := range ps {
		ents[i] = p.ent
		ents[i].Data = append([]byte{}, p.ent.Data...)
		rl, err := node.VerifEntryReqs(p.ent)
		if err == nil && len(rl.Reqs) == 1 {
			regs[i] = n.vn.Register(rl.Reqs[0].Header.ID)
		}
	}
	if packed && len(ents) > 1 {
		pe, err := node.VerifPackEntries(ents)
		if err == nil {
			ents = []raftpb.Entry{pe}
		}
	}
	n.vn.ApplyEvent(ents, n.replay)
	out := make([]interface{}, len(ps))
	for i := range ps {
		if regs[i] == nil {
			out[i] = fmt.Errorf("verif: undecodable entry")
			continue
		}
		select {
		case <-regs[i].WaitC():
			out[i] = regs[i].GetResult()
		default:
			out[i] = fmt.Errorf("verif: no result")
		}
	}
	return out
}

// shadowReply turns a shadow's raw apply result into the client reply the main path would have produced for it.
func shadowReply(p *dpend, raw interface{}) []rv {
	if p.merge {
		if e, ok := raw.(error); ok {
			return mergeFormat(p.name, redcon.Command{Args: p.args}, nil, e)
		}
		return mergeFormat(p.name, redcon.Command{Args: p.args}, raw, nil)
	}
	v, err := node.VerifFinish(p.fr, raw)
	return []rv{writeReply(v, err)}
}

// ---------------------------------------------------------------------------------------------------------------
// helpers over reads

func (n *dnode) rd(args ...string) []rv {
	bs := make([][]byte, len(args))
	for i, a := range args {
		bs[i] = []byte(a)
	}
	return n.read(bs)
}

func one(vs []rv) rv {
	if len(vs) == 1 {
		return vs[0]
	}
	return rv{k: 'r', b: []byte(canonRVs(vs))}
}

// ttlAt canonicalises a TTL reply: a positive remaining time is converted to the absolute expiry second using the wall
// clock around the call (reads use time.Now() in rockredis: KVTtl, HashTtl, ...). Retries if the second ticked.
func (n *dnode) ttlAt(cmd string, key []byte) string {
	for try := 0; ; try++ {
		t0 := time.Now().Unix()
		v := one(n.read([][]byte{[]byte(cmd), key}))
		t1 := time.Now().Unix()
		if v.k != 'i' || v.n <= 0 {
			return canonRV(v)
		}
		if t0 == t1 || try >= 3 {
			return "ttlat:" + strconv.FormatInt(v.n+t0, 10)
		}
	}
}

var ttlCmd = map[dtype]string{tKV: "ttl", tHash: "httl", tList: "lttl", tSet: "sttl", tZSet: "zttl"}

func ttlClass(s string) string {
	if s == "int:-1" {
		return "none"
	}
	if strings.HasPrefix(s, "ttlat:") {
		return "at:" + s[6:]
	}
	return "?" + s
}

type kvPair struct{ k, v []byte }

// content reads the logical content of (type, client key) through read commands; "" = absent.
func (n *dnode) content(t dtype, key []byte) string {
	k := string(key)
	switch t {
	case tKV:
		v := one(n.rd("get", k))
		if v.k == 'n' {
			return ""
		}
		if v.k != 'b' {
			return "!" + canonRV(v)
		}
		return hexs(v.b)
	case tHash:
		v := one(n.rd("hgetall", k))
		if v.k != 'a' {
			return "!" + canonRV(v)
		}
		if len(v.arr) == 0 {
			return ""
		}
		var ps []kvPair
		for i := 0; i+1 < len(v.arr); i += 2 {
			ps = append(ps, kvPair{v.arr[i].b, v.arr[i+1].b})
		}
		sort.SliceStable(ps, func(i, j int) bool { return bytes.Compare(ps[i].k, ps[j].k) < 0 })
		ss := make([]string, len(ps))
		for i, p := range ps {
			ss[i] = hexs(p.k) + "=" + hexs(p.v)
		}
		return strings.Join(ss, ",")
	case tList:
		v := one(n.rd("lrange", k, "0", "-1"))
		if v.k != 'a' {
			return "!" + canonRV(v)
		}
		if len(v.arr) == 0 {
			return ""
		}
		ss := make([]string, len(v.arr))
		for i, e := range v.arr {
			ss[i] = hexs(e.b)
		}
		return strings.Join(ss, ",")
	case tSet:
		v := one(n.rd("smembers", k))
		if v.k != 'a' {
			return "!" + canonRV(v)
		}
		if len(v.arr) == 0 {
			return ""
		}
		ss := make([]string, len(v.arr))
		bs := make([][]byte, len(v.arr))
		for i, e := range v.arr {
			bs[i] = e.b
		}
		sort.SliceStable(bs, func(i, j int) bool { return bytes.Compare(bs[i], bs[j]) < 0 })
		for i, e := range bs {
			ss[i] = hexs(e)
		}
		return strings.Join(ss, ",")
	case tZSet:
		v := one(n.rd("zrange", k, "0", "-1", "withscores"))
		if v.k != 'a' {
			return "!" + canonRV(v)
		}
		if len(v.arr) == 0 {
			return ""
		}
		var ss []string
		for i := 0; i+1 < len(v.arr); i += 2 {
			ss = append(ss, hexs(v.arr[i].b)+"="+string(v.arr[i+1].b))
		}
		return strings.Join(ss, ",")
	}
	return ""
}

// discover adds the keys the store itself lists (rockredis Scan over the meta keys of every table used so far).
func (n *dnode) discover(keys map[string]bool, tables map[string]bool) {
	for tb := range tables {
		for _, dt := range []common.DataType{common.KV, common.HASH, common.LIST, common.SET, common.ZSET} {
			func() {
				defer func() { recover() }()
				ks, err := n.kv.Scan(dt, []byte(tb+":"), 1000, "", false)
				if err != nil {
					return
				}
				for _, k := range ks {
					if len(k) <= 300 {
						keys[dataNS+":"+string(k)] = true
					}
				}
			}()
		}
	}
}

func sortedKeys(m map[string]bool) []string {
	out := make([]string, 0, len(m))
	for k := range m {
		out = append(out, k)
	}
	sort.Strings(out)
	return out
}

// dump: every type, every known key, sorted by (type, key bytes):  <type> <hexkey> <content> <ttl>  joined by ';'
func (n *dnode) dump(keys map[string]bool, tables map[string]bool) string {
	n.discover(keys, tables)
	ks := sortedKeys(keys)
	var out []string
	for _, t := range allTypes {
		for _, k := range ks {
			if strings.Contains(k, ":t:pf") {
				// a HyperLogLog: the stored sketch has no canonical byte form, the value is its count
				if t == tKV {
					if v := one(n.rd("pfcount", k)); v.k == 'i' && v.n != 0 {
						out = append(out, "hll "+hexs([]byte(k))+" "+strconv.FormatInt(v.n, 10)+" none")
					}
				}
				continue
			}
			c := n.content(t, []byte(k))
			if c == "" {
				continue
			}
			if c == "-" && t != tKV {
				c = "-"
			}
			out = append(out, dtypeName[t]+" "+hexs([]byte(k))+" "+c+" "+ttlClass(n.ttlAt(ttlCmd[t], []byte(k))))
		}
	}
	if len(out) == 0 {
		return "empty"
	}
	return strings.Join(out, ";")
}

func bulks(v rv) ([][]byte, bool) {
	if v.k != 'a' {
		return nil, false
	}
	out := make([][]byte, len(v.arr))
	for i, e := range v.arr {
		if e.k != 'b' {
			return nil, false
		}
		out[i] = e.b
	}
	return out, true
}

func distinct(bs [][]byte) (bool, []byte) {
	seen := map[string]bool{}
	for _, b := range bs {
		if seen[string(b)] {
			return false, b
		}
		seen[string(b)] = true
	}
	return true, nil
}

func sameSeq(a, b [][]byte) bool {
	if len(a) != len(b) {
		return false
	}
	for i := range a {
		if !bytes.Equal(a[i], b[i]) {
			return false
		}
	}
	return true
}

// invKey evaluates the C09 equalities for one (type, key) through read commands only. "" = holds.
func (n *dnode) invKey(t dtype, key string) string {
	in := func(v rv) (int64, bool) { return v.n, v.k == 'i' }
	bad := func(f string, a ...interface{}) string {
		return dtypeName[t] + " " + hexs([]byte(key)) + " " + fmt.Sprintf(f, a...)
	}
	// a key the store refuses for this type (e.g. empty key part for collections) is not a collection: every
	// enumerating read answers the same size error and there is nothing to compare
	probe := map[dtype][]string{tHash: {"hgetall", key}, tSet: {"smembers", key}, tList: {"lrange", key, "0", "-1"}, tZSet: {"zrange", key, "0", "-1"}}[t]
	if pv := one(n.rd(probe...)); pv.k == 'e' {
		switch errClass(string(pv.b)) {
		case "keylen", "table", "tablelen", "nskey":
			return ""
		case "batchsize":
			// above 5000 elements the unbounded enumerating reads are refused; count by pages where a paged read exists
			switch t {
			case tList:
				ll, _ := in(one(n.rd("llen", key)))
				cnt := 0
				for lo := 0; ; lo += 4000 {
					pg, ok := bulks(one(n.rd("lrange", key, strconv.Itoa(lo), strconv.Itoa(lo+3999))))
					if !ok {
						return bad("read-error")
					}
					cnt += len(pg)
					if len(pg) < 4000 {
						break
					}
				}
				if int(ll) != cnt {
					return bad("llen=%d paged-lrange=%d", ll, cnt)
				}
			case tZSet:
				zc, _ := in(one(n.rd("zcard", key)))
				cnt := 0
				for lo := 0; ; lo += 4000 {
					pg, ok := bulks(one(n.rd("zrange", key, strconv.Itoa(lo), strconv.Itoa(lo+3999))))
					if !ok {
						return bad("read-error")
					}
					cnt += len(pg)
					if len(pg) < 4000 {
						break
					}
				}
				if int(zc) != cnt {
					return bad("zcard=%d paged-zrange=%d", zc, cnt)
				}
			}
			return ""
		}
	}
	// point lookups of every element are quadratic on the engines' read path: above 400 elements a sample is checked
	sampled := func(n int, i int) bool { return n <= 400 || i%(n/200+1) == 0 || i >= n-3 }
	switch t {
	case tHash:
		hl, ok1 := in(one(n.rd("hlen", key)))
		all, ok2 := bulks(one(n.rd("hgetall", key)))
		hk, ok3 := bulks(one(n.rd("hkeys", key)))
		hv, ok4 := bulks(one(n.rd("hvals", key)))
		ex, ok5 := in(one(n.rd("hkeyexist", key)))
		if !(ok1 && ok2 && ok3 && ok4 && ok5) {
			return bad("read-error")
		}
		if len(all)%2 != 0 || int(hl) != len(all)/2 || int(hl) != len(hk) || int(hl) != len(hv) {
			return bad("hlen=%d hgetall=%d hkeys=%d hvals=%d", hl, len(all)/2, len(hk), len(hv))
		}
		for i := range hk {
			if !bytes.Equal(all[2*i], hk[i]) || !bytes.Equal(all[2*i+1], hv[i]) {
				return bad("hgetall-differs-from-hkeys-hvals at %d", i)
			}
		}
		if d, w := distinct(hk); !d {
			return bad("dup-field %s", hexs(w))
		}
		if (ex == 1) != (hl > 0) || (ex != 0 && ex != 1) {
			return bad("hkeyexist=%d size=%d", ex, hl)
		}
		for i, f := range hk {
			if !sampled(len(hk), i) {
				continue
			}
			g := one(n.read([][]byte{[]byte("hget"), []byte(key), f}))
			if g.k != 'b' || !bytes.Equal(g.b, hv[i]) {
				return bad("unreachable-hget %s", hexs(f))
			}
			e, _ := in(one(n.read([][]byte{[]byte("hexists"), []byte(key), f})))
			if e != 1 {
				return bad("unreachable-hexists %s", hexs(f))
			}
		}
	case tSet:
		sc, ok1 := in(one(n.rd("scard", key)))
		sm, ok2 := bulks(one(n.rd("smembers", key)))
		ex, ok3 := in(one(n.rd("skeyexist", key)))
		if !(ok1 && ok2 && ok3) {
			return bad("read-error")
		}
		if int(sc) != len(sm) {
			return bad("scard=%d smembers=%d", sc, len(sm))
		}
		if d, w := distinct(sm); !d {
			return bad("dup-member %s", hexs(w))
		}
		if (ex == 1) != (sc > 0) || (ex != 0 && ex != 1) {
			return bad("skeyexist=%d size=%d", ex, sc)
		}
		for i, m := range sm {
			if !sampled(len(sm), i) {
				continue
			}
			e, _ := in(one(n.read([][]byte{[]byte("sismember"), []byte(key), m})))
			if e != 1 {
				return bad("unreachable-sismember %s", hexs(m))
			}
		}
	case tList:
		ll, ok1 := in(one(n.rd("llen", key)))
		lr, ok2 := bulks(one(n.rd("lrange", key, "0", "-1")))
		ex, ok3 := in(one(n.rd("lkeyexist", key)))
		if !(ok1 && ok2 && ok3) {
			return bad("read-error")
		}
		if int(ll) != len(lr) {
			return bad("llen=%d lrange=%d", ll, len(lr))
		}
		if (ex == 1) != (ll > 0) || (ex != 0 && ex != 1) {
			return bad("lkeyexist=%d size=%d", ex, ll)
		}
		for i, e := range lr {
			if !sampled(len(lr), i) {
				continue
			}
			g := one(n.rd("lindex", key, strconv.Itoa(i)))
			if g.k != 'b' || !bytes.Equal(g.b, e) {
				return bad("unreachable-lindex %d", i)
			}
			g = one(n.rd("lindex", key, strconv.Itoa(i-len(lr))))
			if g.k != 'b' || !bytes.Equal(g.b, e) {
				return bad("unreachable-lindex %d", i-len(lr))
			}
		}
	case tZSet:
		zc, ok1 := in(one(n.rd("zcard", key)))
		zr, ok2 := bulks(one(n.rd("zrange", key, "0", "-1", "withscores")))
		zs, ok3 := bulks(one(n.rd("zrangebyscore", key, "-inf", "+inf")))
		zl, ok4 := bulks(one(n.rd("zrangebylex", key, "-", "+")))
		ex, ok5 := in(one(n.rd("zkeyexist", key)))
		zrev, ok6 := bulks(one(n.rd("zrevrange", key, "0", "-1")))
		if !(ok1 && ok2 && ok3 && ok4 && ok5 && ok6) {
			return bad("read-error")
		}
		if len(zr)%2 != 0 || int(zc) != len(zr)/2 || int(zc) != len(zs) || int(zc) != len(zl) || int(zc) != len(zrev) {
			return bad("zcard=%d zrange=%d zrangebyscore=%d zrangebylex=%d zrevrange=%d", zc, len(zr)/2, len(zs), len(zl), len(zrev))
		}
		var ms [][]byte
		for i := 0; i < len(zr); i += 2 {
			ms = append(ms, zr[i])
		}
		if d, w := distinct(ms); !d {
			return bad("dup-member %s", hexs(w))
		}
		if !sameSeq(ms, zs) {
			return bad("zrange-order-differs-from-zrangebyscore")
		}
		for i := range ms {
			if !bytes.Equal(ms[i], zrev[len(ms)-1-i]) {
				return bad("zrevrange-not-reverse")
			}
		}
		if (ex == 1) != (zc > 0) || (ex != 0 && ex != 1) {
			return bad("zkeyexist=%d size=%d", ex, zc)
		}
		for i, m := range ms {
			if !sampled(len(ms), i) {
				continue
			}
			g := one(n.read([][]byte{[]byte("zscore"), []byte(key), m}))
			sameScore := g.k == 'b' && bytes.Equal(g.b, zr[2*i+1])
			if g.k == 'b' && !sameScore { // "-0" and "0" are the same score: compare as numbers
				a, e1 := strconv.ParseFloat(string(g.b), 64)
				b, e2 := strconv.ParseFloat(string(zr[2*i+1]), 64)
				sameScore = e1 == nil && e2 == nil && a == b
			}
			if !sameScore {
				return bad("score-mismatch %s zscore=%s zrange=%s", hexs(m), canonRV(g), string(zr[2*i+1]))
			}
			r, okr := in(one(n.read([][]byte{[]byte("zrank"), []byte(key), m})))
			if !okr || int(r) != i {
				return bad("rank-mismatch %s zrank=%d position=%d", hexs(m), r, i)
			}
		}
	}
	return ""
}
