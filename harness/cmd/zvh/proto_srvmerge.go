package main

import (
	"bufio"
	"bytes"
	"encoding/base64"
	"flag"
	"fmt"
	"io"
	"io/ioutil"
	"math/rand"
	"net"
	"os"
	"os/exec"
	"path"
	"path/filepath"
	"sort"
	"strconv"
	"strings"
	"syscall"
	"time"

	"github.com/absolute8511/redcon"
	"github.com/youzan/ZanRedisDB/common"
	"github.com/youzan/ZanRedisDB/node"
	"github.com/youzan/ZanRedisDB/rockredis"
	"github.com/youzan/ZanRedisDB/server"
	zanredisdb "github.com/youzan/go-zanredisdb"
)

// Protocol srvmerge: the server's merge layer (server/merge.go, server/scan_merge.go, server/redis_api.go, server/util.go
// pipelineCommand, server/secondary_index_merge.go) on a REAL multi-partition server. One real server.Server per session
// (pebble engine, single replica, ONE namespace `default` with P partitions, each partition its own raft group), commands
// through the real entry point Server.serverRedis: either over a real TCP/RESP connection to the redis port (redcon reads,
// pipelines and replies) or through VerifServeRedis with an in-memory redcon.Conn that hands out pipelines exactly like
// redcon's connection loop. Any sequence of lines is executable (a line without a session starts the last requested one).
//
//	reset P=<n> via=<tcp|mem>                  new session (new server, empty shadow)                 → ok
//	w <type> <hexraw> <hexelem>…               write one key through the server (kv: SET raw e0 | hash: HMSET raw f v … |
//	                                           list: RPUSH | set: SADD | zset: ZADD 1 m1 2 m2 …), then ask EVERY partition's
//	                                           node directly (its own read handler, no routing) who holds the key, and read
//	                                           it back through the server (kv: GET + EXISTS)        → p=<holder>
//	                                           (Lean driver: the client's partition function of the C15 model)
//	mk <exists|del|plset|mget> <hexarg>…       multi-key command over partitions, repeats allowed    → canonical reply
//	pipe <cmd>|<cmd>|…                         ONE pipeline (cmd = hexargs joined by ','): set / get / exists / del; a SET
//	                                           may carry a key no store accepts                      → canonical replies
//	plcount <hexarg>…                          ONE PLSET request with any number of arguments (keys valid, hosted): how many
//	                                           replies it gets (Lean driver: Z.Props.C11Plset.replies)  → replies=<n>
//	scan <cmd> <table> <type> <count|-> <hexmatch|->   client loop "feed the cursor back until it is empty" for
//	                                           scan | revscan | advscan | advrevscan | fullscan, and scan+ | revscan+ (the
//	                                           client repairs the cursor, see smScanLoop)            → n=<keys> rounds=<r>
//	child P=<n>                                (re)start the CHILD server process used by `raw`      → ok
//	raw <hexarg>…                              one request over TCP to the child, then PING          → reply class |
//	                                                                                   process-died | no-reply | hang | conn-closed
//
// The oracle (Go) keeps a shadow of what was written (per-type keyspaces) and judges every reply and the resulting state
// against "what ONE store answers" / "the commands sent one at a time". Classes:
//
//	C15  route-write-refused route-wrong-partition route-client-server-disagree route-read-back
//	     multi-exists multi-del multi-plset-reply multi-mget multi-<cmd>-state
//	     pipe-reply-count pipe-reply pipe-state, pipe-badkey-* (pipelines with an unacceptable SET key)
//	C13  scan-error scan-foreign scan-duplicate scan-missing scan-match scan-elements scan-order scan-nonterminating
//	C11  process-died panic:conn-closed no-reply hang        (every part: panic:conn, hang, harness)
//
// SRVMERGE_FOCUS (comma list of route, multi, scan, raw) restricts what the GENERATOR emits; bin/checks_conf.py uses it to
// give each property its own part of the budget. The executor does not look at it.
func init() {
	register(&Proto{Name: "srvmerge", Gen: genSrvMerge, New: newSrvMerge})
	subcmds["child-srvmerge"] = childSrvMerge
}

const smNS = "default"

var smPartNums = []int{1, 2, 3, 4, 5, 6, 7, 8, 10, 12, 16}

// ---------------------------------------------------------------------------------------------------------------
// generator

func smHexArgs(args ...string) string {
	hs := make([]string, len(args))
	for i, a := range args {
		hs[i] = hexs([]byte(a))
	}
	return strings.Join(hs, " ")
}

// smKeyPart: adversarial NON-EMPTY key parts (the bytes of proto_c15.go's randKey), at most 40 bytes, rarely 300.
func smKeyPart(rng *rand.Rand) string {
	for {
		k := randKey(rng)
		if len(k) == 0 {
			continue
		}
		if len(k) > 40 && rng.Intn(4) > 0 {
			k = k[:40]
		}
		return string(k)
	}
}

// smDrawP: the first three sessions of a run take one partition count of each class (even but not a power of two /
// odd / power of two), later ones are uniform over the list.
func smDrawP(rng *rand.Rand, idx int) int {
	switch idx % 3 {
	case 0:
		return []int{6, 10, 12}[rng.Intn(3)]
	case 1:
		return []int{3, 5, 7}[rng.Intn(3)]
	case 2:
		if idx == 2 {
			return []int{2, 4, 8, 16}[rng.Intn(4)]
		}
	}
	return smPartNums[rng.Intn(len(smPartNums))]
}

func genSrvMerge(rng *rand.Rand, tier string, emit func(string)) {
	focus := os.Getenv("SRVMERGE_FOCUS") // comma list of route,multi,scan,raw; empty = everything
	has := func(p string) bool {
		if focus == "" {
			return true
		}
		for _, f := range strings.Split(focus, ",") {
			if f == p {
				return true
			}
		}
		return false
	}
	thorough := tier == "thorough"
	nsess := 0
	via := func() string { return []string{"tcp", "mem"}[rng.Intn(2)] }
	// ---- routing + multi-key sessions
	if has("route") || has("multi") {
		sessions, ops := 9, 90
		if thorough {
			sessions, ops = 40, 200
		}
		tables := []string{"t", "t2", "order", "order_item", "a-b"}
		for s := 0; s < sessions; s++ {
			P := smDrawP(rng, nsess)
			nsess++
			// every third session: the node hosts only the partitions 0..H-1 of the namespace (the others live on other
			// nodes); every key used is owned by a hosted partition, so every answer must be what a full node gives
			H := 0
			if s%3 == 2 {
				if P < 3 {
					P = 4
				}
				H = 2 + rng.Intn(P-2) // at least two hosted partitions: hash % H and hash % P differ for most keys
				emit(fmt.Sprintf("reset P=%d H=%d via=%s", P, H, via()))
			} else {
				emit(fmt.Sprintf("reset P=%d via=%s", P, via()))
			}
			hostedKey := func(mk func() string) string {
				for {
					k := mk()
					if H == 0 || smKeyValidity(k) != 1 || smClientPartition(k, P) < H {
						return k
					}
				}
			}
			npool := 6 + rng.Intn(10)
			pool := make([]string, npool)
			for i := range pool {
				pool[i] = hostedKey(func() string { return smNS + ":" + tables[rng.Intn(len(tables))] + ":" + smKeyPart(rng) })
			}
			if rng.Intn(2) == 0 && H == 0 { // same key part in two tables whose names are in a prefix relation
				pool[0] = smNS + ":t:" + pool[1][strings.Index(pool[1][len(smNS)+1:], ":")+len(smNS)+2:]
			}
			key := func() string { return pool[rng.Intn(npool)] }
			val := func() string {
				return []string{"v", "", "\x00\xff", "a:b", "0", "last", "x y"}[rng.Intn(7)] + strconv.Itoa(rng.Intn(4))
			}
			keys := func(n int) []string {
				ks := make([]string, n)
				for i := range ks {
					ks[i] = key()
					if i > 0 && rng.Intn(4) == 0 {
						ks[i] = ks[rng.Intn(i)] // a repeated key
					}
				}
				return ks
			}
			for i := 0; i < ops; i++ {
				x := rng.Intn(100)
				if !has("multi") {
					x = rng.Intn(30)
				} else if !has("route") && x < 30 {
					x = 30 + rng.Intn(70)
				}
				switch {
				case x < 18:
					emit("w kv " + smHexArgs(key(), val()))
				case x < 30:
					tp := []string{"hash", "list", "set", "zset"}[rng.Intn(4)]
					n := 1 + rng.Intn(3)
					if tp == "hash" {
						n = 2 * n
					}
					es := make([]string, n)
					for j := range es {
						es[j] = []string{"a", "b", "", "a:b", "\x00", "\xff", "m"}[rng.Intn(7)]
					}
					k := key()
					if rng.Intn(3) == 0 {
						k = hostedKey(func() string { return smNS + ":" + tables[rng.Intn(len(tables))] + ":" + smKeyPart(rng) })
					}
					emit("w " + tp + " " + smHexArgs(append([]string{k}, es...)...))
				case x < 45:
					emit("mk exists " + smHexArgs(keys(1+rng.Intn(8))...))
				case x < 58:
					emit("mk del " + smHexArgs(keys(1+rng.Intn(6))...))
				case x < 72:
					ks := keys(1 + rng.Intn(8))
					var a []string
					for _, k := range ks {
						a = append(a, k, val())
					}
					emit("mk plset " + smHexArgs(a...))
				case x < 78:
					emit("mk mget " + smHexArgs(keys(1+rng.Intn(6))...))
				default:
					// a pipeline: mostly SETs (which the server rewrites into ONE plset when every command of the
					// pipeline is a 3-argument SET), sometimes mixed with reads / exists / del
					n := 2 + rng.Intn(7)
					mixed := rng.Intn(3) == 0
					// rarely one SET of an all-SET pipeline carries a key that no store accepts
					badAt := -1
					if !mixed && rng.Intn(10) == 0 && H == 0 {
						badAt = rng.Intn(n)
					}
					var cs []string
					for j := 0; j < n; j++ {
						var a []string
						y := rng.Intn(10)
						switch {
						case !mixed || y < 6:
							k := key()
							if j > 0 && rng.Intn(4) == 0 {
								k = pool[0]
							}
							if j == badAt {
								k = []string{"nonamespace", "other:t:k", "default::k", "default:t", "default:t:" + strings.Repeat("k", 11000)}[rng.Intn(5)]
							}
							a = []string{"set", k, val()}
							if mixed && rng.Intn(8) == 0 {
								a[0] = "SET"
							}
						case y < 8:
							a = []string{"get", key()}
						case y < 9:
							a = append([]string{"exists"}, keys(1+rng.Intn(3))...)
						default:
							a = append([]string{"del"}, keys(1+rng.Intn(3))...)
						}
						hs := make([]string, len(a))
						for q, v := range a {
							hs[q] = hexs([]byte(v))
						}
						cs = append(cs, strings.Join(hs, ","))
					}
					emit("pipe " + strings.Join(cs, "|"))
				}
			}
		}
	}
	// ---- merged scans
	if has("scan") {
		sessions, loops := 9, 36
		if thorough {
			sessions, loops = 30, 120
		}
		names := []string{"a", "a0", "a:", "a:b", "ab", "b", "\x00", "a\x00", "\xfe", "a\xff", "aa", "z", "m", "m:n", ";", ":", "k:", "~"}
		for s := 0; s < sessions; s++ {
			P := smDrawP(rng, nsess)
			nsess++
			emit(fmt.Sprintf("reset P=%d via=%s", P, via()))
			// tables whose names are prefixes of each other; the neighbour in byte order matters: "t2:" < "t:" < "t_:"
			// and "order:" < "order_item:"
			tabs := [][]string{{"t", "t2"}, {"order", "order_item"}, {"t", "t2", "t_"}, {"order", "order_item", "orde"}, {"t", "tt", "t2", "order", "order_item"}}[rng.Intn(5)]
			types := []string{"kv", "hash", "list", "set", "zset"}
			nt := 1 + rng.Intn(3)
			rng.Shuffle(5, func(i, j int) { types[i], types[j] = types[j], types[i] })
			types = types[:nt]
			if rng.Intn(2) == 0 && types[0] != "kv" { // SCAN / REVSCAN see kv only: have kv in most sessions
				types = append(types, "kv")
			}
			for _, tb := range tabs {
				for _, tp := range types {
					n := []int{0, 1, 2, 3, 5, 8, 13, 21, 34, 55}[rng.Intn(10)]
					if thorough && rng.Intn(10) == 0 {
						n = 120 + rng.Intn(150)
					}
					seq := rng.Intn(3) > 0
					for i := 0; i < n; i++ {
						var kp string
						if seq || i >= len(names) {
							kp = fmt.Sprintf("k%03d", i)
						} else {
							kp = names[i]
						}
						raw := smNS + ":" + tb + ":" + kp
						switch tp {
						case "kv":
							emit("w kv " + smHexArgs(raw, "v"+kp))
						case "hash":
							a := []string{raw}
							for j := 0; j <= rng.Intn(4); j++ {
								a = append(a, "f"+strconv.Itoa(j), "v"+strconv.Itoa(rng.Intn(9)))
							}
							emit("w hash " + smHexArgs(a...))
						default:
							a := []string{raw}
							for j := 0; j <= rng.Intn(4); j++ {
								a = append(a, "e"+strconv.Itoa(j))
							}
							emit("w " + tp + " " + smHexArgs(a...))
						}
					}
				}
			}
			counts := []string{"-", "1", "2", "3", "7", "100"}
			for q := 0; q < loops; q++ {
				cmd := []string{"scan", "revscan", "advscan", "advrevscan", "fullscan", "scan+", "revscan+", "advscan", "advrevscan", "fullscan"}[rng.Intn(10)]
				tb := tabs[rng.Intn(len(tabs))]
				tp := "kv"
				if base := strings.TrimSuffix(cmd, "+"); base != "scan" && base != "revscan" {
					if rng.Intn(4) > 0 {
						tp = types[rng.Intn(len(types))]
					} else {
						tp = []string{"kv", "hash", "list", "set", "zset"}[rng.Intn(5)]
					}
				}
				cnt := counts[rng.Intn(len(counts))]
				if rng.Intn(10) == 0 {
					cnt = strconv.Itoa(P * (1 + rng.Intn(3))) // every partition gets 1..3
				}
				match := "-"
				if rng.Intn(4) == 0 {
					match = hexs([]byte([]string{"*1*", "*k0?1", "*0", "*a*", "*:*", "*", "k00*", "a*", "*k??2*", "?", "*\x00*", "k0?5", "*e*"}[rng.Intn(13)]))
				}
				emit(fmt.Sprintf("scan %s %s %s %s %s", cmd, tb, tp, cnt, match))
			}
		}
	}
	// ---- every PLSET request is answered, one reply per pair (in-process sessions; Lean model of the reply count)
	if has("raw") {
		nsess, per := 3, 25
		if thorough {
			nsess, per = 12, 120
		}
		for s := 0; s < nsess; s++ {
			P := []int{1, 2, 3, 5, 8}[rng.Intn(5)]
			via := "mem"
			if rng.Intn(3) == 0 {
				via = "tcp"
			}
			emit(fmt.Sprintf("reset P=%d via=%s", P, via))
			for i := 0; i < per; i++ {
				n := rng.Intn(10)
				if rng.Intn(4) == 0 {
					n = []int{0, 1, 2, 3}[rng.Intn(4)]
				}
				var a []string
				for j := 0; j < n; j++ {
					if j%2 == 0 {
						a = append(a, smNS+":"+[]string{"t", "t2", "tt"}[rng.Intn(3)]+":"+smKeyPart(rng))
					} else {
						a = append(a, []string{"v", "", "0", "x y"}[rng.Intn(4)])
					}
				}
				emit(strings.TrimSpace("plcount " + smHexArgs(a...)))
			}
		}
	}
	// ---- robustness: adversarial argument vectors through serverRedis of a CHILD process
	if has("raw") {
		children, per := 4, 400
		if thorough {
			children, per = 20, 2500
		}
		pools := defaultMergeArgPools()
		keyPool := []string{"default:t:k0", "default:t:k1", "default:t2:k0", "default:t:", "default::k", "default:t", "default:", "other:t:k", "t:k", "", ":", "::",
			"default:t:" + strings.Repeat("k", 300), "default:" + strings.Repeat("T", 300) + ":k", "default:t:a:b", "default:t:\x00", "default:t:\xff\xff"}
		pick := func(xs []string) string { return xs[rng.Intn(len(xs))] }
		// a cursor in the server's cross-partition encoding: base64("pid:base64(cursor);"…), valid or damaged
		encCursor := func(damage bool) string {
			var inner string
			for p := 0; p <= rng.Intn(4); p++ {
				pid := strconv.Itoa(p)
				sep := ";"
				if damage {
					pid = pick([]string{"0", "1", "2", "15", "99", "-1", "x", ""})
					sep = pick([]string{";", ";", "", ":", ";;"})
				}
				inner += pid + ":" + base64.StdEncoding.EncodeToString([]byte(pick([]string{"k0", "", "\xff\xff\xff\xff", "a:b", "azE=:"}))) + sep
			}
			enc := base64.StdEncoding.EncodeToString([]byte(inner))
			if damage && rng.Intn(6) == 0 {
				enc = enc[:len(enc)/2] + "!"
			}
			return enc
		}
		for s := 0; s < children; s++ {
			// partition counts of the children: 1 or 2 first (COUNT / P keeps small negative counts negative), then the classes
			P := smDrawP(rng, s+2)
			if s%3 == 0 {
				P = 1 + rng.Intn(2)
			}
			emit(fmt.Sprintf("child P=%d", P))
			for i := 0; i < per; i++ {
				var cmd string
				var args []string
				switch x := rng.Intn(20); {
				case x < 6:
					cmd, args = genMergeArgVector(rng, pools)
					if rng.Intn(3) == 0 && len(args) > 0 && !strings.Contains(strings.ToLower(cmd), "exists") {
						args[0] = "default:" + pick([]string{"t", "t2", "zz", ""}) + ":" + encCursor(true)
					}
				case x < 14:
					// a VALID merge command in which (mostly) one argument is adversarial: these get past the server's own
					// argument handling (doScanCommon / doMergeIndexSearch / getHandlersForKeys) into the partitions' handlers
					y := rng.Intn(10)
					switch {
					case y < 6:
						cmd = pick([]string{"scan", "revscan", "advscan", "advrevscan", "fullscan", "SCAN", "AdvScan"})
						cur := pick([]string{"", "", "k1", "\xff", encCursor(false), encCursor(false)})
						args = []string{"default:" + pick([]string{"t", "t", "t2", "zz"}) + ":" + cur}
						if lc := strings.ToLower(cmd); lc != "scan" && lc != "revscan" {
							args = append(args, pick([]string{"kv", "hash", "list", "set", "zset", "KV"}))
						}
						if rng.Intn(3) == 0 {
							args = append(args, "match", pick([]string{"*", "k*", "*1*", "[", "\\", "k[0-", "{a,b", "?", ""}))
						}
						if rng.Intn(4) > 0 {
							num := pick(pools.nums)
							switch rng.Intn(4) {
							case 0:
								num = pick([]string{"-1", "-2", "-3", "-9223372036854775808", "-4294967296", "-" + strconv.Itoa(P), "-" + strconv.Itoa(2*P+1)})
							case 1:
								num = pick([]string{"1", strconv.Itoa(P), strconv.Itoa(P - 1), strconv.Itoa(P + 1), "5000", "5001", "100000000"})
							}
							args = append(args, pick([]string{"count", "count", "COUNT"}), num)
						}
					case y < 9:
						cmd = pick([]string{"hidx.from", "hidx.from", "HIDX.FROM"})
						args = []string{"default:" + pick([]string{"t", "t", "zz", "t2"}), pick([]string{"where", "where", "WHERE"}), pick(pools.wheres)}
						switch rng.Intn(6) {
						case 0:
							args = append(args, "hget", "$", "f")
						case 1:
							args = append(args, "hgetall", "$")
						case 2:
							args = append(args, "limit", pick(pools.nums), pick(pools.nums))
						case 3:
							args = append(args, "hmget", "$")
						}
					default:
						cmd = pick([]string{"exists", "del", "plset"})
						for j := 1 + rng.Intn(5); j > 0; j-- {
							args = append(args, pick([]string{"default:t:k0", "default:t:k1", "default:t2:k0", "default:t:nokey", "default:t:a:b"}))
							if cmd == "plset" {
								args = append(args, pick([]string{"v", "", "0"}))
							}
						}
					}
					if rng.Intn(4) == 0 && len(args) > 0 { // one mutation
						k := rng.Intn(len(args))
						switch rng.Intn(3) {
						case 0:
							args = append(args[:k:k], args[k+1:]...)
						case 1:
							args = append(args, args[k])
						default:
							args[k] = pick(append(append([]string{}, keyPool...), pools.nums...))
						}
					}
				case x < 16:
					cmd = pick([]string{"exists", "EXISTS", "del", "DEL"})
					for j := rng.Intn(6); j > 0; j-- {
						args = append(args, pick(keyPool))
					}
				case x < 19:
					cmd = pick([]string{"plset", "PLSET"})
					for j := rng.Intn(7); j > 0; j-- {
						if rng.Intn(3) > 0 {
							args = append(args, pick(keyPool))
						} else {
							args = append(args, pick(pools.nums))
						}
					}
				default:
					cmd = pick([]string{"set", "get", "mget", "plget", "scan", "advscan"})
					for j := rng.Intn(4); j > 0; j-- {
						args = append(args, pick(keyPool))
					}
				}
				emit("raw " + smHexArgs(append([]string{cmd}, args...)...))
			}
		}
	}
}

// ---------------------------------------------------------------------------------------------------------------
// the in-process server

type smServer struct {
	srv   *server.Server
	dir   string
	P     int
	port  int
	nodes []*node.NamespaceNode
}

func startSMServer(P int, eng string, dir string, hosted ...int) (*smServer, error) {
	H := P // number of partitions hosted by this node (0..H-1); the others are "on other nodes"
	if len(hosted) > 0 && hosted[0] >= 1 && hosted[0] < P {
		H = hosted[0]
	}
	ports, err := freePorts(4)
	if err != nil {
		return nil, err
	}
	raftAddr := "http://127.0.0.1:" + strconv.Itoa(ports[0])
	os.MkdirAll(dir, 0700)
	ioutil.WriteFile(path.Join(dir, "myid"), []byte("1"), common.FILE_PERM)
	opts := server.ServerConfig{
		ClusterID: "verif-srvmerge", DataDir: dir, BroadcastAddr: "127.0.0.1", MetricAddr: "127.0.0.1:0", ProfilePort: -1,
		LocalRaftAddr: raftAddr, RedisAPIPort: ports[1], HttpAPIPort: ports[2], GrpcAPIPort: ports[3],
		TickMs: 100, ElectionTick: 5,
	}
	opts.RocksDBOpts.EngineType = eng
	srv, err := server.NewServer(opts)
	if err != nil {
		return nil, err
	}
	s := &smServer{srv: srv, dir: dir, P: P, port: ports[1]}
	for i := 0; i < H; i++ {
		nsConf := node.NewNSConfig()
		nsConf.Name = smNS + "-" + strconv.Itoa(i)
		nsConf.BaseName = smNS
		nsConf.EngType = rockredis.EngType
		nsConf.PartitionNum = P
		nsConf.Replicator = 1
		nsConf.RaftGroupConf.GroupID = uint64(1000 + i)
		nsConf.RaftGroupConf.SeedNodes = []node.ReplicaInfo{{NodeID: 1, ReplicaID: 1, RaftAddr: raftAddr}}
		nn, err := srv.InitKVNamespace(1, nsConf, false)
		if err != nil {
			return nil, fmt.Errorf("init %s: %v", nsConf.Name, err)
		}
		s.nodes = append(s.nodes, nn)
	}
	srv.Start()
	t0 := time.Now()
	for {
		lead := 0
		for _, nn := range s.nodes {
			if nn.IsReady() && nn.Node.IsLead() {
				lead++
			}
		}
		if lead == H {
			break
		}
		if time.Since(t0) > 40*time.Second {
			s.stop()
			return nil, fmt.Errorf("verif: %d of %d partitions have a leader after 40 s", lead, H)
		}
		time.Sleep(20 * time.Millisecond)
	}
	return s, nil
}

func (s *smServer) stop() {
	done := make(chan struct{})
	go func() {
		defer func() { recover() }()
		s.srv.VerifStopFast()
		close(done)
	}()
	select {
	case <-done:
	case <-time.After(20 * time.Second):
	}
	for i := 0; i < 20; i++ {
		os.RemoveAll(s.dir)
		if _, err := os.Stat(s.dir); os.IsNotExist(err) {
			break
		}
		time.Sleep(100 * time.Millisecond)
	}
}

// ---------------------------------------------------------------------------------------------------------------
// connections

// smConn is the in-memory redcon.Conn: records the reply tokens and hands out the rest of a pipeline like redcon's conn.
type smConn struct {
	dconn
	cmds   []redcon.Command
	closed bool
}

func (c *smConn) Close() error                   { c.closed = true; return nil }
func (c *smConn) PeekPipeline() []redcon.Command { return c.cmds }
func (c *smConn) ReadPipeline() []redcon.Command {
	cmds := c.cmds
	c.cmds = nil
	return cmds
}

func smCmd(args [][]byte) redcon.Command {
	cp := make([][]byte, len(args))
	for i, a := range args {
		cp[i] = append([]byte{}, a...)
	}
	return common.BuildCommand(cp)
}

// serveMem runs a pipeline through Server.serverRedis the way redcon's connection loop does (redcon.go handle()).
func (s *smServer) serveMem(cmds [][][]byte) (vals []rv, closed bool, err error) {
	conn := &smConn{}
	for _, a := range cmds {
		conn.cmds = append(conn.cmds, smCmd(a))
	}
	done := make(chan struct{})
	go func() {
		defer close(done)
		for len(conn.cmds) > 0 {
			cmd := conn.cmds[0]
			if len(conn.cmds) == 1 {
				conn.cmds = nil
			} else {
				conn.cmds = conn.cmds[1:]
			}
			s.srv.VerifServeRedis(conn, cmd)
		}
	}()
	select {
	case <-done:
	case <-time.After(30 * time.Second):
		return nil, false, fmt.Errorf("verif: no return from serverRedis within 30 s")
	}
	vals, ok := conn.tree()
	if !ok {
		return vals, conn.closed, fmt.Errorf("verif: reply array announces more elements than were written")
	}
	return vals, conn.closed, nil
}

// smTCP is a plain RESP client.
type smTCP struct {
	c  net.Conn
	rd *bufio.Reader
}

func smDial(port int) (*smTCP, error) {
	c, err := net.DialTimeout("tcp", "127.0.0.1:"+strconv.Itoa(port), 3*time.Second)
	if err != nil {
		return nil, err
	}
	return &smTCP{c: c, rd: bufio.NewReaderSize(c, 1<<16)}, nil
}

func smEncode(b *bytes.Buffer, args [][]byte) {
	fmt.Fprintf(b, "*%d\r\n", len(args))
	for _, a := range args {
		fmt.Fprintf(b, "$%d\r\n", len(a))
		b.Write(a)
		b.WriteString("\r\n")
	}
}

func (t *smTCP) readValue() (rv, error) {
	line, err := t.rd.ReadString('\n')
	if err != nil {
		return rv{}, err
	}
	if len(line) < 3 || line[len(line)-2] != '\r' {
		return rv{}, fmt.Errorf("verif: malformed reply line %q", line)
	}
	body := line[1 : len(line)-2]
	switch line[0] {
	case '+':
		return rv{k: 's', b: []byte(body)}, nil
	case '-':
		return rv{k: 'e', b: []byte(body)}, nil
	case ':':
		n, err := strconv.ParseInt(body, 10, 64)
		if err != nil {
			return rv{}, fmt.Errorf("verif: malformed integer reply %q", line)
		}
		return rv{k: 'i', n: n}, nil
	case '$':
		n, err := strconv.Atoi(body)
		if err != nil {
			return rv{}, fmt.Errorf("verif: malformed bulk length %q", line)
		}
		if n < 0 {
			return rv{k: 'n'}, nil
		}
		buf := make([]byte, n+2)
		if _, err := io.ReadFull(t.rd, buf); err != nil {
			return rv{}, err
		}
		return rv{k: 'b', b: buf[:n]}, nil
	case '*':
		n, err := strconv.Atoi(body)
		if err != nil {
			return rv{}, fmt.Errorf("verif: malformed array length %q", line)
		}
		if n < 0 {
			return rv{k: 'n'}, nil
		}
		a := rv{k: 'a'}
		for i := 0; i < n; i++ {
			e, err := t.readValue()
			if err != nil {
				return rv{}, err
			}
			a.arr = append(a.arr, e)
		}
		return a, nil
	}
	return rv{}, fmt.Errorf("verif: unexpected reply line %q", line)
}

// roundTrip writes the commands in ONE write (a pipeline when there are several), reads one value per command, then
// sends PING and reads up to +PONG: values in between are replies nobody asked for (`extra`). A time-out while waiting
// for the n-th value means the server sent fewer replies than commands (`short`).
func (t *smTCP) roundTrip(cmds [][][]byte, wait time.Duration) (vals []rv, extra []rv, short bool, err error) {
	var b bytes.Buffer
	for _, a := range cmds {
		smEncode(&b, a)
	}
	t.c.SetDeadline(time.Now().Add(wait))
	if _, err = t.c.Write(b.Bytes()); err != nil {
		return
	}
	for i := 0; i < len(cmds); i++ {
		if i > 0 {
			// the first reply may take long (raft), the following ones are already on their way
			t.c.SetReadDeadline(time.Now().Add(3 * time.Second))
		}
		v, e := t.readValue()
		if e != nil {
			if ne, ok := e.(net.Error); ok && ne.Timeout() {
				short = true
				break
			}
			err = e
			return
		}
		vals = append(vals, v)
	}
	b.Reset()
	smEncode(&b, [][]byte{[]byte("ping")})
	t.c.SetDeadline(time.Now().Add(wait))
	if _, err = t.c.Write(b.Bytes()); err != nil {
		return
	}
	for n := 0; ; n++ {
		v, e := t.readValue()
		if e != nil {
			err = e
			return
		}
		if v.k == 's' && string(v.b) == "PONG" {
			return
		}
		if n > 4096 {
			err = fmt.Errorf("verif: no PONG after 4096 values")
			return
		}
		extra = append(extra, v)
	}
}

// probe sends ONE command and finds out what came back for it without guessing how many replies it has: the command is
// written, the first value is awaited for `first` (replies normally arrive within milliseconds), then PING is written
// (in a later packet, so that the server does not see a pipeline) and values are read up to +PONG. vals = everything the
// server sent for the command (none: the command was never answered); err = connection trouble (EOF: closed by peer).
func (t *smTCP) probe(args [][]byte, first, wait time.Duration) (vals []rv, err error) {
	var b bytes.Buffer
	smEncode(&b, args)
	t.c.SetDeadline(time.Now().Add(wait))
	if _, err = t.c.Write(b.Bytes()); err != nil {
		return
	}
	t.c.SetReadDeadline(time.Now().Add(first))
	if _, e := t.rd.Peek(1); e == nil {
		t.c.SetReadDeadline(time.Now().Add(wait))
		v, e := t.readValue()
		if e != nil {
			return vals, e
		}
		vals = append(vals, v)
	} else if ne, ok := e.(net.Error); !ok || !ne.Timeout() {
		return vals, e
	}
	b.Reset()
	smEncode(&b, [][]byte{[]byte("ping")})
	t.c.SetDeadline(time.Now().Add(wait))
	if _, err = t.c.Write(b.Bytes()); err != nil {
		return
	}
	for n := 0; ; n++ {
		v, e := t.readValue()
		if e != nil {
			return vals, e
		}
		if v.k == 's' && string(v.b) == "PONG" {
			return vals, nil
		}
		if n > 8192 {
			return vals, fmt.Errorf("verif: no PONG after 8192 values")
		}
		vals = append(vals, v)
	}
}

// ---------------------------------------------------------------------------------------------------------------
// session = server + client + shadow

type smSess struct {
	srv *smServer
	via string
	tcp *smTCP
	// shadow: per-type keyspaces, key = "table:key"
	kv   map[string]string
	hash map[string]map[string]string
	list map[string][]string
	set  map[string]map[string]bool
	zset map[string]map[string]int
}

func (ss *smSess) close() {
	if ss.tcp != nil {
		ss.tcp.c.Close()
		ss.tcp = nil
	}
	if ss.srv != nil {
		ss.srv.stop()
		ss.srv = nil
	}
}

// exchange runs the commands as one pipeline; vals has exactly what the client received for them.
func (ss *smSess) exchange(cmds [][][]byte) (vals []rv, problem string) {
	if ss.via == "tcp" {
		if ss.tcp == nil {
			t, err := smDial(ss.srv.port)
			if err != nil {
				return nil, "dial: " + err.Error()
			}
			ss.tcp = t
		}
		vals, extra, short, err := ss.tcp.roundTrip(cmds, 30*time.Second)
		if err != nil {
			ss.tcp.c.Close()
			ss.tcp = nil
			return vals, "connection: " + err.Error()
		}
		if short {
			return vals, fmt.Sprintf("%d replies for %d commands", len(vals), len(cmds))
		}
		if len(extra) > 0 {
			return append(vals, extra...), ""
		}
		return vals, ""
	}
	vals, closed, err := ss.srv.serveMem(cmds)
	if err != nil {
		return vals, err.Error()
	}
	if closed {
		return vals, "connection closed by the server (recovered panic)"
	}
	return vals, ""
}

func (ss *smSess) do(args ...string) ([]rv, string) {
	bs := make([][]byte, len(args))
	for i, a := range args {
		bs[i] = []byte(a)
	}
	return ss.exchange([][][]byte{bs})
}

// holders asks every partition's node directly (its own read handler, no routing) whether it has the key.
func (ss *smSess) holders(tp string, raw string) []int {
	cmd := map[string]string{"kv": "get", "hash": "hlen", "list": "llen", "set": "scard", "zset": "zcard"}[tp]
	var hs []int
	for i, nn := range ss.srv.nodes {
		h, ok := nn.Node.GetHandler(cmd)
		if !ok {
			continue
		}
		conn := &dconn{}
		h(conn, mkCmd(cmd, raw))
		if len(conn.toks) != 1 {
			continue
		}
		t := conn.toks[0]
		if (tp == "kv" && t.k == 'b') || (tp != "kv" && t.k == 'i' && t.n > 0) {
			hs = append(hs, i)
		}
	}
	return hs
}

func smClientPartition(raw string, P int) int {
	// what a client computes: the sharding key is everything behind "namespace:" (go-zanredisdb PKey.ShardingKey)
	pk := raw[strings.IndexByte(raw, ':')+1:]
	return zanredisdb.GetHashedPartitionID([]byte(pk), P)
}

// smKeyValidity: 1 = a raw key every layer accepts (namespace default, non-empty table, ':' behind it, inside the size
// limits), -1 = a key NO store accepts for sure (no / unknown namespace, empty or missing table, far over the key size
// limit), 0 = neither is certain (the executor refuses such a line).
func smKeyValidity(raw string) int {
	if !strings.HasPrefix(raw, smNS+":") {
		return -1
	}
	r := raw[len(smNS)+1:]
	i := strings.IndexByte(r, ':')
	if i <= 0 {
		return -1
	}
	if len(r) > 10300 {
		return -1
	}
	if i > 200 || len(r) > 5000 {
		return 0
	}
	return 1
}

func smShow(s string) string { return strconv.QuoteToASCII(s) }

func smShowKeys(ks []string) string {
	q := make([]string, len(ks))
	for i, k := range ks {
		q[i] = smShow(k)
	}
	return "[" + strings.Join(q, " ") + "]"
}

func smIsInt(vs []rv, n int64) bool { return len(vs) == 1 && vs[0].k == 'i' && vs[0].n == n }

// glob with `*` and `?` only (the generator uses no other metacharacter)
func smGlob(pat, s string) bool {
	if pat == "" {
		return s == ""
	}
	if pat[0] == '*' {
		for i := 0; i <= len(s); i++ {
			if smGlob(pat[1:], s[i:]) {
				return true
			}
		}
		return false
	}
	if s == "" {
		return false
	}
	if pat[0] == '?' || pat[0] == s[0] {
		return smGlob(pat[1:], s[1:])
	}
	return false
}

// ---------------------------------------------------------------------------------------------------------------
// the child process of the robustness part

func childSrvMerge(args []string) {
	fs := flag.NewFlagSet("child-srvmerge", flag.ExitOnError)
	dir := fs.String("dir", "", "")
	P := fs.Int("p", 3, "")
	fs.Parse(args)
	out := os.NewFile(3, "rsp")
	// stderr stays: the Go runtime prints the panic of a dying process there (the parent keeps it as the witness)
	quietLogs()
	s, err := startSMServer(*P, "pebble", *dir)
	if err != nil {
		out.WriteString("fatal " + err.Error() + "\n")
		os.Exit(3)
	}
	// something for the scans to return, in every partition
	ss := &smSess{srv: s, via: "mem"}
	for i := 0; i < 24; i++ {
		k := fmt.Sprintf("k%d", i)
		ss.do("set", "default:t:"+k, "v")
		ss.do("set", "default:t2:"+k, "v")
		ss.do("hset", "default:t:h"+k, "f", "v")
		ss.do("sadd", "default:t:s"+k, "m")
		ss.do("rpush", "default:t:l"+k, "e")
		ss.do("zadd", "default:t:z"+k, "1", "m")
	}
	out.WriteString("ready " + strconv.Itoa(s.port) + "\n")
	// live until the parent goes away / kills us
	buf := make([]byte, 1)
	os.Stdin.Read(buf)
	os.Exit(0)
}

type smChild struct {
	cmd    *exec.Cmd
	dir    string
	port   int
	P      int
	in     io.WriteCloser
	dead   chan struct{}
	tcp    *smTCP
	stderr string
}

func startSMChild(P int) (*smChild, error) {
	exe, err := os.Executable()
	if err != nil {
		return nil, err
	}
	dir, err := ioutil.TempDir("", "zvh-srvmerge-child-")
	if err != nil {
		return nil, err
	}
	rr, rw, err := os.Pipe()
	if err != nil {
		return nil, err
	}
	c := exec.Command(exe, "child-srvmerge", "-dir", filepath.Join(dir, "data"), "-p", strconv.Itoa(P))
	c.ExtraFiles = []*os.File{rw}
	in, _ := c.StdinPipe()
	ef, _ := os.Create(filepath.Join(dir, "stderr.log"))
	c.Stderr = ef
	c.Stdout = nil
	if err := c.Start(); err != nil {
		os.RemoveAll(dir)
		return nil, err
	}
	rw.Close()
	if ef != nil {
		ef.Close()
	}
	ch := &smChild{cmd: c, dir: dir, P: P, in: in, dead: make(chan struct{})}
	go func() { c.Wait(); close(ch.dead) }()
	lineC := make(chan string, 1)
	go func() {
		sc := bufio.NewScanner(rr)
		if sc.Scan() {
			lineC <- sc.Text()
		} else {
			lineC <- ""
		}
		rr.Close()
	}()
	select {
	case l := <-lineC:
		if !strings.HasPrefix(l, "ready ") {
			ch.kill()
			return nil, fmt.Errorf("verif: child did not start: %q", l)
		}
		ch.port, _ = strconv.Atoi(l[6:])
	case <-time.After(60 * time.Second):
		ch.kill()
		return nil, fmt.Errorf("verif: child not ready after 60 s")
	}
	return ch, nil
}

func (ch *smChild) isDead(wait time.Duration) bool {
	select {
	case <-ch.dead:
		return true
	case <-time.After(wait):
		return false
	}
}

// lastPanic: the first lines of what the Go runtime printed when the child died.
func (ch *smChild) lastPanic() string {
	b, _ := ioutil.ReadFile(filepath.Join(ch.dir, "stderr.log"))
	s := string(b)
	if i := strings.Index(s, "panic:"); i >= 0 {
		s = s[i:]
	} else if i := strings.Index(s, "fatal error:"); i >= 0 {
		s = s[i:]
	}
	ls := strings.Split(s, "\n")
	var keep []string
	for _, l := range ls {
		l = strings.TrimSpace(l)
		if l == "" {
			continue
		}
		if strings.HasPrefix(l, "panic:") || strings.HasPrefix(l, "fatal error:") || strings.Contains(l, "ZanRedisDB/") && !strings.HasPrefix(l, "/") && len(keep) < 5 {
			if j := strings.LastIndex(l, "("); j > 0 && !strings.HasPrefix(l, "panic") && !strings.HasPrefix(l, "fatal") {
				l = l[:j] // drop the argument words of the frame
			}
			l = strings.TrimPrefix(l, "created by ")
			l = strings.Replace(l, "github.com/youzan/ZanRedisDB/", "", 1)
			keep = append(keep, l)
		}
		if len(keep) >= 4 {
			break
		}
	}
	return strings.Join(keep, " | ")
}

func (ch *smChild) kill() {
	if ch.tcp != nil {
		ch.tcp.c.Close()
		ch.tcp = nil
	}
	ch.cmd.Process.Signal(syscall.SIGKILL)
	<-ch.dead
	ch.in.Close()
	os.RemoveAll(ch.dir)
}

// ---------------------------------------------------------------------------------------------------------------
// executor

func newSrvMerge(c *Ctx) func(string) string {
	quietLogs()
	var ss *smSess
	var ch *smChild
	childP := 3         // what the last `child` line asked for
	var recent []string // the last requests sent to the child
	// a panic in a goroutine of the merge layer lets the handler return (deferred wg.Done) and the process answer for some
	// more milliseconds while the runtime prints the goroutine dump: the death may be noticed one or two requests late
	died := func(req string) string {
		prev := ""
		if len(recent) > 0 {
			prev = "; the requests before it: " + strings.Join(recent, " ")
		}
		c.Violation("process-died", fmt.Sprintf("the server process (P=%d) died at request %s: %s%s", ch.P, req, ch.lastPanic(), prev))
		ch.kill()
		ch = nil
		recent = nil
		return "process-died"
	}
	var closing []chan struct{}
	atExit = append(atExit, func() {
		if ss != nil {
			ss.close()
		}
		if ch != nil {
			if ch.isDead(300 * time.Millisecond) {
				died("(end of the run)")
			} else {
				ch.kill()
			}
		}
		for _, d := range closing {
			select {
			case <-d:
			case <-time.After(25 * time.Second):
			}
		}
	})
	lastP, lastVia, lastH := 3, "mem", 0 // what the last `reset` asked for (the Lean driver starts with 3 as well)
	var open func(P int, via string) string
	openH := func(P int, via string, H int) string {
		lastH = H
		return open(P, via)
	}
	open = func(P int, via string) string {
		lastP, lastVia = P, via
		if ss != nil {
			old := ss
			ss = nil
			d := make(chan struct{})
			closing = append(closing, d)
			go func() { old.close(); close(d) }() // Stop() of the namespace manager sleeps a second: do not wait for it here
		}
		return retryHarness(c, 3, func() string {
			dir, err := ioutil.TempDir("", "zvh-srvmerge-")
			if err != nil {
				c.Violation("harness", err.Error())
				return "err:start"
			}
			s, err := startSMServer(P, "pebble", dir, lastH)
			if err != nil {
				os.RemoveAll(dir)
				c.Violation("harness", "server start: "+err.Error())
				return "err:start"
			}
			ss = &smSess{srv: s, via: via, kv: map[string]string{}, hash: map[string]map[string]string{}, list: map[string][]string{},
				set: map[string]map[string]bool{}, zset: map[string]map[string]int{}}
			c.Note(fmt.Sprintf("session:P=%d", P))
			if lastH > 0 && lastH < P {
				c.Note("session:partly-hosted")
			}
			c.Note("session:via=" + via)
			return "ok"
		})
	}
	need := func() bool {
		if ss == nil {
			open(lastP, lastVia)
		}
		return ss != nil
	}
	// after a problem on the connection level the session's server may be unusable (hang): start over
	broken := func(line, problem string) string {
		cls := "panic:conn"
		switch {
		case strings.Contains(problem, "no return from serverRedis"), strings.Contains(problem, "i/o timeout"):
			cls = "hang"
		case strings.Contains(problem, "replies for"): // a single command without a reply
			cls = "hang"
		}
		c.Violation(cls, line+" => "+problem)
		if cls == "hang" && ss != nil {
			P, via := ss.srv.P, ss.via
			open(P, via)
		}
		return "err:" + cls
	}
	unhexAll := func(f []string) []string {
		out := make([]string, len(f))
		for i, x := range f {
			out[i] = string(unhex(x))
		}
		return out
	}
	rk := func(raw string) string { return strings.TrimPrefix(raw, smNS+":") }
	// checkKV: the state of one kv key after a command, seen through the server and in the partitions
	checkKV := func(cls, line, raw string) {
		want, exists := ss.kv[rk(raw)]
		vs, prob := ss.do("get", raw)
		if prob != "" {
			c.Violation(cls, fmt.Sprintf("%s => GET %s: %s", line, smShow(raw), prob))
			return
		}
		if exists && !(len(vs) == 1 && vs[0].k == 'b' && string(vs[0].b) == want) || !exists && !(len(vs) == 1 && vs[0].k == 'n') {
			w := "nil"
			if exists {
				w = "bulk:" + hexs([]byte(want))
			}
			c.Violation(cls, fmt.Sprintf("%s => afterwards GET %s = %s, one store has %s (P=%d)", line, smShow(raw), canonRVs(vs), w, ss.srv.P))
			// reported; go on from what the server really has, so that one deviation is not reported again by every
			// later command that touches the key
			if len(vs) == 1 && vs[0].k == 'b' {
				ss.kv[rk(raw)] = string(vs[0].b)
				exists = true
			} else if len(vs) == 1 && vs[0].k == 'n' {
				delete(ss.kv, rk(raw))
				exists = false
			}
		}
		hs := ss.holders("kv", raw)
		exp := smClientPartition(raw, ss.srv.P)
		if exists && !(len(hs) == 1 && hs[0] == exp) || !exists && len(hs) != 0 {
			c.Violation(cls, fmt.Sprintf("%s => afterwards key %s (exists=%v) is held by partitions %v, its owner is partition %d of %d", line, smShow(raw), exists, hs, exp, ss.srv.P))
		}
	}
	distinct := func(ks []string) []string {
		seen := map[string]bool{}
		var out []string
		for _, k := range ks {
			if !seen[k] {
				seen[k] = true
				out = append(out, k)
			}
		}
		return out
	}
	// shadow execution of one single-store command on the kv keyspace → expected reply
	shadowKV := func(a []string) (want string, touched []string) {
		switch strings.ToLower(a[0]) {
		case "set":
			ss.kv[rk(a[1])] = a[2]
			return "str:OK", []string{a[1]}
		case "get":
			if v, ok := ss.kv[rk(a[1])]; ok {
				return "bulk:" + hexs([]byte(v)), nil
			}
			return "nil", nil
		case "exists":
			n := 0
			for _, k := range a[1:] {
				if _, ok := ss.kv[rk(k)]; ok {
					n++
				}
			}
			return "int:" + strconv.Itoa(n), nil
		case "del":
			// ONE store of this code base counts every OCCURRENCE of an existing key (the existence test reads the
			// store, not the write batch): `DEL k k` = 2 where redis answers 1 (DESIGN §0.3, C08_dev). Counted below.
			n := 0
			for _, k := range a[1:] {
				if _, ok := ss.kv[rk(k)]; ok {
					n++
				}
			}
			if d := distinct(a[1:]); len(d) != len(a[1:]) {
				m := 0
				for _, k := range d {
					if _, ok := ss.kv[rk(k)]; ok {
						m++
					}
				}
				if m != n {
					c.Note("deviation-from-redis:del-counts-repeated-existing-key-per-occurrence")
				}
			}
			for _, k := range a[1:] {
				delete(ss.kv, rk(k))
			}
			return "int:" + strconv.Itoa(n), a[1:]
		}
		return "?", nil
	}

	return func(line string) string {
		f := strings.Fields(line)
		switch f[0] {
		case "reset":
			a := linKV(line)
			P, _ := strconv.Atoi(a["P"])
			if P < 1 || P > 64 {
				return "bad-op"
			}
			via := a["via"]
			if via != "tcp" {
				via = "mem"
			}
			H, _ := strconv.Atoi(a["H"]) // H=<k>: only partitions 0..k-1 are hosted by this node (0 / absent: all)
			if H < 0 || H >= P {
				H = 0
			}
			return openH(P, via, H)

		case "w":
			if len(f) < 4 || !need() {
				return "bad-op"
			}
			tp := f[1]
			a := unhexAll(f[2:])
			raw, es := a[0], a[1:]
			if smKeyValidity(raw) != 1 {
				return "bad-op"
			}
			k := rk(raw)
			P := ss.srv.P
			var vs []rv
			var prob string
			okReply := false
			var readBack func() (bool, string)
			switch tp {
			case "kv":
				vs, prob = ss.do("set", raw, es[0])
				okReply = len(vs) == 1 && vs[0].k == 's' && string(vs[0].b) == "OK"
				if okReply {
					ss.kv[k] = es[0]
				}
				readBack = func() (bool, string) {
					r, p := ss.do("get", raw)
					if p != "" {
						return false, p
					}
					e, p2 := ss.do("exists", raw) // the merge path for one key
					if p2 != "" {
						return false, p2
					}
					return len(r) == 1 && r[0].k == 'b' && string(r[0].b) == es[0] && smIsInt(e, 1), "GET " + canonRVs(r) + " EXISTS " + canonRVs(e)
				}
			case "hash":
				if len(es)%2 != 0 {
					return "bad-op"
				}
				vs, prob = ss.do(append([]string{"hmset", raw}, es...)...)
				okReply = len(vs) == 1 && vs[0].k == 's' && string(vs[0].b) == "OK"
				if okReply {
					if ss.hash[k] == nil {
						ss.hash[k] = map[string]string{}
					}
					for i := 0; i+1 < len(es); i += 2 {
						ss.hash[k][es[i]] = es[i+1]
					}
				}
				readBack = func() (bool, string) {
					r, p := ss.do("hlen", raw)
					return p == "" && smIsInt(r, int64(len(ss.hash[k]))), "HLEN " + canonRVs(r) + p
				}
			case "list":
				vs, prob = ss.do(append([]string{"rpush", raw}, es...)...)
				okReply = smIsInt(vs, int64(len(ss.list[k])+len(es)))
				if len(vs) == 1 && vs[0].k == 'i' {
					ss.list[k] = append(ss.list[k], es...)
				}
				readBack = func() (bool, string) {
					r, p := ss.do("llen", raw)
					return p == "" && smIsInt(r, int64(len(ss.list[k]))), "LLEN " + canonRVs(r) + p
				}
			case "set":
				added := 0
				in := map[string]bool{}
				for _, e := range es {
					if !ss.set[k][e] && !in[e] {
						added++
					}
					in[e] = true
				}
				vs, prob = ss.do(append([]string{"sadd", raw}, es...)...)
				okReply = smIsInt(vs, int64(added))
				if len(vs) == 1 && vs[0].k == 'i' {
					if ss.set[k] == nil {
						ss.set[k] = map[string]bool{}
					}
					for e := range in {
						ss.set[k][e] = true
					}
				}
				readBack = func() (bool, string) {
					r, p := ss.do("scard", raw)
					return p == "" && smIsInt(r, int64(len(ss.set[k]))), "SCARD " + canonRVs(r) + p
				}
			case "zset":
				added := 0
				sc := map[string]int{}
				args := []string{"zadd", raw}
				for i, e := range es {
					if _, ok := ss.zset[k][e]; !ok {
						if _, ok2 := sc[e]; !ok2 {
							added++
						}
					}
					sc[e] = i + 1
					args = append(args, strconv.Itoa(i+1), e)
				}
				vs, prob = ss.do(args...)
				okReply = smIsInt(vs, int64(added))
				if len(vs) == 1 && vs[0].k == 'i' {
					if ss.zset[k] == nil {
						ss.zset[k] = map[string]int{}
					}
					for e, x := range sc {
						ss.zset[k][e] = x
					}
				}
				readBack = func() (bool, string) {
					r, p := ss.do("zcard", raw)
					return p == "" && smIsInt(r, int64(len(ss.zset[k]))), "ZCARD " + canonRVs(r) + p
				}
			default:
				return "bad-op"
			}
			if prob != "" {
				return broken(line, prob)
			}
			if !okReply {
				// every key the generator writes is well-formed: a refusal means the command did not reach a partition
				// that serves it
				c.Violation("route-write-refused", fmt.Sprintf("%s write of %s through a %d-partition server answered %s", tp, smShow(raw), P, canonRVs(vs)))
				if len(vs) == 1 && vs[0].k == 'e' {
					return "err:" + errClass(string(vs[0].b))
				}
				return "err:reply"
			}
			hs := ss.holders(tp, raw)
			exp := smClientPartition(raw, P)
			if srvp := node.GetHashedPartitionID([]byte(k), P); srvp != exp {
				c.Violation("route-client-server-disagree", fmt.Sprintf("key %s P=%d: node.GetHashedPartitionID %d, SDK %d", smShow(raw), P, srvp, exp))
			}
			if len(hs) != 1 || hs[0] != exp {
				c.Violation("route-wrong-partition", fmt.Sprintf("%s key %s written through the server (P=%d) is held by partitions %v; the client formula (SDK GetHashedPartitionID) says %d", tp, smShow(raw), P, hs, exp))
			}
			if ok, got := readBack(); !ok {
				c.Violation("route-read-back", fmt.Sprintf("%s key %s written through the server (P=%d, holders %v) reads back through the server as %s", tp, smShow(raw), P, hs, got))
			}
			c.Note("w:" + tp)
			if len(hs) == 1 {
				return "p=" + strconv.Itoa(hs[0])
			}
			return fmt.Sprintf("p=%v", hs)

		case "mk":
			if len(f) < 3 || !need() {
				return "bad-op"
			}
			a := unhexAll(f[2:])
			for i, k := range a {
				if (f[1] != "plset" || i%2 == 0) && smKeyValidity(k) != 1 {
					return "bad-op"
				}
			}
			P := ss.srv.P
			parts := map[int]bool{}
			switch f[1] {
			case "exists", "del":
				for _, k := range a {
					parts[smClientPartition(k, P)] = true
				}
				want, touched := shadowKV(append([]string{f[1]}, a...))
				vs, prob := ss.do(append([]string{f[1]}, a...)...)
				if prob != "" {
					return broken(line, prob)
				}
				if canonRVs(vs) != want {
					c.Violation("multi-"+f[1], fmt.Sprintf("%s %s over %d of %d partitions answered %s, one store answers %s", strings.ToUpper(f[1]), smShowKeys(a), len(parts), P, canonRVs(vs), want))
				}
				for _, k := range distinct(touched) {
					checkKV("multi-"+f[1]+"-state", strings.ToUpper(f[1])+" "+smShowKeys(a), k)
				}
				c.Note(fmt.Sprintf("mk:%s:partitions=%d", f[1], smBucket(len(parts))))
				if len(distinct(a)) != len(a) {
					c.Note("mk:" + f[1] + ":repeated-key")
				}
				return canonRVs(vs)
			case "plset":
				if len(a)%2 != 0 {
					return "bad-op"
				}
				var ks []string
				for i := 0; i < len(a); i += 2 {
					ks = append(ks, a[i])
					parts[smClientPartition(a[i], P)] = true
				}
				vs, prob := ss.do(append([]string{"plset"}, a...)...)
				if prob != "" {
					return broken(line, prob)
				}
				okAll := len(vs) == len(ks)
				for _, v := range vs {
					if !(v.k == 's' && string(v.b) == "OK") {
						okAll = false
					}
				}
				if !okAll {
					c.Violation("multi-plset-reply", fmt.Sprintf("PLSET of %d pairs %s over %d of %d partitions answered %s; one OK per pair expected", len(ks), smShowKeys(a), len(parts), P, canonRVs(vs)))
				}
				for i := 0; i < len(a); i += 2 {
					ss.kv[rk(a[i])] = a[i+1] // the last write wins
				}
				for _, k := range distinct(ks) {
					checkKV("multi-plset-state", "PLSET "+smShowKeys(a), k)
				}
				c.Note(fmt.Sprintf("mk:plset:partitions=%d", smBucket(len(parts))))
				if len(distinct(ks)) != len(ks) {
					c.Note("mk:plset:repeated-key")
				}
				return canonRVs(vs)
			case "mget":
				var want []string
				for _, k := range a {
					parts[smClientPartition(k, P)] = true
					if v, ok := ss.kv[rk(k)]; ok {
						want = append(want, "bulk:"+hexs([]byte(v)))
					} else {
						want = append(want, "nil")
					}
				}
				vs, prob := ss.do(append([]string{"mget"}, a...)...)
				if prob != "" {
					return broken(line, prob)
				}
				w := "arr:[" + strings.Join(want, ",") + "]"
				if canonRVs(vs) != w {
					c.Violation("multi-mget", fmt.Sprintf("MGET %s over %d of %d partitions answered %s, one store answers %s", smShowKeys(a), len(parts), P, canonRVs(vs), w))
				}
				c.Note(fmt.Sprintf("mk:mget:partitions=%d", smBucket(len(parts))))
				return canonRVs(vs)
			}
			return "bad-op"

		case "pipe":
			if len(f) != 2 || !need() {
				return "bad-op"
			}
			var cmds [][][]byte
			var show []string
			allSet := true
			badKey := map[int]bool{} // positions of SETs whose key no store accepts
			for _, cs := range strings.Split(f[1], "|") {
				var a [][]byte
				for _, h := range strings.Split(cs, ",") {
					a = append(a, unhex(h))
				}
				if len(a) < 2 {
					return "bad-op"
				}
				name := strings.ToLower(string(a[0]))
				switch name {
				case "set":
					if len(a) != 3 {
						return "bad-op"
					}
				case "get":
					if len(a) != 2 {
						return "bad-op"
					}
					allSet = false
				case "exists", "del":
					allSet = false
				default:
					return "bad-op"
				}
				for i, k := range a[1:] {
					if name == "set" && i > 0 {
						continue
					}
					switch smKeyValidity(string(k)) {
					case 0:
						return "bad-op"
					case -1:
						if name != "set" {
							return "bad-op"
						}
						badKey[len(cmds)] = true
					}
				}
				cmds = append(cmds, a)
				sa := make([]string, len(a))
				for i := range a {
					sa[i] = string(a[i])
					if len(sa[i]) > 64 {
						sa[i] = sa[i][:40] + fmt.Sprintf("…(%d bytes)", len(a[i]))
					}
				}
				show = append(show, strings.ToUpper(sa[0])+" "+smShowKeys(sa[1:]))
			}
			desc := "pipeline {" + strings.Join(show, "; ") + "}"
			cls := "pipe"
			if len(badKey) > 0 {
				// kept apart: what a pipeline does with a SET that no store accepts (known findings live here)
				cls = "pipe-badkey"
			}
			vals, prob := ss.exchange(cmds)
			if prob != "" && !strings.Contains(prob, "replies for") {
				return broken(line, prob)
			}
			// pipelining is transparent: ONE store, one command after the other
			var want []string
			var touched []string
			for i, a := range cmds {
				if badKey[i] {
					want = append(want, "err")
					continue
				}
				sa := make([]string, len(a))
				for j := range a {
					sa[j] = string(a[j])
				}
				w, t := shadowKV(sa)
				want = append(want, w)
				touched = append(touched, t...)
			}
			got := make([]string, len(vals))
			for i, v := range vals {
				got[i] = canonRV(v)
			}
			cmp := append([]string{}, got...)
			for i := range cmp {
				if badKey[i] && strings.HasPrefix(cmp[i], "err:") {
					cmp[i] = "err"
				}
			}
			if len(got) != len(want) {
				c.Violation(cls+"-reply-count", fmt.Sprintf("%s (P=%d, via %s): %d replies for %d commands: %v", desc, ss.srv.P, ss.via, len(got), len(want), got))
			} else if strings.Join(cmp, ",") != strings.Join(want, ",") {
				c.Violation(cls+"-reply", fmt.Sprintf("%s (P=%d, via %s) answered %v, the commands sent one at a time answer %v", desc, ss.srv.P, ss.via, got, want))
			}
			for _, k := range distinct(touched) {
				checkKV(cls+"-state", desc, k)
			}
			switch {
			case len(badKey) > 0:
				c.Note("pipe:with-unacceptable-set-key")
			case allSet && len(cmds) > 1:
				c.Note("pipe:all-set(rewritten-to-plset)")
			default:
				c.Note("pipe:mixed")
			}
			return "[" + strings.Join(got, ",") + "]"

		case "plcount":
			// how many replies ONE PLSET request gets (Lean: Z.Props.C11Plset.replies over the regenerated guards / loops):
			// keys (even positions) are keys every layer accepts, of hosted partitions; any number of arguments
			if !need() || lastH != 0 {
				return "bad-op"
			}
			a := unhexAll(f[1:])
			for i, k := range a {
				if i%2 == 0 && smKeyValidity(k) != 1 {
					return "bad-op"
				}
			}
			vs, prob := ss.do(append([]string{"plset"}, a...)...)
			if prob != "" && !strings.Contains(prob, "replies for") {
				return broken(line, prob)
			}
			allOK := len(vs) > 0
			for _, v := range vs {
				if !(v.k == 's' && string(v.b) == "OK") {
					allOK = false
				}
			}
			if allOK {
				for i := 0; i+1 < len(a); i += 2 {
					ss.kv[rk(a[i])] = a[i+1]
				}
			}
			c.Note(fmt.Sprintf("plcount:args=%d:replies=%d", len(a), len(vs)))
			return fmt.Sprintf("replies=%d", len(vs))

		case "scan":
			if len(f) != 6 || !need() {
				return "bad-op"
			}
			return smScanLoop(c, ss, line, f[1], f[2], f[3], f[4], f[5], broken)

		case "child":
			a := linKV(line)
			P, _ := strconv.Atoi(a["P"])
			if P < 1 || P > 64 {
				return "bad-op"
			}
			if ch != nil {
				if ch.isDead(300 * time.Millisecond) {
					died("(before the next child is started)")
				} else {
					ch.kill()
					ch = nil
				}
			}
			recent = nil
			childP = P
			return retryHarness(c, 3, func() string {
				var err error
				ch, err = startSMChild(P)
				if err != nil {
					ch = nil
					c.Violation("harness", "child start: "+err.Error())
					return "err:start"
				}
				c.Note(fmt.Sprintf("child:P=%d", P))
				return "ok"
			})

		case "raw":
			if len(f) < 2 {
				return "bad-op"
			}
			if ch == nil {
				var err error
				if ch, err = startSMChild(childP); err != nil {
					ch = nil
					c.Violation("harness", "child start: "+err.Error())
					return "err:start"
				}
			}
			var args [][]byte
			for _, x := range f[1:] {
				args = append(args, unhex(x))
			}
			sa := make([]string, len(args))
			for i := range args {
				sa[i] = string(args[i])
			}
			req := smShowKeys(sa)
			c.Note("raw:" + strings.ToLower(sa[0]))
			if ch.tcp == nil {
				t, err := smDial(ch.port)
				if err != nil {
					if ch.isDead(2 * time.Second) {
						return died(req + " (connection refused)")
					}
					c.Violation("harness", "dial child: "+err.Error())
					return "err:dial"
				}
				ch.tcp = t
			}
			vals, err := ch.tcp.probe(args, 300*time.Millisecond, 20*time.Second)
			defer func() {
				if recent = append(recent, req); len(recent) > 3 {
					recent = recent[1:]
				}
			}()
			if err != nil {
				ch.tcp.c.Close()
				ch.tcp = nil
				if ch.isDead(3 * time.Second) {
					return died(req)
				}
				if strings.Contains(err.Error(), "i/o timeout") {
					c.Violation("hang", fmt.Sprintf("request %s (P=%d): the connection does not answer a PING within 20 s any more, the process is alive", req, ch.P))
					ch.kill()
					ch = nil
					return "hang"
				}
				if strings.HasPrefix(err.Error(), "verif:") {
					c.Violation("harness", fmt.Sprintf("request %s: %v", req, err))
					return "err:harness"
				}
				// the connection was closed without a reply: serverRedis recovered a panic of the connection goroutine
				c.Violation("panic:conn-closed", fmt.Sprintf("request %s (P=%d): the server closed the connection (%v) after %d reply values", req, ch.P, err, len(vals)))
				return "conn-closed"
			}
			if len(vals) == 0 {
				// the next command on the connection was answered, this one never: a client that waits for the reply
				// hangs, one that pipelines takes the next reply for this one
				c.Violation("no-reply", fmt.Sprintf("request %s (P=%d) is never answered (the PING sent after it is)", req, ch.P))
				return "no-reply"
			}
			out := ""
			v := vals[0]
			switch v.k {
			case 'e':
				out = "err:" + errClass(string(v.b))
				c.Note("raw-err:" + strings.ToLower(sa[0]))
			case 'a':
				out = "arr"
				c.Note("raw-ok:" + strings.ToLower(sa[0]))
			default:
				out = canonRV(v)
				if len(out) > 24 {
					out = out[:24]
				}
				c.Note("raw-ok:" + strings.ToLower(sa[0]))
			}
			if len(vals) > 1 {
				out += fmt.Sprintf("+%d", len(vals)-1)
			}
			return out
		}
		return "bad-op"
	}
}

// smRepairCursor strips "table:" from every partition's cursor inside the server's cross-partition cursor.
func smRepairCursor(cur, table string) (string, bool) {
	dec, err := base64.StdEncoding.DecodeString(cur)
	if err != nil {
		return "", false
	}
	var out []byte
	for _, part := range bytes.Split(bytes.TrimRight(dec, ";"), []byte(";")) {
		pc := bytes.SplitN(part, []byte(":"), 2)
		if len(pc) != 2 {
			return "", false
		}
		inner, err := base64.StdEncoding.DecodeString(string(pc[1]))
		if err != nil {
			return "", false
		}
		inner = bytes.TrimPrefix(inner, []byte(table+":"))
		out = append(out, pc[0]...)
		out = append(out, ':')
		out = append(out, []byte(base64.StdEncoding.EncodeToString(inner))...)
		out = append(out, ';')
	}
	return base64.StdEncoding.EncodeToString(out), true
}

func smBucket(n int) int {
	if n > 4 {
		return 5
	}
	return n
}

// ---------------------------------------------------------------------------------------------------------------
// merged scans

// smScanLoop is the client: start cursor, feed every returned cursor back until it is empty.
func smScanLoop(c *Ctx, ss *smSess, line, cmd, table, tp, cnt, hexMatch string, broken func(string, string) string) string {
	P := ss.srv.P
	// scan+ / revscan+: the same commands driven by a client that REPAIRS the cursor it feeds back. The node answers
	// SCAN / REVSCAN with next cursor = the last key INCLUDING its table ("t:k3"), the server's cross-partition codec
	// puts the table in front of every partition's cursor again ("t:t:k3"), so the documented loop does not continue
	// where it stopped (known finding C13-merged-scan-cursor-table-twice). The repairing client strips the table from
	// every partition's cursor inside base64("pid:base64(cursor);"…) so that the later pages are exercised as well.
	repair := strings.HasSuffix(cmd, "+")
	cmd = strings.TrimSuffix(cmd, "+")
	if repair && cmd != "scan" && cmd != "revscan" {
		return "bad-op"
	}
	reverse := cmd == "revscan" || cmd == "advrevscan"
	full := cmd == "fullscan"
	switch cmd {
	case "scan", "revscan":
		tp = "kv"
	case "advscan", "advrevscan", "fullscan":
	default:
		return "bad-op"
	}
	if strings.ContainsAny(table, ":") || table == "" {
		return "bad-op"
	}
	match := ""
	if hexMatch != "-" {
		match = string(unhex(hexMatch))
	}
	count := 0
	if cnt != "-" {
		var err error
		if count, err = strconv.Atoi(cnt); err != nil || count < 1 {
			return "bad-op"
		}
	}
	// what the table holds for this type: key part → elements (canonical strings)
	want := map[string][]string{}
	prefix := table + ":"
	add := func(k string, elems []string) {
		if strings.HasPrefix(k, prefix) {
			want[k[len(prefix):]] = elems
		}
	}
	switch tp {
	case "kv":
		for k, v := range ss.kv {
			add(k, []string{v})
		}
	case "hash":
		for k, h := range ss.hash {
			var es []string
			for f, v := range h {
				es = append(es, f+"\x00=\x00"+v)
			}
			sort.Strings(es)
			add(k, es)
		}
	case "list":
		for k, l := range ss.list {
			add(k, append([]string{}, l...))
		}
	case "set":
		for k, s := range ss.set {
			var es []string
			for m := range s {
				es = append(es, m)
			}
			sort.Strings(es)
			add(k, es)
		}
	case "zset":
		for k, z := range ss.zset {
			var es []string
			for m, sc := range z {
				es = append(es, m+"\x00=\x00"+strconv.Itoa(sc))
			}
			sort.Strings(es)
			add(k, es)
		}
	default:
		return "bad-op"
	}
	// MATCH: the store matches the pattern against "table:key" for key scans (SCAN / ADVSCAN, and FULLSCAN of kv) and
	// against the key part for FULLSCAN of collections; a client sees key parts only. Patterns that start with `*`
	// mean the same under both readings as long as the literal part cannot match inside "table:"; for anchored patterns
	// both readings are accepted and the one the code took is counted (reported as an observation, see notes).
	matchKey := func(kp string) (keyReading, fullReading bool) {
		if match == "" {
			return true, true
		}
		return smGlob(match, kp), smGlob(match, prefix+kp)
	}
	// start cursor. Forward: the empty cursor. Reverse: the empty cursor yields nothing by design (the range is
	// (type start, cursor) and the cursor is its exclusive UPPER end), a client starts from a cursor that sorts after
	// every key of the table, in the server's own cross-partition encoding base64("pid:base64(cursor);"…) for every
	// partition (server/redis_api_scan_test.go checkAdvanceRevScan does the same for one partition).
	cursor := ""
	if reverse {
		var inner []byte
		for p := 0; p < P; p++ {
			inner = append(inner, []byte(strconv.Itoa(p)+":"+base64.StdEncoding.EncodeToString([]byte("\xff\xff\xff\xff"))+";")...)
		}
		cursor = base64.StdEncoding.EncodeToString(inner)
	}
	total := 0
	for _, es := range want {
		total += 1 + len(es)
	}
	bound := total + 2*P + 8
	got := map[string][]string{} // key part → elements in the order received (fullscan), or nil
	seen := map[string]int{}
	lastOfPart := map[int]string{}
	hasLast := map[int]bool{}
	rounds := 0
	shown := strings.ToUpper(cmd)
	if repair {
		shown += "(client repairs the cursor)"
	}
	desc := fmt.Sprintf("%s table %s type %s count %s match %s (P=%d, %d keys of the type in the table)", shown, table, tp, cnt, smShow(match), P, len(want))
	viol := func(cls, what string) { c.Violation(cls, desc+": "+what) }
	for {
		if rounds >= bound {
			viol("scan-nonterminating", fmt.Sprintf("no empty cursor after %d rounds (%d keys received so far)", rounds, len(seen)))
			return "err:nonterminating"
		}
		rounds++
		args := []string{cmd, smNS + ":" + table + ":" + cursor}
		if cmd != "scan" && cmd != "revscan" {
			args = append(args, tp)
		}
		if match != "" {
			args = append(args, "match", match)
		}
		if cnt != "-" {
			args = append(args, "count", cnt)
		}
		vs, prob := ss.do(args...)
		if prob != "" {
			return broken(line, prob)
		}
		if len(vs) != 1 || vs[0].k != 'a' || len(vs[0].arr) != 2 || vs[0].arr[0].k != 'b' || vs[0].arr[1].k != 'a' {
			r := canonRVs(vs)
			if len(r) > 200 {
				r = r[:200]
			}
			viol("scan-error", fmt.Sprintf("round %d with cursor %q answered %s", rounds, cursor, r))
			return "err:reply"
		}
		next := string(vs[0].arr[0].b)
		for _, it := range vs[0].arr[1].arr {
			var kp string
			var elems []string
			bad := false
			if !full {
				if it.k != 'b' {
					bad = true
				}
				kp = string(it.b)
			} else {
				if it.k != 'a' || len(it.arr) < 1 || it.arr[0].k != 'b' {
					bad = true
				} else {
					kp = string(it.arr[0].b)
					for _, e := range it.arr[1:] {
						switch {
						case e.k == 'b':
							elems = append(elems, string(e.b))
						case e.k == 'a' && len(e.arr) == 2 && e.arr[0].k == 'b' && e.arr[1].k == 'b':
							elems = append(elems, string(e.arr[0].b)+"\x00=\x00"+string(e.arr[1].b))
						default:
							bad = true
						}
					}
				}
			}
			if bad {
				viol("scan-error", fmt.Sprintf("round %d: malformed item %s", rounds, canonRV(it)))
				return "err:item"
			}
			if _, ok := want[kp]; !ok {
				viol("scan-foreign", fmt.Sprintf("round %d returned %s, which is not a %s key of table %s", rounds, smShow(kp), tp, table))
				return "err:foreign"
			}
			// order inside a partition (the documented guarantee)
			p := smClientPartition(smNS+":"+prefix+kp, P)
			if hasLast[p] && lastOfPart[p] != kp {
				less := func(a, b string) bool {
					if full && tp != "kv" && len(a) != len(b) {
						// FULLSCAN walks the DATA keys of a collection type, which carry the key behind a 2-byte length:
						// the storage order of the keys is (length, bytes)
						return len(a) < len(b)
					}
					return a < b
				}
				if !reverse && !less(lastOfPart[p], kp) || reverse && !less(kp, lastOfPart[p]) {
					viol("scan-order", fmt.Sprintf("round %d: partition %d returned %s after %s", rounds, p, smShow(kp), smShow(lastOfPart[p])))
				}
			}
			lastOfPart[p], hasLast[p] = kp, true
			if !full {
				seen[kp]++
				if seen[kp] == 2 {
					viol("scan-duplicate", fmt.Sprintf("round %d returned %s a second time", rounds, smShow(kp)))
				}
			} else {
				seen[kp]++
				got[kp] = append(got[kp], elems...)
			}
		}
		if next == "" {
			break
		}
		if repair {
			fixed, ok := smRepairCursor(next, table)
			if !ok {
				viol("scan-error", fmt.Sprintf("round %d: the returned cursor %q is not base64(pid:base64(cursor);…)", rounds, next))
				return "err:cursor"
			}
			next = fixed
		}
		cursor = next
	}
	// completeness and exactness
	kr, fr := 0, 0 // keys received that match under the key-part reading / the table:key reading
	var missKey, missFull, extraKey, extraFull []string
	for kp := range want {
		a, b := matchKey(kp)
		_, have := seen[kp]
		if a {
			kr++
			if !have {
				missKey = append(missKey, kp)
			}
		} else if have {
			extraKey = append(extraKey, kp)
		}
		if b {
			fr++
			if !have {
				missFull = append(missFull, kp)
			}
		} else if have {
			extraFull = append(extraFull, kp)
		}
	}
	sort.Strings(missKey)
	sort.Strings(missFull)
	okKey := len(missKey) == 0 && len(extraKey) == 0
	okFull := len(missFull) == 0 && len(extraFull) == 0
	switch {
	case okKey && okFull:
	case okKey:
		c.Note("match-reading:key-part-only")
	case okFull:
		c.Note("match-reading:table-colon-key")
	default:
		show := func(xs []string) string {
			if len(xs) > 6 {
				return smShowKeys(xs[:6]) + fmt.Sprintf("… (%d)", len(xs))
			}
			return smShowKeys(xs)
		}
		// judge by the reading that fits better: one under which nothing that was returned fails to match (if there is
		// exactly one such reading), else the one with fewer errors
		miss, extra, n := missKey, extraKey, kr
		switch {
		case len(extraKey) == 0 && len(extraFull) > 0:
		case len(extraFull) == 0 && len(extraKey) > 0:
			miss, extra, n = missFull, extraFull, fr
		case len(missFull)+len(extraFull) < len(missKey)+len(extraKey):
			miss, extra, n = missFull, extraFull, fr
		}
		sort.Strings(extra)
		if len(extra) == 0 {
			viol("scan-missing", fmt.Sprintf("after %d rounds %d of %d keys were never returned: %s", rounds, len(miss), n, show(miss)))
		} else {
			viol("scan-match", fmt.Sprintf("after %d rounds the returned keys are not the matching subset under either reading of MATCH: returned but not matching %s, matching but missing %s", rounds, show(extra), show(miss)))
		}
	}
	if full {
		// every element of every returned key exactly once (a collection may be cut into several items)
		for kp, es := range got {
			w := want[kp]
			g := append([]string{}, es...)
			if tp != "list" {
				sort.Strings(g)
			}
			if strings.Join(g, "\x01") != strings.Join(w, "\x01") {
				viol("scan-elements", fmt.Sprintf("key %s came back with elements %s, it has %s", smShow(kp), smShowKeys(g), smShowKeys(w)))
				break
			}
		}
	}
	if repair {
		c.Note("scan:" + cmd + "+")
	} else {
		c.Note("scan:" + cmd)
	}
	c.Note("scan-count:" + cnt)
	if match != "" {
		c.Note("scan:with-match")
	}
	if len(seen) > 0 {
		c.Note("scan:nonempty")
	}
	if rounds > 2 {
		c.Note("scan:multi-round")
	}
	return fmt.Sprintf("n=%d rounds=%d", len(seen), rounds)
}
