package main

import (
	"fmt"
	"math/rand"
	"sort"
	"strconv"
	"strings"

	"github.com/absolute8511/redcon"
	"github.com/gobwas/glob"
	"github.com/youzan/ZanRedisDB/common"
)

// C13: cursor scans on a real KVNode/RockDB (advscan / advrevscan through the node's merge handler with its
// next-cursor and table-boundary rules; hscan / sscan / zscan and their reverse forms through the read handlers)
// vs the Lean paging model; the client loop "feed the cursor back until it is empty" runs on both sides.
//
//	open <eng>
//	pop <type> <hexrawkey> [<hexsub>…]        kv | hash | set | zset | list   (rawkey = table:key)
//	adv <TYPE> <hexcursor table:cur> <count> <rev>            → keys=[…] next=<hex>        one page
//	full <TYPE> <hextable> <hexstart> <count> <rev>           → keys=[…] rounds=<n>        client loop
//	cscan <h|s|z> <hexrawkey> <hexcursor> <count> <rev>       → items=[…] next=<hex>       one page
//	cfull <h|s|z> <hexrawkey> <hexstart> <count> <rev>        → items=[…] rounds=<n>       client loop
//	fullm / cfullm … <hexprefix>                              the same loops with MATCH <prefix>* (modelled in Lean)
//	fullg / cfullg … <hexpattern>                             the same loops with MATCH <glob pattern> (oracle only: the
//	                                                          matching subset as the glob library itself decides it)
//	bigpop <kv|set> <hextable> <n>                            n keys k00000… plus a_hit_0, z_hit_1, z_hit_2 in a table of
//	                                                          its own (oracle only; sparse matches behind thousands of misses)
func init() { register(&Proto{Name: "scan", Gen: genScan, New: newScan}) }

var scanTypes = []string{"KV", "HASH", "LIST", "SET", "ZSET"}

func genScan(rng *rand.Rand, tier string, emit func(string)) {
	sessions := 60
	if tier == "thorough" {
		sessions = 3000
	}
	names := []string{"a", "a0", "a:", "a:b", "ab", "b", "\x00", "a\x00", "\xff", "a\xff", "aa", "z", "m", "m:n", ";", ":", "abc", "abd", "abc1"} // non-empty names (the property's quantifier)
	globs := []string{"a*", "*a", "?", "a?", "a??", "[a-m]*", "[!a]*", "{a,b}*", "a{b,0}*", "ab{c,d}*", "ab{c,d}?", "{a,m}", "*:*", "a\\:*", "*b*", "**", "a[0-9]", "{ab,z}*", "m{,:n}"}
	for s := 0; s < sessions; s++ {
		eng := "pebble"
		if rng.Intn(3) == 0 {
			eng = "mem"
		}
		emit("open " + eng)
		// tables that are neighbours in byte order: t, t!, t0 and the boundary characters around ':'
		tables := []string{"t", "t!", "t0", "s"}
		ntab := 1 + rng.Intn(3)
		tabs := tables[:ntab]
		nkeys := rng.Intn(25)
		var collKeys []string
		for i := 0; i < nkeys; i++ {
			tp := []string{"kv", "hash", "set", "zset", "list"}[rng.Intn(5)]
			raw := tabs[rng.Intn(ntab)] + ":" + names[rng.Intn(len(names))]
			line := fmt.Sprintf("pop %s %s", tp, hexs([]byte(raw)))
			if tp != "kv" {
				n := 1 + rng.Intn(12)
				seen := map[string]bool{}
				for j := 0; j < n; j++ {
					m := names[rng.Intn(len(names))]
					if seen[m] {
						continue
					}
					seen[m] = true
					line += " " + hexs([]byte(m))
				}
				if tp != "list" {
					collKeys = append(collKeys, tp[:1]+" "+hexs([]byte(raw)))
				}
			}
			emit(line)
		}
		for q := 0; q < 12; q++ {
			T := scanTypes[rng.Intn(5)]
			tab := tabs[rng.Intn(ntab)]
			cnt := 1 + rng.Intn(6)
			if rng.Intn(8) == 0 {
				cnt = []int{0, 7, 30, 100, 5001}[rng.Intn(5)] // COUNT from 1 up, and 0 = default
			}
			rev := rng.Intn(2)
			start := ""
			if rev == 1 {
				start = []string{"\xff\xff\xff", "~", "zz", "m", ""}[rng.Intn(5)]
			} else if rng.Intn(4) == 0 {
				start = names[rng.Intn(len(names))]
			}
			if rng.Intn(3) == 0 {
				if rng.Intn(10) == 0 {
					// a negative COUNT must be refused (it made the handler index an empty page with -1: inside the merge
					// goroutines of the server that is a process crash; fix listed in DESIGN §0.2); empty tables included
					cnt = -1 - rng.Intn(3)
					if rng.Intn(2) == 0 {
						tab = "zzempty"
					}
				}
				emit(fmt.Sprintf("adv %s %s %d %d", T, hexs([]byte(tab+":"+start)), cnt, rev))
			} else {
				if rng.Intn(4) == 0 {
					emit(fmt.Sprintf("fullm %s %s %s %d %d %s", T, hexs([]byte(tab)), hexs([]byte(start)), cnt, rev, hexs([]byte([]string{"a", "m", "ab", "z", "a0"}[rng.Intn(5)]))))
				} else {
					emit(fmt.Sprintf("full %s %s %s %d %d", T, hexs([]byte(tab)), hexs([]byte(start)), cnt, rev))
				}
			}
		}
		// MATCH with general glob patterns (alternation, classes, single-character wildcards), oracle only
		for q := 0; q < 4; q++ {
			g := globs[rng.Intn(len(globs))]
			cnt := []int{1, 2, 3, 5, 7, 100}[rng.Intn(6)]
			if len(collKeys) > 0 && rng.Intn(2) == 0 {
				emit(fmt.Sprintf("cfullg %s %s %d %d %s", collKeys[rng.Intn(len(collKeys))], hexs(nil), cnt, rng.Intn(2), hexs([]byte(g))))
			} else {
				emit(fmt.Sprintf("fullg %s %s %s %d %d %s", scanTypes[rng.Intn(5)], hexs([]byte(tabs[rng.Intn(ntab)])), hexs(nil), cnt, rng.Intn(2), hexs([]byte(g))))
			}
		}
		// one session per quick run (a few per thorough run): matches that are thousands of non-matching keys apart
		if (tier != "thorough" && s == 3) || (tier == "thorough" && s%200 == 3) {
			for _, tp := range []string{"kv", "set"} {
				big := "big" + tp
				emit(fmt.Sprintf("bigpop %s %s %d", tp, hexs([]byte(big)), 5200+rng.Intn(1500)))
				for _, cnt := range []int{2, 100, 3000} {
					emit(fmt.Sprintf("fullg %s %s %s %d %d %s", strings.ToUpper(tp), hexs([]byte(big)), hexs(nil), cnt, 0, hexs([]byte("*hit*"))))
				}
				emit(fmt.Sprintf("fullg %s %s %s %d %d %s", strings.ToUpper(tp), hexs([]byte(big)), hexs(nil), 10, 1, hexs([]byte("*hit*"))))
			}
		}
		for q := 0; q < 10 && len(collKeys) > 0; q++ {
			ck := collKeys[rng.Intn(len(collKeys))]
			cnt := 1 + rng.Intn(5)
			if rng.Intn(8) == 0 {
				cnt = []int{0, 7, 30}[rng.Intn(3)]
			}
			rev := rng.Intn(2)
			start := ""
			if rev == 1 {
				start = []string{"\xff\xff\xff", "~", "m", ""}[rng.Intn(4)]
			} else if rng.Intn(4) == 0 {
				start = names[rng.Intn(len(names))]
			}
			op := "cfull"
			if rng.Intn(3) == 0 {
				op = "cscan"
				if rng.Intn(10) == 0 {
					cnt = -1 - rng.Intn(3) // refused as well
				}
			}
			if op == "cfull" && rng.Intn(4) == 0 {
				emit(fmt.Sprintf("cfullm %s %s %d %d %s", ck, hexs([]byte(start)), cnt, rev, hexs([]byte([]string{"a", "m", "ab", "z", "a0", "b"}[rng.Intn(6)]))))
			} else {
				emit(fmt.Sprintf("%s %s %s %d %d", op, ck, hexs([]byte(start)), cnt, rev))
			}
		}
	}
}

func hexList(xs [][]byte) string {
	var s []string
	for _, x := range xs {
		s = append(s, hexs(x))
	}
	return "[" + strings.Join(s, ",") + "]"
}

func newScan(c *Ctx) func(string) string {
	var n *dnode
	pop := map[string]map[string]bool{}  // TYPE → raw keys
	coll := map[string]map[string]bool{} // "h rawkey" → members
	ts := int64(1600000000000000000)
	closeN := func() {
		if n != nil {
			n.close()
			n = nil
		}
	}
	match := "" // MATCH pattern of the running fullm / cfullm loop ("" = none)
	advPage := func(T string, cursor []byte, count int, rev bool) ([][]byte, []byte, string) {
		name := "advscan"
		if rev {
			name = "advrevscan"
		}
		h, _, ok := n.vn.Node().GetMergeHandler(name)
		if !ok {
			return nil, nil, "err:nohandler"
		}
		args := [][]byte{[]byte(name), append([]byte(dataNS+":"), cursor...), []byte(T), []byte("count"), []byte(strconv.Itoa(count))}
		if match != "" {
			args = append(args, []byte("match"), []byte(match))
		}
		r, err := h(redcon.Command{Args: args})
		if err != nil {
			return nil, nil, "err:" + errClass(err.Error())
		}
		sr, ok := r.(*common.ScanResult)
		if !ok {
			return nil, nil, "err:type"
		}
		return sr.Keys, sr.NextCursor, ""
	}
	collPage := func(kind string, raw, cursor []byte, count int, rev bool) ([][]byte, []byte, string) {
		name := map[string]string{"h": "hscan", "s": "sscan", "z": "zscan"}[kind]
		if rev {
			name = map[string]string{"h": "hrevscan", "s": "srevscan", "z": "zrevscan"}[kind]
		}
		rargs := [][]byte{[]byte(name), append([]byte(dataNS+":"), raw...), cursor, []byte("count"), []byte(strconv.Itoa(count))}
		if match != "" {
			rargs = append(rargs, []byte("match"), []byte(match))
		}
		vs := n.read(rargs)
		v := one(vs)
		if v.k != 'a' || len(v.arr) != 2 || v.arr[0].k != 'b' || v.arr[1].k != 'a' {
			return nil, nil, canonRV(v)
		}
		var items [][]byte
		step := 2
		if kind == "s" {
			step = 1
		}
		for i := 0; i+step-1 < len(v.arr[1].arr); i += step {
			items = append(items, v.arr[1].arr[i].b)
		}
		return items, v.arr[0].b, ""
	}
	expect := func(set map[string]bool, prefix string, start []byte, rev bool, restrictPrefix bool) []string {
		var ks []string
		for k := range set {
			if restrictPrefix && !strings.HasPrefix(k, prefix) {
				continue
			}
			ks = append(ks, k)
		}
		sort.Strings(ks)
		var out []string
		cur := prefix + string(start)
		if !rev {
			for _, k := range ks {
				if k > cur {
					out = append(out, k)
				}
			}
		} else {
			for i := len(ks) - 1; i >= 0; i-- {
				if ks[i] < cur {
					out = append(out, ks[i])
				}
			}
		}
		return out
	}
	matchPrefix := ""
	var globPat glob.Glob // fullg / cfullg: the compiled pattern (nil otherwise)
	keep := func(k string, keyPrefix string) bool {
		if globPat != nil {
			return globPat.Match(k)
		}
		return strings.HasPrefix(k, keyPrefix+matchPrefix)
	}
	var exec func(line string) string
	exec = func(line string) string {
		f := strings.Fields(line)
		if (f[0] == "fullg" || f[0] == "cfullg") && len(f) == 7 {
			pat := string(unhex(f[6]))
			if f[0] == "fullg" {
				pat = string(unhex(f[2])) + ":" + pat
			}
			g, err := glob.Compile(pat)
			if err != nil || strings.IndexByte(pat, 0) >= 0 {
				return "bad-op"
			}
			match, globPat = pat, g
			c.Note("scan-glob-match")
			defer func() { match, globPat = "", nil }()
			return exec(strings.Join(append([]string{f[0][:len(f[0])-1]}, f[1:6]...), " "))
		}
		if f[0] == "bigpop" && len(f) == 4 {
			if n == nil {
				return "err:not-open"
			}
			cntN, _ := strconv.Atoi(f[3])
			T := strings.ToUpper(f[1])
			if pop[T] == nil {
				pop[T] = map[string]bool{}
			}
			tab := string(unhex(f[2]))
			var names []string
			for i := 0; i < cntN; i++ {
				names = append(names, fmt.Sprintf("k%05d", i))
			}
			names = append(names, "a_hit_0", "z_hit_1", "z_hit_2")
			for _, nm := range names {
				raw := []byte(tab + ":" + nm)
				ts += 1000
				var err error
				if f[1] == "kv" {
					err = n.kv.KVSet(ts, raw, []byte("v"))
				} else {
					_, err = n.kv.SAdd(ts, raw, []byte("m"))
				}
				if err != nil {
					return "err:" + errClass(err.Error())
				}
				pop[T][string(raw)] = true
			}
			c.Note("scan-big-population")
			return "ok"
		}
		if (f[0] == "fullm" || f[0] == "cfullm") && len(f) == 7 {
			// with MATCH <prefix>* : exactly the matching subset (oracle-only, the Lean paging model has no MATCH)
			matchPrefix = string(unhex(f[6]))
			if f[0] == "fullm" {
				match = string(unhex(f[2])) + ":" + matchPrefix + "*"
			} else {
				match = matchPrefix + "*"
			}
			defer func() { match, matchPrefix = "", "" }()
			return exec(strings.Join(append([]string{f[0][:len(f[0])-1]}, f[1:6]...), " "))
		}
		if f[0] == "open" {
			closeN()
			var err error
			n, err = openNode(f[1], "compact")
			if err != nil {
				return "err:open"
			}
			pop = map[string]map[string]bool{}
			coll = map[string]map[string]bool{}
			return "ok"
		}
		if n == nil {
			return "err:not-open"
		}
		switch f[0] {
		case "pop":
			raw := unhex(f[2])
			ts += 1000
			var err error
			T := strings.ToUpper(f[1])
			ck := f[1][:1] + " " + f[2]
			switch f[1] {
			case "kv":
				err = n.kv.KVSet(ts, raw, []byte("v"))
			default:
				for i, hx := range f[3:] {
					m := unhex(hx)
					switch f[1] {
					case "hash":
						_, err = n.kv.HSet(ts, false, raw, m, []byte("v"))
					case "set":
						_, err = n.kv.SAdd(ts, raw, m)
					case "zset":
						_, err = n.kv.ZAdd(ts, raw, common.ScorePair{Score: float64(i), Member: m})
					case "list":
						_, err = n.kv.RPush(ts, raw, m)
					}
					if err != nil {
						break
					}
					if f[1] != "list" {
						if coll[ck] == nil {
							coll[ck] = map[string]bool{}
						}
						coll[ck][string(m)] = true
					}
				}
			}
			if err != nil {
				return "err:" + errClass(err.Error())
			}
			if pop[T] == nil {
				pop[T] = map[string]bool{}
			}
			pop[T][string(raw)] = true
			return "ok"
		case "adv":
			cnt, _ := strconv.Atoi(f[3])
			ks, next, e := advPage(f[1], unhex(f[2]), cnt, f[4] == "1")
			if e != "" {
				return e
			}
			return "keys=" + hexList(ks) + " next=" + hexs(next)
		case "full":
			cnt, _ := strconv.Atoi(f[4])
			rev := f[5] == "1"
			table, cur := unhex(f[2]), unhex(f[3])
			var all [][]byte
			rounds := 0
			for {
				rounds++
				ks, next, e := advPage(f[1], append(append(append([]byte{}, table...), ':'), cur...), cnt, rev)
				if e != "" {
					return e
				}
				all = append(all, ks...)
				if len(next) == 0 {
					break
				}
				cur = next
				if rounds > 2000 {
					c.Violation("scan-does-not-terminate:"+f[1], line)
					break
				}
			}
			// ORACLE: every key of the addressed table and type beyond the start cursor exactly once, in order, nothing else
			want := expect(pop[f[1]], string(table)+":", unhex(f[3]), rev, true)
			if match != "" {
				var w2 []string
				for _, k := range want {
					if keep(k, string(table)+":") {
						w2 = append(w2, k)
					}
				}
				want = w2
			}
			got := make([]string, len(all))
			for i, k := range all {
				got[i] = string(k)
			}
			if strings.Join(got, "\x01") != strings.Join(want, "\x01") {
				c.Violation("scan-wrong-result:"+f[1]+fmt.Sprintf(":rev=%v", rev)+map[bool]string{true: ":match", false: ""}[match != ""], fmt.Sprintf("%s match=%q got %q want %q", line, match, got, want))
			}
			return "keys=" + hexList(all) + " rounds=" + strconv.Itoa(rounds)
		case "cscan":
			cnt, _ := strconv.Atoi(f[4])
			it, next, e := collPage(f[1], unhex(f[2]), unhex(f[3]), cnt, f[5] == "1")
			if e != "" {
				return e
			}
			return "items=" + hexList(it) + " next=" + hexs(next)
		case "cfull":
			cnt, _ := strconv.Atoi(f[4])
			rev := f[5] == "1"
			cur := unhex(f[3])
			var all [][]byte
			rounds := 0
			for {
				rounds++
				it, next, e := collPage(f[1], unhex(f[2]), cur, cnt, rev)
				if e != "" {
					return e
				}
				all = append(all, it...)
				if len(next) == 0 {
					break
				}
				cur = next
				if rounds > 2000 {
					c.Violation("scan-does-not-terminate:"+f[1], line)
					break
				}
			}
			want := expect(coll[f[1]+" "+f[2]], "", unhex(f[3]), rev, false)
			if match != "" {
				var w2 []string
				for _, k := range want {
					if keep(k, "") {
						w2 = append(w2, k)
					}
				}
				want = w2
			}
			got := make([]string, len(all))
			for i, k := range all {
				got[i] = string(k)
			}
			if strings.Join(got, "\x01") != strings.Join(want, "\x01") {
				c.Violation("scan-wrong-result:coll-"+f[1]+fmt.Sprintf(":rev=%v", rev)+map[bool]string{true: ":match", false: ""}[match != ""], fmt.Sprintf("%s match=%q got %q want %q", line, match, got, want))
			}
			return "items=" + hexList(all) + " rounds=" + strconv.Itoa(rounds)
		}
		return "bad-op"
	}
	return exec
}
