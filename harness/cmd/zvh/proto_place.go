package main

import (
	"fmt"
	"math/rand"
	"sort"
	"strconv"
	"strings"

	"github.com/youzan/ZanRedisDB/cluster"
	"github.com/youzan/ZanRedisDB/cluster/pdnode_coord"
	"github.com/youzan/ZanRedisDB/common"
)

// C17 placement: the real layout functions of cluster/pdnode_coord/place_driver.go vs the Lean model.
//
//	place alg=v1|v2 ns=<name> parts=<p> replica=<r> nodes=<id@dc,…> old=<layout or ->
//	  → <layout> | err:node-unavailable | panic:<class>
//
// layout  = partitions separated by '|', node ids separated by ',', an empty partition list is '_',
//
//	no partitions at all is '-'.
//
// The op goes through getRebalancedNamespacePartitions (map of live nodes → refusal guard →
// getNodeNameList → getRebalancedPartitionsFromNameList → fillPartitionMapV1 / fillPartitionMapV2).
func init() {
	register(&Proto{Name: "place", Gen: genPlace, New: newPlace})
	cluster.SetLogLevel(int(common.LOG_ERR))
}

type placeOp struct {
	alg     string
	ns      string
	parts   int
	replica int
	ids     []string // in op order
	dc      map[string]string
	old     [][]string
}

func fmtLayout(l [][]string) string {
	if len(l) == 0 {
		return "-"
	}
	ps := make([]string, len(l))
	for i, p := range l {
		if len(p) == 0 {
			ps[i] = "_"
		} else {
			ps[i] = strings.Join(p, ",")
		}
	}
	return strings.Join(ps, "|")
}

func parseLayout(s string) [][]string {
	if s == "-" || s == "" {
		return nil
	}
	var l [][]string
	for _, p := range strings.Split(s, "|") {
		if p == "_" || p == "" {
			l = append(l, []string{})
		} else {
			l = append(l, strings.Split(p, ","))
		}
	}
	return l
}

func (o *placeOp) String() string {
	ns := make([]string, len(o.ids))
	for i, id := range o.ids {
		ns[i] = id + "@" + o.dc[id]
	}
	nodes := strings.Join(ns, ",")
	if nodes == "" {
		nodes = "-"
	}
	return fmt.Sprintf("place alg=%s ns=%s parts=%d replica=%d nodes=%s old=%s", o.alg, o.ns, o.parts, o.replica, nodes, fmtLayout(o.old))
}

func parsePlaceOp(line string) *placeOp {
	f := strings.Fields(line)
	if len(f) != 7 || f[0] != "place" {
		return nil
	}
	o := &placeOp{dc: map[string]string{}}
	for _, kv := range f[1:] {
		i := strings.Index(kv, "=")
		if i < 0 {
			return nil
		}
		k, v := kv[:i], kv[i+1:]
		switch k {
		case "alg":
			o.alg = v
		case "ns":
			o.ns = v
		case "parts":
			o.parts, _ = strconv.Atoi(v)
		case "replica":
			o.replica, _ = strconv.Atoi(v)
		case "nodes":
			if v != "-" {
				for _, nd := range strings.Split(v, ",") {
					j := strings.Index(nd, "@")
					if j <= 0 {
						return nil
					}
					id := nd[:j]
					if _, dup := o.dc[id]; dup {
						return nil // node ids are map keys in the real code: a repeated id is not an input
					}
					o.ids = append(o.ids, id)
					o.dc[id] = nd[j+1:]
				}
			}
		case "old":
			o.old = parseLayout(v)
		default:
			return nil
		}
	}
	if o.parts < 0 || o.parts > 4096 || o.replica < 1 || o.replica > 64 || (o.alg != "v1" && o.alg != "v2") {
		return nil
	}
	return o
}

// nodeMap builds the map the real code takes; `order` is the insertion order (Go randomises the iteration
// order anyway — the oracle calls twice with different insertion orders and compares).
func (o *placeOp) nodeMap(order []int) map[string]cluster.NodeInfo {
	m := make(map[string]cluster.NodeInfo)
	for _, i := range order {
		id := o.ids[i]
		ni := cluster.NodeInfo{ID: id}
		if dc := o.dc[id]; dc != "" {
			ni.Tags = map[string]interface{}{cluster.DCInfoTag: dc}
		}
		m[id] = ni
	}
	return m
}

func (o *placeOp) balanceVer() string {
	if o.alg == "v2" {
		return pdnode_coord.BalanceV2Str
	}
	return ""
}

// runPlace calls the real code once; panics are turned into an outcome class.
func runPlace(o *placeOp, order []int) (res [][]string, outcome string) {
	defer func() {
		if r := recover(); r != nil {
			msg := fmt.Sprint(r)
			switch {
			case strings.Contains(msg, "interface conversion: interface {} is nil"):
				outcome = "panic:v2-empty-candidates"
			case strings.Contains(msg, "index out of range"):
				outcome = "panic:index-out-of-range"
			case strings.Contains(msg, "divide by zero"):
				outcome = "panic:divide-by-zero"
			default:
				outcome = "panic:other:" + strings.ReplaceAll(strings.SplitN(msg, "\n", 2)[0], " ", "_")
			}
			res = nil
		}
	}()
	oldCopy := make([][]string, len(o.old))
	for i, p := range o.old {
		oldCopy[i] = append([]string{}, p...)
	}
	if o.old == nil {
		oldCopy = nil
	}
	r, cerr := pdnode_coord.VerifPlaceFromMap(o.ns, o.parts, o.replica, oldCopy, o.nodeMap(order), o.balanceVer())
	if cerr != nil {
		if cerr == pdnode_coord.VerifErrNodeUnavailable() {
			return nil, "err:node-unavailable"
		}
		return nil, "err:other"
	}
	return r, fmtLayout(r)
}

func identityOrder(n int) []int {
	r := make([]int, n)
	for i := range r {
		r[i] = i
	}
	return r
}

// evenDCs: every DC tag holds the same number of nodes; returns (number of DCs, true) then.
func evenDCs(o *placeOp) (int, bool) {
	cnt := map[string]int{}
	for _, id := range o.ids {
		cnt[o.dc[id]]++
	}
	m := -1
	for _, c := range cnt {
		if m == -1 {
			m = c
		} else if c != m {
			return len(cnt), false
		}
	}
	return len(cnt), len(cnt) > 0
}

// longDeadLists counts the old lists longer than the replication factor with a dead member among the
// positions the fill loop looks at; covering = how many of them also contain every live node (the shape of
// the former finding F5: before the repair every live member of such a list was excluded as a replacement,
// so no candidate was left; now the extra members are candidates).
func longDeadLists(o *placeOp) (n int, covering int) {
	for _, p := range o.old {
		if len(p) <= o.replica {
			continue
		}
		dead := false
		for j := 0; j < o.replica; j++ {
			if _, ok := o.dc[p[j]]; !ok {
				dead = true
				break
			}
		}
		if !dead {
			continue
		}
		n++
		all := true
		for _, id := range o.ids {
			if cluster.FindSlice(p, id) == -1 {
				all = false
				break
			}
		}
		if all {
			covering++
		}
	}
	return n, covering
}

func oldStats(o *placeOp) string {
	maxLen, dead0 := 0, 0
	longDead, _ := longDeadLists(o)
	for _, p := range o.old {
		if len(p) > maxLen {
			maxLen = len(p)
		}
		if len(p) > 0 {
			if _, ok := o.dc[p[0]]; !ok {
				dead0++
			}
		}
	}
	return fmt.Sprintf("old-max-len=%d replica=%d old-longer-than-replica=%v old-partitions=%d parts=%d dead-old-leaders=%d long-lists-with-dead-member=%d",
		maxLen, o.replica, maxLen > o.replica, len(o.old), o.parts, dead0, longDead)
}

// the implementation-level oracle: the property of C17 stated directly on what the real code returned
func placeOracle(c *Ctx, o *placeOp, line string, res [][]string, outcome string) {
	n := len(o.ids)
	short := line
	if len(short) > 700 {
		short = short[:700] + "…"
	}
	if strings.HasPrefix(outcome, "panic:") {
		c.Note("outcome/" + outcome)
		c.Violation(outcome, oldStats(o)+" :: "+short)
		return
	}
	if strings.HasPrefix(outcome, "err:") {
		c.Note("outcome/" + outcome)
		if n >= o.replica {
			c.Violation("spurious-refusal", fmt.Sprintf("%d live nodes >= replica %d but %s :: %s", n, o.replica, outcome, short))
		}
		return
	}
	c.Note("outcome/layout")
	if n < o.replica {
		c.Violation("degraded-layout", fmt.Sprintf("%d live nodes < replica %d but a layout was produced: %s :: %s", n, o.replica, outcome, short))
	}
	if len(res) != o.parts {
		c.Violation("replica-count", fmt.Sprintf("%d partition lists for %d partitions :: %s", len(res), o.parts, short))
	}
	for pid, row := range res {
		if len(row) != o.replica {
			c.Violation("replica-count", fmt.Sprintf("partition %d has %d replicas, want %d: %v :: %s", pid, len(row), o.replica, row, short))
		}
		seen := map[string]bool{}
		for _, x := range row {
			if seen[x] {
				c.Violation("duplicate-node", fmt.Sprintf("partition %d lists %s twice: %v :: %s", pid, x, row, short))
			}
			seen[x] = true
			if _, ok := o.dc[x]; !ok {
				c.Violation("dead-node", fmt.Sprintf("partition %d lists %q which is not a live node: %v :: %s", pid, x, row, short))
			}
		}
	}
	fresh := true
	for _, p := range o.old {
		if len(p) > 0 {
			fresh = false
		}
	}
	if d, even := evenDCs(o); fresh && even && d >= o.replica && n >= o.replica {
		c.Note("oracle/dc-spread-applicable-" + o.alg)
		for pid, row := range res {
			seen := map[string]string{}
			for _, x := range row {
				if y, ok := seen[o.dc[x]]; ok {
					c.Violation("dc-collision", fmt.Sprintf("alg=%s partition %d: %s and %s are both in data centre %q (fresh layout, %d DCs evenly filled, replica %d) :: %s",
						o.alg, pid, y, x, o.dc[x], d, o.replica, short))
					break
				}
				seen[o.dc[x]] = x
			}
		}
	}
	if o.alg == "v1" && n > 0 && o.parts%n == 0 && n >= o.replica {
		c.Note("oracle/leader-balance-applicable")
		lead := map[string]int{}
		for _, row := range res {
			if len(row) > 0 {
				lead[row[0]]++
			}
		}
		for _, id := range o.ids {
			if lead[id] != o.parts/n {
				c.Violation("leader-imbalance", fmt.Sprintf("node %s leads %d partitions, want %d (%d partitions on %d nodes) :: %s", id, lead[id], o.parts/n, o.parts, n, short))
				break
			}
		}
	}
}

func newPlace(c *Ctx) func(string) string {
	return func(line string) string {
		o := parsePlaceOp(line)
		if o == nil {
			return "bad-op"
		}
		n := len(o.ids)
		res, outcome := runPlace(o, identityOrder(n))
		placeOracle(c, o, line, res, outcome)
		// determinism: same inputs, the node map filled in a different order (reverse, then a rotation);
		// Go's map iteration order is random per call on top of that
		rev := make([]int, n)
		for i := range rev {
			rev[i] = n - 1 - i
		}
		_, out2 := runPlace(o, rev)
		rot := make([]int, n)
		for i := range rot {
			rot[i] = (i + n/2) % (n + boolInt(n == 0))
		}
		_, out3 := runPlace(o, rot)
		if out2 != outcome || out3 != outcome {
			short := line
			if len(short) > 500 {
				short = short[:500] + "…"
			}
			c.Violation("nondeterministic", fmt.Sprintf("same inputs, different answers: %s / %s / %s :: %s", outcome, out2, out3, short))
		}
		c.Note("alg/" + o.alg)
		if o.old != nil {
			c.Note("old/non-empty")
		}
		if o.alg == "v2" && len(o.ids) >= o.replica && o.parts >= len(o.old) {
			// the repaired branch: an extra old member may replace a dead one
			if k, cov := longDeadLists(o); k > 0 {
				c.Note("old/longer-than-replica-with-dead-member")
				if cov > 0 {
					c.Note("old/former-F5-shape")
				}
			}
		}
		return outcome
	}
}

func boolInt(b bool) int {
	if b {
		return 1
	}
	return 0
}

// ---------------------------------------------------------------- generator

// the last names hash (murmur3.Sum32) within a few dozen of 2^32 resp. 2^31: the ring slot `selectIndex + j` of the
// v1 layout crosses the 32-bit boundaries there (a ring index kept in 32 bits wraps)
var placeNS = []string{"ns", "default", "test_ns", "a", "yz_kv_0001", "ns-with-dash", "x1",
	"ns528095144", "ns150161269", "ns1001648446", "ns219556178", "ns469077333", "ns157313749", "ns336116872",
	"ns421872008", "ns792149751", "ns820578955", "ns35924403", "ns1092608791"}

func genTopology(rng *rand.Rand) ([]string, map[string]string) {
	n := 1 + rng.Intn(40)
	switch rng.Intn(4) {
	case 0:
		n = 1 + rng.Intn(6)
	case 1:
		n = 1 + rng.Intn(12)
	}
	d := 1 + rng.Intn(4)
	dcNames := []string{"dcA", "dcB", "dc-c", "DC4"}
	if rng.Intn(5) == 0 {
		dcNames[0] = "" // nodes without a dc tag form the group ""
	}
	rng.Shuffle(len(dcNames), func(i, j int) { dcNames[i], dcNames[j] = dcNames[j], dcNames[i] })
	even := rng.Intn(2) == 0
	if even {
		m := n / d
		if m == 0 {
			m = 1
		}
		if m*d > 40 {
			m = 40 / d
		}
		n = m * d
	}
	ids := make([]string, 0, n)
	dc := map[string]string{}
	used := map[int]bool{}
	for i := 0; i < n; i++ {
		k := rng.Intn(200)
		for used[k] {
			k = rng.Intn(200)
		}
		used[k] = true
		id := "n" + strconv.Itoa(k) // no zero padding: string order differs from numeric order
		if rng.Intn(8) == 0 {
			id = strconv.Itoa(k) + ":10.0.0." + strconv.Itoa(k) + "::6380:18001:"
		}
		ids = append(ids, id)
		if even {
			dc[id] = dcNames[i%d]
		} else {
			dc[id] = dcNames[rng.Intn(d)]
		}
	}
	rng.Shuffle(len(ids), func(i, j int) { ids[i], ids[j] = ids[j], ids[i] })
	return ids, dc
}

func genPlace(rng *rand.Rand, tier string, emit func(string)) {
	total := 5000
	if tier == "thorough" {
		total = 200000
	}
	emitted := 0
	for emitted < total {
		ids, dc := genTopology(rng)
		o := &placeOp{dc: dc, ids: ids}
		o.ns = placeNS[rng.Intn(len(placeNS))]
		if rng.Intn(4) == 0 {
			o.ns = "r" + strconv.Itoa(rng.Intn(100000))
		}
		o.parts = 1 + rng.Intn(64)
		if rng.Intn(3) == 0 {
			o.parts = 1 + rng.Intn(8)
		}
		if rng.Intn(4) == 0 && len(ids) <= 32 { // partition count a multiple of the node count
			o.parts = len(ids) * (1 + rng.Intn(64/len(ids)))
		}
		o.replica = 1 + rng.Intn(5)
		if rng.Intn(2) == 0 {
			o.replica = 1 + rng.Intn(3)
		}
		if rng.Intn(3) == 0 {
			o.alg = "v1"
			emit(o.String())
			emitted++
			continue
		}
		o.alg = "v2"
		// a chain: the previous answer comes back as the old layout after node loss / addition
		steps := 1 + rng.Intn(6)
		nextNew := 200
		for s := 0; s < steps && emitted < total; s++ {
			line := o.String()
			emit(line)
			emitted++
			res, _ := runPlace(o, identityOrder(len(o.ids)))
			// environment change
			switch rng.Intn(6) {
			case 0, 1: // lose some nodes
				k := 1 + rng.Intn(3)
				for ; k > 0 && len(o.ids) > 1; k-- {
					i := rng.Intn(len(o.ids))
					delete(o.dc, o.ids[i])
					o.ids = append(o.ids[:i:i], o.ids[i+1:]...)
				}
			case 2: // add nodes
				k := 1 + rng.Intn(3)
				for ; k > 0 && len(o.ids) < 40; k-- {
					id := "n" + strconv.Itoa(nextNew)
					nextNew++
					dcs := []string{}
					for _, x := range o.dc {
						dcs = append(dcs, x)
					}
					sort.Strings(dcs)
					o.dc[id] = dcs[rng.Intn(len(dcs))]
					o.ids = append(o.ids, id)
				}
			case 3: // lose one, gain one
				if len(o.ids) > 1 {
					i := rng.Intn(len(o.ids))
					d := o.dc[o.ids[i]]
					delete(o.dc, o.ids[i])
					o.ids = append(o.ids[:i:i], o.ids[i+1:]...)
					id := "n" + strconv.Itoa(nextNew)
					nextNew++
					o.dc[id] = d
					o.ids = append(o.ids, id)
				}
			case 4: // lose many
				for len(o.ids) > 1 && rng.Intn(3) != 0 {
					i := rng.Intn(len(o.ids))
					delete(o.dc, o.ids[i])
					o.ids = append(o.ids[:i:i], o.ids[i+1:]...)
				}
			}
			rng.Shuffle(len(o.ids), func(i, j int) { o.ids[i], o.ids[j] = o.ids[j], o.ids[i] })
			o.old = res
			if res == nil && rng.Intn(2) == 0 {
				break
			}
			// what the placement driver really reads back is the ISR of every partition
			// (getCurrentPartitionNodes → GetISR): mid-migration lists can be shorter (a replica being
			// removed) or longer (add-before-remove) than the replication factor; partitions not yet
			// created are missing
			if o.old != nil {
				cp := make([][]string, len(o.old))
				for i, p := range o.old {
					cp[i] = append([]string{}, p...)
				}
				o.old = cp
				if rng.Intn(8) == 0 { // a replica under removal is not in the ISR
					for k := 1 + rng.Intn(3); k > 0; k-- {
						i := rng.Intn(len(o.old))
						if len(o.old[i]) > 0 {
							j := rng.Intn(len(o.old[i]))
							o.old[i] = append(o.old[i][:j:j], o.old[i][j+1:]...)
						}
					}
				}
				if rng.Intn(12) == 0 && len(o.ids) > 0 { // add-before-remove: one extra member
					for k := 1 + rng.Intn(2); k > 0; k-- {
						i := rng.Intn(len(o.old))
						x := o.ids[rng.Intn(len(o.ids))]
						if cluster.FindSlice(o.old[i], x) == -1 {
							o.old[i] = append(o.old[i], x)
						}
					}
				}
				if rng.Intn(16) == 0 { // only a prefix of the partitions exists
					o.old = o.old[:rng.Intn(len(o.old)+1)]
				}
			}
			if rng.Intn(12) == 0 { // replication factor changed by the operator
				o.replica = 1 + rng.Intn(5)
			}
			if rng.Intn(16) == 0 && o.parts < 64 { // partition count can only grow
				o.parts += 1 + rng.Intn(64-o.parts)
			}
		}
	}
}
