package main

// Executor and implementation-level oracles of protocol "data" (see proto_data.go for the plumbing).

import (
	"bytes"
	"fmt"
	"math/rand"
	"strconv"
	"strings"
	"time"

	"github.com/youzan/ZanRedisDB/common"
	"github.com/youzan/ZanRedisDB/node"
	"github.com/youzan/ZanRedisDB/rockredis"
)

type dshadow struct {
	kind byte // 'b' one request per apply event, 'e' other engine, 'r' isReplaying=true, 'p' one packed entry per event,
	// 's' restarts: a pebble store that is closed and reopened before some of the events
	n   *dnode
	rng *rand.Rand
	// once a shadow has answered differently its state is different for good: the first difference is the finding,
	// later ones are consequences and are not reported
	diverged bool
}

var shadowClass = map[byte]string{'b': "batch-dependent", 'e': "engine-dependent", 'r': "replay-dependent", 'p': "packed-dependent", 's': "restart-dependent"}

type dsession struct {
	c          *Ctx
	sid        int
	main       *dnode
	shadows    []*dshadow
	scratch    *dnode // empty store for "same command on a store without the key"
	nfresh     int
	pend       []*dpend
	keys       map[string]bool // client keys (with namespace) that entered the log or were discovered by scan
	tables     map[string]bool
	poisoned   string
	reported   map[string]bool
	last       []*dpend // commands of the last applied event (attribution of inv failures)
	prevFp     uint64   // raw fingerprint of shadow b after its last command
	genTs      map[string]map[int64]bool
	equalTs    map[string]bool
	dupTaint   map[string]bool  // type|key that has seen a command with a repeated sub-key (F2): later oddities on it are consequences
	given      map[string]int64 // local_deletion: expiry instant last given to type|key (absent = none)
	stats      *dstats
	classCount map[string]int
	// session-level taints, detected from the op lines themselves (so a shrunk trace classifies the same way):
	maxTs      int64 // highest log timestamp of a write so far
	tsNonMono  bool  // some write carried a log timestamp <= an earlier one (equal or backwards): generation = timestamp (F3)
	batchAbort bool  // an event with several entries held a batchable command that failed at apply time (F4)
}

// taintSuffix is appended to every oracle class of the session; known_findings.json matches on it
func (s *dsession) taintSuffix() string {
	t := ""
	if s.tsNonMono {
		t += "@ts-nonmono"
	}
	if s.batchAbort {
		t += "@batch-abort"
	}
	return t
}

type dstats struct {
	sessions, expirySessions int
}

func (s *dsession) viol(class, what string) {
	k := class + "|" + what
	if len(k) > 200 {
		k = k[:200]
	}
	if s.reported[k] {
		return
	}
	s.reported[k] = true
	s.report(class, fmt.Sprintf("session %d (%s/%s): %s", s.sid, s.main.eng, s.main.pol, what))
}

// report keeps at most dataMaxPerClass witnesses of a class per run (the runner keeps 200 violations in all, and a
// frequent known class must not crowd out the others); every occurrence is counted in the notes.
const dataMaxPerClass = 4

func (s *dsession) report(class, what string) {
	class += s.taintSuffix()
	s.c.Note("violation:" + class)
	s.classCount[class]++
	if s.classCount[class] <= dataMaxPerClass {
		s.c.Violation(class, what)
	}
}

func (s *dsession) shadow(kind byte) *dnode {
	for _, sh := range s.shadows {
		if sh.kind == kind {
			return sh.n
		}
	}
	return nil
}

func (s *dsession) shadowOf(kind byte) *dshadow {
	for _, sh := range s.shadows {
		if sh.kind == kind {
			return sh
		}
	}
	return nil
}

func (s *dsession) close() {
	if s == nil {
		return
	}
	s.dropPending()
	s.main.close()
	for _, sh := range s.shadows {
		sh.n.close()
	}
	s.scratch.close()
}

func (s *dsession) dropPending() {
	for _, p := range s.pend {
		if rl, err := node.VerifEntryReqs(p.ent); err == nil {
			for _, r := range rl.Reqs {
				if s.main.vn.IsRegistered(r.Header.ID) {
					s.main.vn.Trigger(r.Header.ID, node.ErrVerifDropped)
				}
			}
		}
		if p.merge {
			select {
			case <-p.done:
			case <-time.After(5 * time.Second):
			}
		} else if p.fr != nil {
			p.fr.WaitRsp()
		}
	}
	s.pend = nil
}

func openSession(c *Ctx, sid int, kv map[string]string) (*dsession, error) {
	if now := time.Now().Unix(); now < dataNowMin || now > dataNowMax {
		return nil, fmt.Errorf("real clock %d outside [%d,%d]: the expiry regimes of the generator are not valid", now, dataNowMin, dataNowMax)
	}
	eng, pol := kv["engine"], kv["policy"]
	if eng == "" {
		eng = "mem"
	}
	if pol == "" {
		pol = "compact"
	}
	m, err := openNode(eng, pol)
	if err != nil {
		return nil, err
	}
	s := &dsession{c: c, sid: sid, main: m, keys: map[string]bool{}, tables: map[string]bool{}, reported: map[string]bool{},
		genTs: map[string]map[int64]bool{}, equalTs: map[string]bool{}, given: map[string]int64{}, dupTaint: map[string]bool{}}
	sh, ok := kv["sh"]
	if !ok {
		sh = "berp"
	}
	for _, k := range []byte(sh) {
		var n *dnode
		switch k {
		case 'b', 'p':
			n, err = openNode(eng, pol)
		case 'r':
			n, err = openNode(eng, pol)
			if n != nil {
				n.replay = true
			}
		case 'e':
			other := "pebble"
			if eng == "pebble" {
				other = "mem"
			}
			n, err = openNode(other, pol)
		case 's':
			n, err = openNode("pebble", pol)
		default:
			continue
		}
		if err != nil {
			s.close()
			return nil, err
		}
		s.shadows = append(s.shadows, &dshadow{kind: k, n: n, rng: rand.New(rand.NewSource(int64(sid)*7919 + int64(k)))})
	}
	if sb := s.shadow('b'); sb != nil {
		s.scratch, err = openNode("mem", pol)
		if err != nil {
			s.close()
			return nil, err
		}
		s.prevFp, _, _ = sb.kv.VerifRawHash()
	}
	return s, nil
}

func cutNS(k []byte) ([]byte, bool) {
	i := bytes.IndexByte(k, ':')
	if i <= 0 {
		return nil, false
	}
	return k[i+1:], true
}

func (s *dsession) noteKey(p *dpend) {
	ks := [][]byte{}
	switch p.name {
	case "del":
		ks = p.args[1:]
	case "plset":
		for i := 1; i < len(p.args); i += 2 {
			ks = append(ks, p.args[i])
		}
	default:
		if len(p.args) > 1 {
			ks = [][]byte{p.args[1]}
		}
	}
	for _, k := range ks {
		if len(k) > 300 || !bytes.HasPrefix(k, []byte(dataNS+":")) {
			continue
		}
		s.keys[string(k)] = true
		if ck, ok := cutNS(k); ok {
			if i := bytes.IndexByte(ck, ':'); i > 0 && i <= 255 {
				s.tables[string(ck[:i])] = true
			}
		}
	}
}

func isErrReply(r string) bool { return strings.HasPrefix(r, "err:") }

// ---------------------------------------------------------------------------------------------------------------
// C10 / C11 monitors on the one-request-per-event shadow

type c10pre struct {
	ok        bool
	t         dtype
	ckey      []byte // namespace cut
	mi        rockredis.VerifMetaInfo
	expiredAt bool // physically present but expired at the command's log time
	dead      bool // absent or expired at log time
}

func singleKeyCmd(name string) bool {
	return name != "del" && name != "plset" && cmdType(name) != tNone
}

func (s *dsession) c10Pre(sb *dnode, p *dpend) c10pre {
	var pre c10pre
	if !singleKeyCmd(p.name) || len(p.args) < 2 || strings.HasPrefix(p.name, "pf") {
		return pre // (HyperLogLog values carry no value header: the expiry monitor does not apply to them)
	}
	ck, ok := cutNS(p.args[1])
	if !ok || bytes.IndexByte(ck, ':') <= 0 || len(ck) > 300 {
		return pre
	}
	pre.t = cmdType(p.name)
	pre.ckey = ck
	mi, err := sb.kv.VerifMeta(dtypeStore[pre.t], ck)
	if err != nil {
		return pre
	}
	pre.mi = mi
	pre.ok = true
	pre.expiredAt = mi.Exists && mi.ExpireAt != 0 && p.ts != 0 && mi.ExpireAt-p.ts/int64(time.Second) <= 0
	pre.dead = !mi.Exists || pre.expiredAt
	if pre.expiredAt {
		s.c.Note("write-on-key-expired-in-log-time")
		if !s.reported["expiry-hit"] {
			s.reported["expiry-hit"] = true
			s.c.Note("session-with-expiry-in-log-time")
		}
	} else if mi.Exists && mi.ExpireAt != 0 {
		s.c.Note("write-on-key-with-ttl-alive-in-log-time")
	}
	return pre
}

func durationArg(p *dpend) (int64, bool) {
	var a []byte
	switch p.name {
	case "setex":
		if len(p.args) > 2 {
			a = p.args[2]
		}
	case "expire", "hexpire", "lexpire", "sexpire", "zexpire":
		if len(p.args) > 2 {
			a = p.args[2]
		}
	case "set":
		for i := 3; i+1 < len(p.args); i++ {
			if strings.ToLower(string(p.args[i])) == "ex" {
				a = p.args[i+1]
			}
		}
	case "setifeq":
		if len(p.args) == 6 {
			a = p.args[5]
		}
	}
	if a == nil {
		return 0, false
	}
	n, err := strconv.ParseInt(string(a), 10, 64)
	return n, err == nil
}

func (s *dsession) c10Post(sb *dnode, p *dpend, pre c10pre, rep string) {
	if !pre.ok || isErrReply(rep) || strings.HasPrefix(rep, "panic") {
		return
	}
	tk := dtypeName[pre.t] + "|" + string(pre.ckey)
	if _, dup := membersOf(p.name, p.args); dup {
		s.dupTaint[tk] = true
	}
	taint := ""
	if s.dupTaint[tk] {
		taint = ":after-dup-arg"
	}
	mi2, err := sb.kv.VerifMeta(dtypeStore[pre.t], pre.ckey)
	if err != nil {
		return
	}
	what := func(extra string) string {
		return fmt.Sprintf("%s @%d reply %s; before: exists=%v expireAt=%d; after: exists=%v expireAt=%d %s",
			hexLine(p.args), p.ts, rep, pre.mi.Exists, pre.mi.ExpireAt, mi2.Exists, mi2.ExpireAt, extra)
	}
	// a command that left an expired key expired (it wrote nothing, or only touched the dead generation) says nothing
	// about content or expiry rules: what wall-clock reads show of such a key is not this command's doing
	stillExpired := pre.expiredAt && mi2.Exists && mi2.ExpireAt != 0 && mi2.ExpireAt-p.ts/int64(time.Second) <= 0
	// (1) dead at log time  =>  same reply and same resulting content as on a store without the key
	if pre.dead && s.scratch != nil {
		s.nfresh++
		fresh := []byte(fmt.Sprintf("%s:%s:\x01fresh%d", dataNS, strings.SplitN(string(pre.ckey), ":", 2)[0], s.nfresh))
		q := *p
		q.args = cloneArgs(p.args)
		q.args[1] = fresh
		// rebuild the entry for the fresh key through the same request shape
		if ent, ok := rebuildEntry(p, fresh); ok {
			q.ent = ent
			raw := s.scratch.applyShadow([]*dpend{&q}, false)[0]
			want := canonRVs(shadowReply(&q, raw))
			cls := "resurrection"
			if pre.expiredAt {
				cls = "expired-visible"
			}
			sfx := ""
			if !pre.expiredAt && s.genTs[tk][p.ts] {
				sfx = ":equal-ts" // the key is re-created at the log timestamp of one of its dead generations
			}
			if want != rep {
				if sfx != "" {
					s.equalTs[tk] = true
				}
				s.viol(cls+":"+dtypeName[pre.t]+":"+p.name+sfx+taint, what("reply on a store without the key: "+want))
			} else if !stillExpired {
				got := sb.content(pre.t, p.args[1])
				exp := s.scratch.content(pre.t, fresh)
				if got != exp && !strings.HasPrefix(got, "!") {
					if sfx != "" {
						s.equalTs[tk] = true
					} else if pre.expiredAt {
						sfx = ":after-expiry"
					}
					s.viol("resurrection:"+dtypeName[pre.t]+":"+p.name+sfx+taint, what("content "+got+" but on a store without the key "+exp))
				}
			}
		}
	}
	if pre.dead && mi2.Exists {
		if s.genTs[tk] == nil {
			s.genTs[tk] = map[int64]bool{}
		}
		if !pre.expiredAt && s.genTs[tk][p.ts] {
			s.equalTs[tk] = true // re-created with the generation number of a dead generation (F3), whatever shows now
		}
		s.genTs[tk][p.ts] = true
	}
	// local_deletion: remember the instant last given (monitor of the background scan, see scan())
	if sb.pol == "local" {
		if !mi2.Exists {
			delete(s.given, tk)
		} else {
			if pre.dead {
				delete(s.given, tk)
			}
			d, hasD := durationArg(p)
			switch p.name {
			case "setex":
				s.given[tk] = p.ts/int64(time.Second) + d
			case "expire", "hexpire", "lexpire", "sexpire", "zexpire":
				if rep == "int:1" {
					s.given[tk] = p.ts/int64(time.Second) + d
				}
			case "set", "setifeq":
				if rep == "str:OK" || rep == "int:1" {
					if hasD {
						s.given[tk] = p.ts/int64(time.Second) + d
					} else {
						delete(s.given, tk)
					}
				}
			case "getset":
				delete(s.given, tk)
			}
		}
		return
	}
	// (2) wait_compact: which commands set / clear / keep the stored expiry
	if !mi2.Exists || stillExpired {
		return
	}
	before := pre.mi.ExpireAt
	if pre.dead {
		before = 0
	}
	d, hasD := durationArg(p)
	at := p.ts/int64(time.Second) + d
	kind, want := "keep", before
	switch p.name {
	case "setex":
		kind, want = "set", at
	case "set":
		if rep == "str:OK" {
			if hasD {
				kind, want = "set", at
			} else {
				kind, want = "clear", 0
			}
		}
	case "setifeq":
		if rep == "int:1" {
			if hasD {
				kind, want = "set", at
			} else {
				kind, want = "clear", 0
			}
		}
	case "getset":
		kind, want = "clear", 0
	case "setnx":
		if rep == "int:1" {
			kind, want = "clear", 0
		}
	case "expire", "hexpire", "lexpire", "sexpire", "zexpire":
		if rep == "int:1" {
			kind, want = "set", at
		}
	case "persist", "hpersist", "lpersist", "spersist", "zpersist":
		if rep == "int:1" {
			kind, want = "clear", 0
		}
	}
	if mi2.ExpireAt != want {
		cls := "ttl-wrong:" + p.name
		if kind == "clear" {
			cls = "ttl-not-cleared:" + p.name
		} else if kind == "keep" && mi2.ExpireAt == 0 {
			cls = "ttl-lost:" + p.name
		}
		s.viol(cls, what(fmt.Sprintf("expected expireAt=%d (%s)", want, kind)))
	}
}

// rebuildEntry makes the log entry of the same command on another key (same request shape, id and timestamp).
func rebuildEntry(p *dpend, fresh []byte) (e2 entryT, ok bool) {
	rl, err := node.VerifEntryReqs(p.ent)
	if err != nil || len(rl.Reqs) != 1 {
		return e2, false
	}
	cmd, err := parseRedis(rl.Reqs[0].Data)
	if err != nil || len(cmd) < 2 {
		return e2, false
	}
	if rl.Reqs[0].Header.DataType == int32(node.RedisV2Req) {
		cmd[1] = fresh
	} else {
		ck, _ := cutNS(fresh)
		cmd[1] = ck
	}
	rl.Reqs[0].Data = common.BuildCommand(cmd).Raw
	e2 = p.ent
	if p.ent.DataType == int32(node.RedisV2Req) {
		e2.Data = rl.Reqs[0].Data
		return e2, true
	}
	d, err := rl.Marshal()
	if err != nil {
		return e2, false
	}
	e2.Data = d
	return e2, true
}

// ---------------------------------------------------------------------------------------------------------------
// applying an event

func (s *dsession) flush() []string {
	ps := s.pend
	s.pend = nil
	if len(ps) == 0 {
		return nil
	}
	s.c.Note(fmt.Sprintf("batch-size:%02d", len(ps)))
	names := make([]string, len(ps))
	for i, p := range ps {
		names[i] = p.name
	}
	replies := make([]string, len(ps))
	// shadow b first: one request per apply event, so a panic / an error side effect is attributable to one command
	var sbRep []string
	if sb := s.shadow('b'); sb != nil {
		sbRep = make([]string, len(ps))
		for i, p := range ps {
			pre := s.c10Pre(sb, p)
			pan := ""
			var raw interface{}
			func() {
				defer func() {
					if x := recover(); x != nil {
						pan = strings.SplitN(fmt.Sprint(x), "\n", 2)[0]
					}
				}()
				raw = sb.applyShadow([]*dpend{p}, false)[0]
			}()
			if pan != "" {
				s.viol("panic:"+p.name+":apply", hexLine(p.args)+" => "+pan)
				s.poisoned = "panic in apply of " + p.name
				s.dropPendingList(ps)
				for j := range replies {
					replies[j] = "panic"
				}
				return replies
			}
			sbRep[i] = canonRVs(shadowReply(p, raw))
			// F4 precondition: a batchable command fails at apply time inside an event that holds other entries
			if len(ps) > 1 && isErrReply(sbRep[i]) && (p.name == "set" || p.name == "setex" || p.name == "hmset" || p.name == "del") {
				s.batchAbort = true
			}
			if isErrReply(sbRep[i]) {
				// what the next successful write does: it commits the shared engine write batch. After a failed command that
				// batch must be empty (aborted), otherwise the buffered half of the failed command is committed with it.
				sb.kv.CommitBatchWrite()
			}
			fp, _, _ := sb.kv.VerifRawHash()
			if isErrReply(sbRep[i]) && fp != s.prevFp {
				s.viol("error-changed-state:"+p.name, fmt.Sprintf("%s @%d answered %s but the stored bytes changed (applied alone)", hexLine(p.args), p.ts, sbRep[i]))
			}
			s.prevFp = fp
			s.c10Post(sb, p, pre, sbRep[i])
		}
	}
	// main
	fp0, _, _ := s.main.kv.VerifRawHash()
	ents := make([]entryT, len(ps))
	for i, p := range ps {
		ents[i] = p.ent
	}
	pan := ""
	func() {
		defer func() {
			if x := recover(); x != nil {
				pan = strings.SplitN(fmt.Sprint(x), "\n", 2)[0]
			}
		}()
		s.main.vn.ApplyEvent(ents, false)
	}()
	if pan != "" {
		s.viol("panic:event("+strings.Join(names, ",")+"):apply", pan)
		s.poisoned = "panic in apply"
		s.dropPendingList(ps)
		for j := range replies {
			replies[j] = "panic"
		}
		return replies
	}
	allErr := true
	for i, p := range ps {
		replies[i] = canonRVs(s.main.finish(s.c, p))
		if !isErrReply(replies[i]) {
			allErr = false
		} else {
			s.c.Note("apply-err:" + p.name + ":" + replies[i][4:])
		}
		s.c.Note("applied:" + p.name)
	}
	if allErr {
		s.main.kv.CommitBatchWrite() // as above: nothing may be left in the shared write batch
	}
	fp1, _, _ := s.main.kv.VerifRawHash()
	if allErr && fp0 != fp1 {
		s.viol("error-changed-state:"+ps[0].name+":event", fmt.Sprintf("every command of the event (%s) answered an error but the stored bytes changed", strings.Join(names, ",")))
	}
	s.last = ps
	// compare with the shadows
	if sbRep != nil && !s.shadowOf('b').diverged {
		for i := range ps {
			if sbRep[i] != replies[i] {
				s.shadowOf('b').diverged = true
				// a later batchable command of the event that fails on both runs is what aborted the shared batch
				// (kvbatchOperator.AbortBatchForError answers every batched request with that error; del shows it as 0)
				sfx := ""
				if rockredis.IsBatchableWrite(ps[i].name) {
					for j := i + 1; j < len(ps); j++ {
						if rockredis.IsBatchableWrite(ps[j].name) && isErrReply(replies[j]) && sbRep[j] == replies[j] {
							sfx = ":aborted-by:" + ps[j].name
							break
						}
					}
				}
				s.viol("batch-dependent:"+ps[i].name+sfx, fmt.Sprintf("event [%s]: request %d %s answered %s in the event but %s when applied alone",
					eventText(ps), i, hexLine(ps[i].args), replies[i], sbRep[i]))
				break
			}
		}
	}
	for _, sh := range s.shadows {
		if sh.kind == 'b' {
			continue
		}
		pan := ""
		var raws []interface{}
		if sh.diverged {
			func() {
				defer func() { recover() }()
				sh.n.applyShadow(ps, sh.kind == 'p')
			}()
			continue
		}
		func() {
			defer func() {
				if x := recover(); x != nil {
					pan = strings.SplitN(fmt.Sprint(x), "\n", 2)[0]
				}
			}()
			raws = sh.n.applyShadow(ps, sh.kind == 'p')
		}()
		if pan != "" {
			s.viol(shadowClass[sh.kind]+":panic", eventText(ps)+" => "+pan)
			continue
		}
		for i, p := range ps {
			r := canonRVs(shadowReply(p, raws[i]))
			if r != replies[i] {
				sh.diverged = true
				s.viol(shadowClass[sh.kind]+":"+p.name, fmt.Sprintf("event [%s]: request %d %s answered %s on the main run but %s on the shadow (%s)",
					eventText(ps), i, hexLine(p.args), replies[i], r, sh.n.eng))
				break
			}
		}
	}
	// same log => same stored bytes (physical comparison; the logical one is made at dump lines)
	for _, sh := range s.shadows {
		if sh.diverged {
			continue
		}
		if fp, _, _ := sh.n.kv.VerifRawHash(); fp != fp1 {
			sh.diverged = true
			s.viol(shadowClass[sh.kind]+":raw:"+ps[len(ps)-1].name, fmt.Sprintf("after event [%s] the stored bytes differ between the main run and the shadow (%c,%s)\nmain:   %s\nshadow: %s",
				eventText(ps), sh.kind, sh.n.eng, rawText(s.main), rawText(sh.n)))
		}
	}
	return replies
}

func rawText(n *dnode) string {
	kvs, err := n.kv.VerifRawDump()
	if err != nil {
		return "?"
	}
	var b []string
	for _, kv := range kvs {
		b = append(b, fmt.Sprintf("%x=%x", kv[0], kv[1]))
		if len(b) > 60 {
			b = append(b, "…")
			break
		}
	}
	return strings.Join(b, " ")
}

func (s *dsession) dropPendingList(ps []*dpend) {
	s.pend = ps
	s.dropPending()
}

func eventText(ps []*dpend) string {
	var b []string
	for _, p := range ps {
		b = append(b, fmt.Sprintf("%s @%d", hexLine(p.args), p.ts))
	}
	return strings.Join(b, " ; ")
}

// ---------------------------------------------------------------------------------------------------------------
// ops

func (s *dsession) opWrite(f []string, line int) string {
	if len(f) < 4 {
		return "bad-op"
	}
	ts, err1 := strconv.ParseInt(f[1], 10, 64)
	if err1 != nil || (f[2] != "0" && f[2] != "1") {
		return "bad-op"
	}
	args := make([][]byte, len(f)-3)
	for i := range args {
		args[i] = unhex(f[i+3])
	}
	if s.maxTs != 0 && ts <= s.maxTs {
		s.tsNonMono = true
	}
	if ts > s.maxTs {
		s.maxTs = ts
	}
	st, p := s.main.submit(s.c, ts, args, line)
	name := strings.ToLower(string(args[0]))
	if p != nil {
		s.pend = append(s.pend, p)
		s.noteKey(p)
		s.c.Note("queued:" + name)
	} else if strings.HasPrefix(st, "err:") {
		s.c.Note("reject:" + name + ":" + st[4:])
	} else if strings.HasPrefix(st, "local:") {
		s.c.Note("local:" + name)
	} else if strings.HasPrefix(st, "panic") {
		s.poisoned = "panic on the leader side"
	}
	if f[2] == "0" {
		return st
	}
	rs := s.flush()
	if len(rs) == 0 {
		return st + " => -"
	}
	return st + " => " + strings.Join(rs, " | ")
}

var ttlReadCmds = map[string]dtype{"ttl": tKV, "httl": tHash, "lttl": tList, "sttl": tSet, "zttl": tZSet}

func (s *dsession) opRead(f []string) string {
	if len(f) < 2 {
		return "bad-op"
	}
	args := make([][]byte, len(f)-1)
	for i := range args {
		args[i] = unhex(f[i+1])
	}
	name := strings.ToLower(string(args[0]))
	var out string
	if t, ok := ttlReadCmds[name]; ok && len(args) == 2 {
		out = s.main.ttlAt(name, args[1])
		// (4) the TTL answered to a client is the stored expiry second
		if ck, ok2 := cutNS(args[1]); ok2 && s.main.pol == "compact" && bytes.IndexByte(ck, ':') > 0 && bytes.HasPrefix(args[1], []byte(dataNS+":")) {
			if mi, err := s.main.kv.VerifMeta(dtypeStore[t], ck); err == nil {
				now := time.Now().Unix()
				want := "int:-1"
				if mi.Exists && mi.ExpireAt > now {
					want = "ttlat:" + strconv.FormatInt(mi.ExpireAt, 10)
				}
				if out != want && !isErrReply(out) {
					s.viol("ttl-wrong:read:"+name, fmt.Sprintf("%s answered %s, stored expireAt=%d exists=%v", hexLine(args), out, mi.ExpireAt, mi.Exists))
				}
			}
		}
	} else {
		out = canonRVs(s.main.read(args))
	}
	s.c.Note("read:" + name)
	if isErrReply(out) {
		s.c.Note("read-err:" + name + ":" + out[4:])
	}
	// (3) a key whose stored expiry second lies in the past (wall clock, the clock read paths use) reads as absent
	if t := cmdType(name); t != tNone && len(args) >= 2 && name != "mget" && name != "exists" && s.main.pol == "compact" {
		if ck, ok := cutNS(args[1]); ok && bytes.IndexByte(ck, ':') > 0 && len(ck) < 300 && !strings.HasPrefix(name, "stale.") && bytes.HasPrefix(args[1], []byte(dataNS+":")) {
			if mi, err := s.main.kv.VerifMeta(dtypeStore[t], ck); err == nil && mi.Exists && mi.ExpireAt != 0 && mi.ExpireAt < time.Now().Unix()-3600 {
				a2 := cloneArgs(args)
				a2[1] = []byte(dataNS + ":" + strings.SplitN(string(ck), ":", 2)[0] + ":\x01absent")
				var abs string
				if _, isTTL := ttlReadCmds[name]; isTTL && len(args) == 2 {
					abs = s.main.ttlAt(name, a2[1])
				} else {
					abs = canonRVs(s.main.read(a2))
				}
				s.c.Note("read-of-expired-key")
				if abs != out {
					s.viol("expired-visible:"+dtypeName[t]+":"+name, fmt.Sprintf("%s answered %s but %s for an absent key; stored expireAt=%d", hexLine(args), out, abs, mi.ExpireAt))
				}
			}
		}
	}
	return out
}

func (s *dsession) opDump() string {
	d := s.main.dump(s.keys, s.tables)
	if len(s.pend) == 0 {
		for _, sh := range s.shadows {
			if sh.diverged {
				continue
			}
			if d2 := sh.n.dump(s.keys, s.tables); d2 != d {
				sh.diverged = true
				s.viol(shadowClass[sh.kind]+":dump", fmt.Sprintf("main: %s\nshadow(%c,%s): %s", d, sh.kind, sh.n.eng, d2))
			}
		}
	}
	return d
}

func (s *dsession) opInv() string {
	s.main.discover(s.keys, s.tables)
	first := ""
	for _, k := range sortedKeys(s.keys) {
		for _, t := range []dtype{tHash, tList, tSet, tZSet} {
			r := s.main.invKey(t, k)
			if r == "" {
				continue
			}
			if first == "" {
				first = r
			}
			// attribution: the command of the last event on this key, preferring one with a repeated sub-key
			trigger, cmd := "unknown", "unknown"
			for _, p := range s.last {
				if len(p.args) > 1 && string(p.args[1]) == k && cmdType(p.name) == t {
					_, dup := membersOf(p.name, p.args)
					if dup {
						trigger, cmd = "dup-arg", p.name
						break
					}
					trigger, cmd = "plain", p.name
				}
			}
			if ck, ok := cutNS([]byte(k)); ok && trigger != "dup-arg" {
				if s.dupTaint[dtypeName[t]+"|"+string(ck)] {
					trigger = "dup-arg-earlier"
				} else if s.equalTs[dtypeName[t]+"|"+string(ck)] {
					trigger = "equal-ts"
				}
			}
			key := "inv|" + dtypeName[t] + "|" + k
			if !s.reported[key] {
				s.reported[key] = true
				s.report("count-enum-mismatch:"+dtypeName[t]+":"+trigger+":"+cmd,
					fmt.Sprintf("session %d (%s/%s): %s after event [%s]", s.sid, s.main.eng, s.main.pol, r, eventText(s.last)))
			}
		}
	}
	if first == "" {
		return "ok"
	}
	return first
}

// opScan runs one round of the local_deletion background scan on every node (no-op under wait_compact) and checks
// C10's "removed only if the expiry instant last given has passed" on the one-request-per-event shadow.
func (s *dsession) opScan() string {
	if s.main.pol != "local" {
		return "noop"
	}
	if len(s.pend) != 0 {
		return "busy"
	}
	type ex struct {
		t  dtype
		ck string
	}
	sb := s.shadow('b')
	var before []ex
	if sb != nil {
		for _, k := range sortedKeys(s.keys) {
			ck, ok := cutNS([]byte(k))
			if !ok || bytes.IndexByte(ck, ':') <= 0 {
				continue
			}
			for _, t := range allTypes {
				if mi, err := sb.kv.VerifMeta(dtypeStore[t], ck); err == nil && mi.Exists {
					before = append(before, ex{t, string(ck)})
				}
			}
		}
	}
	n, err := s.main.kv.VerifLocalTTLScan()
	for _, sh := range s.shadows {
		sh.n.kv.VerifLocalTTLScan()
	}
	if sb != nil {
		now := time.Now().Unix()
		for _, e := range before {
			mi, err := sb.kv.VerifMeta(dtypeStore[e.t], []byte(e.ck))
			if err != nil || mi.Exists {
				continue
			}
			tk := dtypeName[e.t] + "|" + e.ck
			g, has := s.given[tk]
			if !has {
				s.viol("early-removal:"+dtypeName[e.t]+":no-expiry-in-force", fmt.Sprintf("key %s removed by the scan although its last write carried no expiry (overwritten / recreated after an older EXPIRE)", hexLine([][]byte{[]byte(e.ck)})))
			} else if g > now {
				s.viol("early-removal:"+dtypeName[e.t]+":re-expired-later", fmt.Sprintf("key %s removed by the scan although the expiry instant last given is %d (now %d)", hexLine([][]byte{[]byte(e.ck)}), g, now))
			}
			delete(s.given, tk)
		}
		s.prevFp, _, _ = sb.kv.VerifRawHash()
	}
	if err != nil {
		return "err:" + errClass(err.Error())
	}
	return "ok:" + strconv.Itoa(n)
}

// dataExtOps: further op lines of the `data` executor, registered by the protocols that need them (first token -> handler).
var dataExtOps = map[string]func(s *dsession, f []string, line int) string{}

func newData(c *Ctx) func(string) string {
	var s *dsession
	sid := 0
	stats := &dstats{}
	classCount := map[string]int{}
	open := func(kv map[string]string) string {
		if s != nil {
			s.close()
			s = nil
		}
		sid++
		var err error
		s, err = openSession(c, sid, kv)
		if err != nil {
			s = nil
			return "err:open:" + err.Error()
		}
		s.stats = stats
		s.classCount = classCount
		c.Note("session:" + s.main.eng + "/" + s.main.pol)
		return "ok"
	}
	return func(line string) string {
		f := strings.Fields(line)
		if len(f) == 0 {
			return "bad-op"
		}
		if f[0] == "open" {
			kv := map[string]string{}
			for _, a := range f[1:] {
				if i := strings.IndexByte(a, '='); i > 0 {
					kv[a[:i]] = a[i+1:]
				}
			}
			return open(kv)
		}
		if f[0] == "restart" {
			// the restart shadow ('s': a pebble store) is closed and reopened here; the same log applied with a restart of
			// the node in between must give the same replies and the same data. Only between apply events.
			if s != nil && len(s.pend) == 0 {
				if sh := s.shadowOf('s'); sh != nil && !sh.diverged {
					if err := sh.n.restart(); err != nil {
						s.viol("restart-dependent:reopen-failed", err.Error())
						sh.diverged = true
					} else {
						c.Note("shadow-restart")
					}
				}
			}
			return "ok"
		}
		if f[0] == "pfwin" {
			// the write-back window of a HyperLogLog, on a scratch store of its own (the sessions flush the cache around
			// every write, see VerifRawHash): PFADD a; DEL a   against   PFADD b; <flush, as a snapshot or restart does>; DEL b.
			// The same log must leave the same data (both keys gone, also after the next flush) and give the same replies.
			kv := map[string]string{"eng": "pebble", "pol": "compact"}
			for _, a := range f[1:] {
				if i := strings.IndexByte(a, '='); i > 0 {
					kv[a[:i]] = a[i+1:]
				}
			}
			n, err := openNode(kv["eng"], kv["pol"])
			if err != nil {
				return "err:open"
			}
			defer n.close()
			ts := dataBaseFuture
			run := func(key string, flush bool) (del, cnt, cntLater int64) {
				k := []byte(key)
				n.kv.PFAdd(ts, k, []byte("e1"), []byte("e2"))
				if flush {
					n.kv.VerifFlushHLL()
				}
				del, _ = n.kv.DelKeys(k)
				cnt, _ = n.kv.PFCount(ts+1, k)
				n.kv.VerifFlushHLL()
				cntLater, _ = n.kv.PFCount(ts+2, k)
				return
			}
			da, ca, la := run("t:pfwin-a", false)
			db, cb, lb := run("t:pfwin-b", true)
			c.Note("pfwin")
			if ca != cb || la != lb {
				c.Violation("restart-dependent:hll-del", fmt.Sprintf("pfwin %s/%s: PFADD k e1 e2; DEL k; PFCOUNT k answers %d (and %d after the next flush of the cache) when the HyperLogLog was only in the write-back cache, %d (%d) when the cache had been flushed in between (snapshot, restart): the same log leaves different data", kv["eng"], kv["pol"], ca, la, cb, lb))
			}
			if da != db {
				c.Violation("restart-dependent:hll-del-reply", fmt.Sprintf("pfwin %s/%s: DEL of a HyperLogLog that is only in the write-back cache answers %d, of a flushed one %d", kv["eng"], kv["pol"], da, db))
			}
			// the same for a plain SET over the key: it must win, flushed before or not
			runSet := func(key string, flush bool) string {
				k := []byte(key)
				n.kv.PFAdd(ts, k, []byte("e1"))
				if flush {
					n.kv.VerifFlushHLL()
				}
				n.kv.KVSet(ts+1, k, []byte("v"))
				n.kv.VerifFlushHLL()
				v, _ := n.kv.KVGet(k)
				return hexs(v)
			}
			ga, gb := runSet("t:pfwin-c", false), runSet("t:pfwin-d", true)
			if ga != gb {
				c.Violation("restart-dependent:hll-set", fmt.Sprintf("pfwin %s/%s: PFADD k e1; SET k v; GET k answers %.40s… after the next flush of the cache when the HyperLogLog was only in the write-back cache at the SET (the flush writes the sketch over the later SET), %s when it had been flushed before the SET: the same log leaves different data", kv["eng"], kv["pol"], ga, gb))
			}
			return fmt.Sprintf("del=%d/%d count=%d/%d later=%d/%d set=%v", da, db, ca, cb, la, lb, ga == gb)
		}
		if f[0] == "end" {
			if s != nil {
				s.close()
				s = nil
			}
			return "ok"
		}
		if s == nil {
			if r := open(map[string]string{}); r != "ok" {
				return r
			}
		}
		if s.poisoned != "" {
			return "poisoned"
		}
		switch f[0] {
		case "w":
			return s.opWrite(f, c.line)
		case "r":
			return s.opRead(f)
		case "dump":
			return s.opDump()
		case "inv":
			return s.opInv()
		case "scan":
			return s.opScan()
		}
		if h, ok := dataExtOps[f[0]]; ok { // op lines added by protocols that reuse this executor (datacorebit: aw, raw, binv)
			return h(s, f, c.line)
		}
		return "bad-op"
	}
}
