package main

import (
	"encoding/json"
	"errors"
	"fmt"
	"math/rand"
	"net"
	"net/http"
	"sort"
	"strconv"
	"strings"
	"sync"
	"time"

	"github.com/youzan/ZanRedisDB/cluster"
	"github.com/youzan/ZanRedisDB/cluster/pdnode_coord"
	"github.com/youzan/ZanRedisDB/common"
)

// C18 migration safety: the REAL decision methods of cluster/pdnode_coord (handleNamespaceMigrate,
// addNamespaceToNode, removeNamespaceFromNode, removeNamespaceFromRemovings, rebalanceNamespace) driven
// against an in-memory cluster.PDRegister that logs every UpdateNamespacePartReplicaInfo call, and against
// loopback HTTP stubs that answer the coordinator's /cluster/members and /cluster/israftsynced queries.
//
//	reset replica=<r> alg=v1|v2 ns=<name> pool=<k> layout=<info>
//	env alive=<set> synced=<set> ready=<set> joined=<set> elapsed=yes|no cas=ok|fail
//	act migrate | add <node> | remove <node> | finish | balance
//
// info = nodes=<n0,n1,…> ids=<n0:1,…> rm=<n2 | n2!z | -> max=<MaxRaftID>     (!z: RemoveTime == 0)
// answer of an act: res=<ok|err:class|moved:<b>,balanced:<b>> write=<none | ok:<info> | casfail:<info>>
//
// One namespace with ONE partition; node i of the pool is `n<i>` on the line protocol and
// "<10+i>:127.0.0.1::<6000+i>:<http port of stub i>:" inside the real code (string order = index order).
func init() {
	register(&Proto{Name: "coord", Gen: genCoord, New: newCoord})
}

const coordPool = 10

// ---------------------------------------------------------------- loopback stubs of the data nodes

type coordStubs struct {
	mu      sync.Mutex
	ports   [coordPool]int
	ids     [coordPool]string
	alive   [coordPool]bool
	synced  [coordPool]bool
	members [coordPool][]*common.MemberInfo
	reqs    int
}

var stubs *coordStubs
var stubsOnce sync.Once

func startStubs() *coordStubs {
	stubsOnce.Do(func() {
		s := &coordStubs{}
		for i := 0; i < coordPool; i++ {
			l, err := net.Listen("tcp", "127.0.0.1:0")
			if err != nil {
				panic(err)
			}
			s.ports[i] = l.Addr().(*net.TCPAddr).Port
			s.ids[i] = fmt.Sprintf("%d:127.0.0.1::%d:%d:", 10+i, 6000+i, s.ports[i])
			idx := i
			mux := http.NewServeMux()
			mux.HandleFunc(common.APIGetMembers+"/", func(w http.ResponseWriter, r *http.Request) {
				s.mu.Lock()
				s.reqs++
				ok := s.alive[idx]
				ms := s.members[idx]
				s.mu.Unlock()
				if !ok {
					http.Error(w, "down", 500)
					return
				}
				if ms == nil {
					ms = []*common.MemberInfo{}
				}
				b, _ := json.Marshal(ms)
				w.Write(b)
			})
			mux.HandleFunc(common.APIIsRaftSynced+"/", func(w http.ResponseWriter, r *http.Request) {
				s.mu.Lock()
				s.reqs++
				ok := s.alive[idx] && s.synced[idx]
				s.mu.Unlock()
				if !ok {
					http.Error(w, "not synced", 500)
					return
				}
				w.Write([]byte("{}"))
			})
			srv := &http.Server{Handler: mux}
			srv.SetKeepAlivesEnabled(false) // the coordinator builds a new Transport per request and never reuses it
			go srv.Serve(l)
		}
		stubs = s
	})
	return stubs
}

// ---------------------------------------------------------------- in-memory PDRegister

type updLog struct {
	info cluster.PartitionReplicaInfo
	ok   bool
}

type memRegister struct {
	mu      sync.Mutex
	ns      string
	meta    cluster.NamespaceMetaInfo
	info    cluster.PartitionReplicaInfo
	epoch   cluster.EpochType
	casFail bool
	log     []updLog
	onWrite func()
}

var errNotImpl = errors.New("not implemented by the in-memory register")

func (m *memRegister) part() cluster.PartitionMetaInfo {
	p := cluster.PartitionMetaInfo{Name: m.ns, Partition: 0, NamespaceMetaInfo: m.meta.DeepClone(),
		PartitionReplicaInfo: m.info.DeepClone()}
	cluster.VerifSetReplicaEpoch(&p.PartitionReplicaInfo, m.epoch)
	return p
}

func (m *memRegister) InitClusterID(id string)                     {}
func (m *memRegister) Start()                                      {}
func (m *memRegister) Stop()                                       {}
func (m *memRegister) GetAllPDNodes() ([]cluster.NodeInfo, error)  { return nil, nil }
func (m *memRegister) GetNamespacesNotifyChan() chan struct{}      { return nil }
func (m *memRegister) SaveKV(key string, value string) error       { return nil }
func (m *memRegister) GetKV(key string) (string, error)            { return "", cluster.ErrKeyNotFound }
func (m *memRegister) Register(nodeData *cluster.NodeInfo) error   { return nil }
func (m *memRegister) Unregister(nodeData *cluster.NodeInfo) error { return nil }
func (m *memRegister) GetClusterEpoch() (cluster.EpochType, error) { return 1, nil }
func (m *memRegister) GetClusterMetaInfo() (cluster.ClusterMetaInfo, error) {
	return cluster.ClusterMetaInfo{}, nil
}
func (m *memRegister) AcquireAndWatchLeader(leader chan *cluster.NodeInfo, stop chan struct{}) {}
func (m *memRegister) GetDataNodes() ([]cluster.NodeInfo, error)                               { return nil, nil }
func (m *memRegister) WatchDataNodes(nodeC chan []cluster.NodeInfo, stopC chan struct{})       {}
func (m *memRegister) CreateNamespace(ns string, meta *cluster.NamespaceMetaInfo) error {
	return errNotImpl
}
func (m *memRegister) UpdateNamespaceMetaInfo(ns string, meta *cluster.NamespaceMetaInfo, oldGen cluster.EpochType) error {
	return errNotImpl
}
func (m *memRegister) CreateNamespacePartition(ns string, partition int) error { return errNotImpl }
func (m *memRegister) IsExistNamespace(ns string) (bool, error)                { return ns == m.ns, nil }
func (m *memRegister) IsExistNamespacePartition(ns string, partition int) (bool, error) {
	return ns == m.ns && partition == 0, nil
}
func (m *memRegister) DeleteNamespacePart(ns string, partition int) error { return errNotImpl }
func (m *memRegister) DeleteWholeNamespace(ns string) error               { return errNotImpl }
func (m *memRegister) PrepareNamespaceMinGID() (int64, error)             { return 0, nil }
func (m *memRegister) UpdateNamespaceSchema(ns string, table string, schema *cluster.SchemaInfo) error {
	return errNotImpl
}
func (m *memRegister) GetNamespaceSchemas(ns string) (map[string]cluster.SchemaInfo, error) {
	return nil, nil
}
func (m *memRegister) GetNamespaceTableSchema(ns string, table string) (*cluster.SchemaInfo, error) {
	return nil, cluster.ErrKeyNotFound
}

func (m *memRegister) GetNamespacePartInfo(ns string, partition int) (*cluster.PartitionMetaInfo, error) {
	m.mu.Lock()
	defer m.mu.Unlock()
	if ns != m.ns || partition != 0 {
		return nil, cluster.ErrKeyNotFound
	}
	p := m.part()
	return &p, nil
}
func (m *memRegister) GetRemoteNamespaceReplicaInfo(ns string, partition int) (*cluster.PartitionReplicaInfo, error) {
	p, err := m.GetNamespacePartInfo(ns, partition)
	if err != nil {
		return nil, err
	}
	return &p.PartitionReplicaInfo, nil
}
func (m *memRegister) GetNamespaceMetaInfo(ns string) (cluster.NamespaceMetaInfo, error) {
	if ns != m.ns {
		return cluster.NamespaceMetaInfo{}, cluster.ErrKeyNotFound
	}
	return m.meta.DeepClone(), nil
}
func (m *memRegister) GetNamespaceInfo(ns string) ([]cluster.PartitionMetaInfo, error) {
	m.mu.Lock()
	defer m.mu.Unlock()
	if ns != m.ns {
		return nil, cluster.ErrKeyNotFound
	}
	return []cluster.PartitionMetaInfo{m.part()}, nil
}
func (m *memRegister) GetAllNamespaces() (map[string]map[int]cluster.PartitionMetaInfo, cluster.EpochType, error) {
	m.mu.Lock()
	defer m.mu.Unlock()
	return map[string]map[int]cluster.PartitionMetaInfo{m.ns: {0: m.part()}}, m.epoch, nil
}

// UpdateNamespacePartReplicaInfo: check-and-set on the epoch, as the etcd register does; every call is logged.
func (m *memRegister) UpdateNamespacePartReplicaInfo(ns string, partition int, replicaInfo *cluster.PartitionReplicaInfo,
	oldGen cluster.EpochType) error {
	m.mu.Lock()
	defer m.mu.Unlock()
	if m.onWrite != nil {
		m.onWrite()
	}
	if ns != m.ns || partition != 0 {
		return cluster.ErrKeyNotFound
	}
	if m.casFail || oldGen != m.epoch {
		m.log = append(m.log, updLog{replicaInfo.DeepClone(), false})
		return errors.New("compare failed (injected)")
	}
	m.info = replicaInfo.DeepClone()
	m.epoch++
	cluster.VerifSetReplicaEpoch(replicaInfo, m.epoch)
	m.log = append(m.log, updLog{replicaInfo.DeepClone(), true})
	return nil
}

// ---------------------------------------------------------------- canonical text

type cInfo struct {
	nodes []int
	ids   map[int]uint64
	rm    map[int]bool // node -> RemoveTime == 0
	max   int64
}

func nodeName(i int) string { return "n" + strconv.Itoa(i) }

func parseNode(s string) (int, bool) {
	if len(s) < 2 || s[0] != 'n' {
		return 0, false
	}
	i, err := strconv.Atoi(s[1:])
	if err != nil || i < 0 || i >= coordPool {
		return 0, false
	}
	return i, true
}

func parseSet(s string) ([coordPool]bool, bool) {
	var r [coordPool]bool
	if s == "-" || s == "" {
		return r, true
	}
	for _, x := range strings.Split(s, ",") {
		i, ok := parseNode(x)
		if !ok {
			return r, false
		}
		r[i] = true
	}
	return r, true
}

func fmtSet(b [coordPool]bool) string {
	var p []string
	for i, x := range b {
		if x {
			p = append(p, nodeName(i))
		}
	}
	if len(p) == 0 {
		return "-"
	}
	return strings.Join(p, ",")
}

func (c *cInfo) String() string {
	ns := make([]string, len(c.nodes))
	for i, n := range c.nodes {
		ns[i] = nodeName(n)
	}
	var ks []int
	for k := range c.ids {
		ks = append(ks, k)
	}
	sort.Ints(ks)
	is := make([]string, len(ks))
	for i, k := range ks {
		is[i] = fmt.Sprintf("%s:%d", nodeName(k), c.ids[k])
	}
	var rs []int
	for k := range c.rm {
		rs = append(rs, k)
	}
	sort.Ints(rs)
	rr := make([]string, len(rs))
	for i, k := range rs {
		rr[i] = nodeName(k)
		if c.rm[k] {
			rr[i] += "!z"
		}
	}
	j := func(x []string) string {
		if len(x) == 0 {
			return "-"
		}
		return strings.Join(x, ",")
	}
	return fmt.Sprintf("nodes=%s;ids=%s;rm=%s;max=%d", j(ns), j(is), j(rr), c.max)
}

func parseCInfo(s string) *cInfo {
	c := &cInfo{ids: map[int]uint64{}, rm: map[int]bool{}}
	for _, kv := range strings.Split(s, ";") {
		i := strings.Index(kv, "=")
		if i < 0 {
			return nil
		}
		k, v := kv[:i], kv[i+1:]
		if v == "-" {
			v = ""
		}
		switch k {
		case "nodes":
			if v != "" {
				for _, x := range strings.Split(v, ",") {
					n, ok := parseNode(x)
					if !ok {
						return nil
					}
					c.nodes = append(c.nodes, n)
				}
			}
		case "ids":
			if v != "" {
				for _, x := range strings.Split(v, ",") {
					p := strings.Split(x, ":")
					if len(p) != 2 {
						return nil
					}
					n, ok := parseNode(p[0])
					id, err := strconv.ParseUint(p[1], 10, 63)
					if !ok || err != nil {
						return nil
					}
					c.ids[n] = id
				}
			}
		case "rm":
			if v != "" {
				for _, x := range strings.Split(v, ",") {
					z := strings.HasSuffix(x, "!z")
					n, ok := parseNode(strings.TrimSuffix(x, "!z"))
					if !ok {
						return nil
					}
					c.rm[n] = z
				}
			}
		case "max":
			m, err := strconv.ParseInt(v, 10, 62)
			if err != nil {
				return nil
			}
			c.max = m
		default:
			return nil
		}
	}
	return c
}

func (s *coordStubs) idx(id string) int {
	for i, x := range s.ids {
		if x == id {
			return i
		}
	}
	return -1
}

func (s *coordStubs) toReal(c *cInfo) cluster.PartitionReplicaInfo {
	r := cluster.PartitionReplicaInfo{RaftIDs: map[string]uint64{}, Removings: map[string]cluster.RemovingInfo{},
		MaxRaftID: c.max, LearnerNodes: map[string][]string{}}
	for _, n := range c.nodes {
		r.RaftNodes = append(r.RaftNodes, s.ids[n])
	}
	for n, id := range c.ids {
		r.RaftIDs[s.ids[n]] = id
	}
	for n, z := range c.rm {
		t := time.Now().Add(-time.Hour).UnixNano()
		if z {
			t = 0
		}
		r.Removings[s.ids[n]] = cluster.RemovingInfo{RemoveTime: t, RemoveReplicaID: c.ids[n]}
	}
	return r
}

func (s *coordStubs) fromReal(r *cluster.PartitionReplicaInfo) *cInfo {
	c := &cInfo{ids: map[int]uint64{}, rm: map[int]bool{}, max: r.MaxRaftID}
	for _, id := range r.RaftNodes {
		c.nodes = append(c.nodes, s.idx(id))
	}
	for id, v := range r.RaftIDs {
		c.ids[s.idx(id)] = v
	}
	for id, v := range r.Removings {
		c.rm[s.idx(id)] = v.RemoveTime == 0
	}
	return c
}

// ---------------------------------------------------------------- executor + oracle

type coordEnv struct {
	alive, synced, ready, joined [coordPool]bool
	elapsed                      bool
	casFail                      bool
}

type coordSess struct {
	reg     *memRegister
	coord   *pdnode_coord.PDCoordinator
	replica int
	pool    int
	env     coordEnv
	issued  map[uint64]bool              // ghost: every replica id that was ever visible in the register
	waiting map[string]map[int]time.Time // the waiting table of the coordinator's check loop (act check)
}

func healthyEnv(pool int) coordEnv {
	var e coordEnv
	for i := 0; i < pool; i++ {
		e.alive[i], e.synced[i], e.ready[i] = true, true, true
	}
	e.elapsed = true
	return e
}

func (ss *coordSess) isr(c *cInfo) []int {
	var r []int
	for _, n := range c.nodes {
		if _, ok := c.rm[n]; !ok {
			r = append(r, n)
		}
	}
	return r
}

// install the environment into the stubs and the coordinator before an act
func (ss *coordSess) install(st *coordStubs) {
	cur := st.fromReal(&ss.reg.info)
	st.mu.Lock()
	for i := 0; i < coordPool; i++ {
		st.alive[i] = ss.env.alive[i]
		st.synced[i] = ss.env.synced[i]
		var ms []*common.MemberInfo
		if ss.env.ready[i] {
			for _, n := range ss.isr(cur) {
				ms = append(ms, &common.MemberInfo{ID: cur.ids[n], NodeID: uint64(10 + n), GroupName: ss.reg.ns + "-0"})
			}
		}
		for n := range cur.rm {
			if ss.env.joined[n] {
				ms = append(ms, &common.MemberInfo{ID: cur.ids[n], NodeID: uint64(10 + n), GroupName: ss.reg.ns + "-0"})
			}
		}
		st.members[i] = ms
	}
	st.mu.Unlock()
	ss.coord.VerifSetDataNodes(ss.aliveMap(st))
	ss.reg.casFail = ss.env.casFail
	if ss.env.elapsed {
		pdnode_coord.VerifSetWaitRemoveInterval(0)
		pdnode_coord.VerifSetWaitMigrateInterval(0)
	} else {
		pdnode_coord.VerifSetWaitRemoveInterval(time.Hour * 24)
		pdnode_coord.VerifSetWaitMigrateInterval(time.Hour * 24)
	}
	ss.coord.VerifSetStableNodeNum(int32(ss.pool))
}

func (ss *coordSess) aliveMap(st *coordStubs) map[string]cluster.NodeInfo {
	m := map[string]cluster.NodeInfo{}
	for i := 0; i < ss.pool; i++ {
		if ss.env.alive[i] {
			m[st.ids[i]] = cluster.NodeInfo{ID: st.ids[i], RegID: uint64(10 + i), NodeIP: "127.0.0.1",
				HttpPort: strconv.Itoa(st.ports[i]), RedisPort: strconv.Itoa(6000 + i)}
		}
	}
	return m
}

func hasDup(xs []int) bool {
	seen := map[int]bool{}
	for _, x := range xs {
		if seen[x] {
			return true
		}
		seen[x] = true
	}
	return false
}

// the invariant of C18 evaluated on one logged write (attempted writes included)
func (ss *coordSess) oracle(c *Ctx, act string, prev, nw *cInfo, committed bool) {
	tag := fmt.Sprintf("act=%s replica=%d prev{%s} new{%s} alive=%s ready=%s synced=%s", act, ss.replica, prev, nw,
		fmtSet(ss.env.alive), fmtSet(ss.env.ready), fmtSet(ss.env.synced))
	if len(nw.rm) > 1 {
		c.Violation("two-removings", tag)
	}
	isr := ss.isr(nw)
	if 2*len(isr) <= ss.replica {
		c.Violation("isr-below-quorum", tag)
	}
	if hasDup(nw.nodes) {
		c.Violation("duplicate-replica", tag)
	}
	prevSet := map[int]bool{}
	for _, n := range prev.nodes {
		prevSet[n] = true
	}
	var added []int
	for _, n := range nw.nodes {
		if !prevSet[n] {
			added = append(added, n)
		}
	}
	if len(added) > 1 {
		c.Violation("added-two", tag)
	}
	if len(added) > 0 {
		c.Note("write/add")
		if strings.HasPrefix(act, "check") {
			c.Note("check-loop/write/add")
		}
		allReady := true
		for _, n := range ss.isr(prev) {
			if !(ss.env.alive[n] && ss.env.ready[n] && ss.env.synced[n]) {
				allReady = false
			}
		}
		// addNamespaceToNode itself has no readiness gate: its callers (handleNamespaceMigrate is separate;
		// addNodeToNamespaceAndWaitReady = act balance) check IsAllISRFullReady first, so the clause is judged
		// on the acts that contain the gate
		gated := strings.HasPrefix(act, "migrate") || strings.HasPrefix(act, "balance") || strings.HasPrefix(act, "check")
		if len(prev.rm) > 0 || len(nw.rm) > 0 || (gated && !allReady) {
			c.Violation("added-without-ready", tag)
		}
		if nw.max <= prev.max {
			c.Violation("raftid-not-increasing", tag)
		}
		for _, n := range added {
			id, ok := nw.ids[n]
			if !ok || int64(id) <= prev.max || int64(id) > nw.max {
				c.Violation("raftid-not-increasing", tag)
			}
			if ss.issued[id] {
				c.Violation("raftid-reused", tag+fmt.Sprintf(" id=%d was issued before", id))
			}
		}
	}
	if nw.max < prev.max {
		c.Violation("raftid-not-increasing", tag)
	}
	seenID := map[uint64]int{}
	for n, id := range nw.ids {
		if int64(id) > nw.max {
			c.Violation("raftid-not-increasing", tag+" (an id above MaxRaftID)")
		}
		if m, ok := seenID[id]; ok && m != n {
			c.Violation("raftid-reused", tag+fmt.Sprintf(" id=%d on two nodes", id))
		}
		seenID[id] = n
	}
	newRm := false
	for n := range nw.rm {
		if _, ok := prev.rm[n]; !ok {
			newRm = true
		}
	}
	if newRm {
		c.Note("write/mark-removal")
		if strings.HasPrefix(act, "check") {
			c.Note("check-loop/write/mark-removal")
		}
		alive := 0
		for _, n := range prev.nodes {
			if ss.env.alive[n] {
				alive++
			}
		}
		if 2*alive <= ss.replica {
			c.Violation("removal-with-majority-dead", tag)
		}
	}
	if len(nw.nodes) < len(prev.nodes) {
		c.Note("write/finish-removal")
		if strings.HasPrefix(act, "check") {
			c.Note("check-loop/write/finish-removal")
		}
	}
	if committed {
		for _, id := range nw.ids {
			ss.issued[id] = true
		}
	}
}

func parseKV(fs []string) map[string]string {
	m := map[string]string{}
	for _, f := range fs {
		if i := strings.Index(f, "="); i > 0 {
			m[f[:i]] = f[i+1:]
		}
	}
	return m
}

func newCoord(c *Ctx) func(string) string {
	cluster.SetLogLevel(int(common.LOG_ERR))
	st := startStubs()
	var ss *coordSess
	return func(line string) string {
		f := strings.Fields(line)
		if len(f) == 0 {
			return "bad-op"
		}
		switch f[0] {
		case "reset":
			kv := parseKV(f[1:])
			r, err1 := strconv.Atoi(kv["replica"])
			pool, err2 := strconv.Atoi(kv["pool"])
			ci := parseCInfo(kv["layout"])
			if err1 != nil || err2 != nil || ci == nil || r < 1 || r > 9 || pool < 1 || pool > coordPool || kv["ns"] == "" ||
				(kv["alg"] != "v1" && kv["alg"] != "v2") {
				ss = nil
				return "bad-op"
			}
			reg := &memRegister{ns: kv["ns"], meta: cluster.NamespaceMetaInfo{PartitionNum: 1, Replica: r}, epoch: 1}
			reg.info = st.toReal(ci)
			ss = &coordSess{reg: reg, replica: r, pool: pool, env: healthyEnv(pool), issued: map[uint64]bool{}, waiting: map[string]map[int]time.Time{}}
			ss.coord = pdnode_coord.VerifNewCoord(reg, kv["alg"])
			for _, id := range ci.ids {
				ss.issued[id] = true
			}
			for i := int64(1); i <= ci.max; i++ {
				ss.issued[uint64(i)] = true // everything up to MaxRaftID counts as handed out
			}
			return "ok"
		case "env":
			if ss == nil {
				return "bad-op"
			}
			kv := parseKV(f[1:])
			var e coordEnv
			var ok1, ok2, ok3, ok4 bool
			e.alive, ok1 = parseSet(kv["alive"])
			e.synced, ok2 = parseSet(kv["synced"])
			e.ready, ok3 = parseSet(kv["ready"])
			e.joined, ok4 = parseSet(kv["joined"])
			if !(ok1 && ok2 && ok3 && ok4) {
				return "bad-op"
			}
			for i := ss.pool; i < coordPool; i++ { // nodes outside the pool do not exist
				e.alive[i] = false
			}
			e.elapsed = kv["elapsed"] != "no"
			e.casFail = kv["cas"] == "fail"
			ss.env = e
			return "ok"
		case "act":
			if ss == nil || len(f) < 2 {
				return "bad-op"
			}
			ss.install(st)
			info, _ := ss.reg.GetNamespacePartInfo(ss.reg.ns, 0)
			prev := st.fromReal(&info.PartitionReplicaInfo)
			logStart := len(ss.reg.log)
			res := ""
			actName := strings.Join(f[1:], " ")
			monitor := make(chan struct{})
			var once sync.Once
			ss.reg.onWrite = nil
			func() {
				defer func() {
					if r := recover(); r != nil {
						msg := fmt.Sprint(r)
						switch {
						case strings.Contains(msg, "interface conversion: interface {} is nil"):
							res = "panic:v2-empty-candidates"
						case strings.Contains(msg, "index out of range"):
							res = "panic:index-out-of-range"
						default:
							res = "panic:other:" + strings.ReplaceAll(strings.SplitN(msg, "\n", 2)[0], " ", "_")
						}
						c.Violation(strings.SplitN(res, ":other", 2)[0], actName+" prev{"+prev.String()+"} => "+msg)
					}
				}()
				switch f[1] {
				case "migrate":
					ce := ss.coord.VerifHandleNamespaceMigrate(info, ss.aliveMap(st), ss.coord.VerifNodesEpoch())
					res = pdnode_coord.VerifCoordErrClass(ce)
				case "add", "remove":
					if len(f) < 3 {
						res = "bad-op"
						return
					}
					n, ok := parseNode(f[2])
					if !ok {
						res = "bad-op"
						return
					}
					if f[1] == "add" {
						res = pdnode_coord.VerifCoordErrClass(ss.coord.VerifAddNamespaceToNode(info, st.ids[n]))
					} else {
						// the path of the operator API PDCoordinator.RemoveNamespaceFromNode: info read from the register,
						// then removeNamespaceFromNode — no readiness / liveness gate in front of it
						res = pdnode_coord.VerifCoordErrClass(ss.coord.VerifRemoveNamespaceFromNode(info, st.ids[n]))
					}
				case "finish":
					ss.coord.VerifRemoveNamespaceFromRemovings(info)
					res = "ok"
				case "check":
					// ONE pass of the coordinator's own loop (doCheckNamespaces: finish removals, migrate after the grace
					// time, trim an over-replicated partition); it may write more than once, every write is judged against
					// the one before it
					ss.coord.VerifDoCheckNamespaces(ss.waiting)
					res = "ok"
				case "balance":
					// every wait inside rebalanceNamespace selects on monitorChan: it is closed at the first register
					// write (successful or not), so one act performs at most one write and never sleeps
					ss.reg.onWrite = func() { once.Do(func() { close(monitor) }) }
					moved, bal := ss.coord.VerifRebalanceNamespace(monitor)
					res = fmt.Sprintf("moved:%v,balanced:%v", moved, bal)
				default:
					res = "bad-op"
				}
			}()
			ss.reg.onWrite = nil
			if res == "bad-op" {
				return res
			}
			w := "none"
			logs := ss.reg.log[logStart:]
			if len(logs) > 1 && f[1] != "check" {
				c.Violation("more-than-one-write", fmt.Sprintf("%s: %d register writes in one decision", actName, len(logs)))
			}
			for _, l := range logs {
				nw := st.fromReal(&l.info)
				ss.oracle(c, actName, prev, nw, l.ok)
				if l.ok && f[1] == "check" {
					prev = nw
				}
				if l.ok {
					w = "ok:" + nw.String()
				} else {
					w = "casfail:" + nw.String()
				}
			}
			c.Note("act/" + f[1] + "/" + strings.SplitN(w, ":", 2)[0])
			c.Note("res/" + f[1] + "/" + res)
			return "res=" + res + " write=" + w
		}
		return "bad-op"
	}
}

// ---------------------------------------------------------------- generator

func randSubset(rng *rand.Rand, pool int, pKeep float64) [coordPool]bool {
	var r [coordPool]bool
	for i := 0; i < pool; i++ {
		r[i] = rng.Float64() < pKeep
	}
	return r
}

func genCoord(rng *rand.Rand, tier string, emit func(string)) {
	sessions := 250
	if tier == "thorough" {
		sessions = 5000
	}
	checkSessions := sessions / 4
	for s := 0; s < sessions+checkSessions; s++ {
		onlyCheck := s >= sessions // sessions driven ONLY through the coordinator's own loop (act check; not modelled in Lean)
		replica := 1 + rng.Intn(5)
		pool := 3 + rng.Intn(6)
		// a valid start layout: distinct nodes, distinct ids ≤ MaxRaftID, at most one removal, ISR quorum
		k := replica
		switch rng.Intn(6) {
		case 0:
			k = replica + 1
		case 1:
			k = replica/2 + 1 + rng.Intn(replica-replica/2)
		}
		if onlyCheck && rng.Intn(2) == 0 {
			k = replica + 1 // over-replicated: the trimming branch of the loop
		}
		if k > pool {
			k = pool
		}
		perm := rng.Perm(pool)
		ci := &cInfo{ids: map[int]uint64{}, rm: map[int]bool{}}
		ids := rng.Perm(k + rng.Intn(3))
		for i := 0; i < k; i++ {
			ci.nodes = append(ci.nodes, perm[i])
			ci.ids[perm[i]] = uint64(ids[i] + 1)
			if int64(ids[i]+1) > ci.max {
				ci.max = int64(ids[i] + 1)
			}
		}
		ci.max += int64(rng.Intn(3))
		if rng.Intn(4) == 0 && 2*(k-1) > replica {
			ci.rm[perm[rng.Intn(k)]] = rng.Intn(6) == 0
		}
		alg := "v2"
		if rng.Intn(4) == 0 || (onlyCheck && rng.Intn(2) == 0) {
			alg = "v1" // the ring layout ignores the old placement: the loop's trimming branch finds members to drop
		}
		emit(fmt.Sprintf("reset replica=%d alg=%s ns=%s pool=%d layout=%s", replica, alg, placeNS[rng.Intn(len(placeNS))], pool, ci))
		env := healthyEnv(pool)
		steps := 5 + rng.Intn(56)
		if onlyCheck {
			steps = 4 + rng.Intn(12)
		}
		for t := 0; t < steps; t++ {
			if rng.Intn(3) == 0 {
				switch rng.Intn(10) {
				case 0, 1:
					env.alive[rng.Intn(pool)] = false
				case 2:
					env.alive[rng.Intn(pool)] = true
				case 3:
					env = healthyEnv(pool)
				case 4:
					env.synced[rng.Intn(pool)] = rng.Intn(2) == 0
				case 5:
					env.ready[rng.Intn(pool)] = rng.Intn(2) == 0
				case 6:
					env.joined = randSubset(rng, pool, 0.3)
				case 7:
					env.elapsed = rng.Intn(3) != 0
				case 8:
					env.casFail = rng.Intn(3) == 0
				case 9:
					env.alive = randSubset(rng, pool, 0.6)
					env.synced = randSubset(rng, pool, 0.8)
					env.ready = randSubset(rng, pool, 0.8)
				}
				el, cas := "yes", "ok"
				if !env.elapsed {
					el = "no"
				}
				if env.casFail {
					cas = "fail"
				}
				emit(fmt.Sprintf("env alive=%s synced=%s ready=%s joined=%s elapsed=%s cas=%s", fmtSet(env.alive), fmtSet(env.synced),
					fmtSet(env.ready), fmtSet(env.joined), el, cas))
			}
			switch x := rng.Intn(20); {
			case onlyCheck:
				emit("act check")
			case x < 8:
				emit("act migrate")
			case x < 12:
				emit("act finish")
			case x < 15:
				emit("act balance")
			case x < 17:
				emit("act add " + nodeName(rng.Intn(pool)))
			default:
				emit("act remove " + nodeName(rng.Intn(pool)))
			}
		}
	}
}
