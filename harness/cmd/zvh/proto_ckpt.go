package main

import (
	"crypto/sha256"
	"fmt"
	"io/ioutil"
	"math/rand"
	"os"
	"path/filepath"
	"sort"
	"strconv"
	"strings"
	"time"

	"github.com/youzan/ZanRedisDB/common"
	"github.com/youzan/ZanRedisDB/rockredis"
)

// C14: (a) the real purgeOldCheckpoint vs the Lean model, (b) real Backup / Restore on a real store: the
// logical dump after a restore equals the dump recorded at backup time; the checkpoint directory is unchanged.
//
//	purge <keep> <latest> <term-index,…>            → remaining names, ascending
//	open <eng> | w <n> | backup | restore <k> | end  → (not modelled in Lean; oracle)
//	xfetch <eng> <n> <extra> <big> <seed>           → two replicas of one log, B at index n, A at n+extra (the extra entries
//	                                                  overwrite early keys with values of the same length); B fetches A's checkpoint
//	                                                  into its remote backup dir and restores it (snapshot install) (oracle)
func init() { register(&Proto{Name: "ckpt", Gen: genCkpt, New: newCkpt}) }

func genCkpt(rng *rand.Rand, tier string, emit func(string)) {
	n, sessions := 1500, 24
	if tier == "thorough" {
		n, sessions = 60000, 400
	}
	for i := 0; i < n; i++ {
		k := rng.Intn(9)
		term, idx := 1, 0
		var names []string
		for j := 0; j < k; j++ {
			if rng.Intn(4) == 0 {
				term += 1 + rng.Intn(2)
			}
			idx += 1 + rng.Intn(20)
			names = append(names, fmt.Sprintf("%d-%d", term, idx))
		}
		if rng.Intn(6) == 0 && len(names) > 1 { // adversarial: indexes not monotone with the term
			names[rng.Intn(len(names))] = fmt.Sprintf("%d-%d", term+1, rng.Intn(10))
		}
		rng.Shuffle(len(names), func(a, b int) { names[a], names[b] = names[b], names[a] })
		ns := "-"
		if len(names) > 0 {
			ns = strings.Join(names, ",")
		}
		latest := rng.Intn(idx + 10)
		if rng.Intn(10) == 0 {
			latest = 0
		}
		emit(fmt.Sprintf("purge %d %d %s", rng.Intn(5), latest, ns))
	}
	// a checkpoint fetched by ANOTHER replica of the same log that is behind (snapshot install): same file names on both
	// sides, different checkpoint instants
	nx := 6
	if tier == "thorough" {
		nx = 60
	}
	for i := 0; i < nx; i++ {
		big := 0
		if i%2 == 0 {
			big = 1 // 1 kB incompressible values and a forced flush: sst files beyond the 256 kB the restore compares
		}
		emit(fmt.Sprintf("xfetch %s %d %d %d %d", []string{"pebble", "pebble", "rocksdb"}[i%3], 300+rng.Intn(400), 1+rng.Intn(5), big, rng.Intn(1<<30)))
	}
	for s := 0; s < sessions; s++ {
		eng := []string{"pebble", "rocksdb", "pebble"}[rng.Intn(3)]
		burst := ""
		if s%4 == 1 {
			// a small memtable and, every 23rd log entry, a burst of HyperLogLog writes that stay in the write-back cache:
			// closing the engine (restore) flushes them and rolls the memtable / WAL at that very moment
			burst = " burst"
		}
		emit(fmt.Sprintf("open %s %d%s", eng, []int{20, 20, 1, 2, 3}[rng.Intn(5)], burst))
		nb := 0
		for i := 0; i < 14; i++ {
			switch r := rng.Intn(10); {
			case r < 5:
				emit(fmt.Sprintf("w %d", 1+rng.Intn(40)))
			case r < 8:
				emit(fmt.Sprintf("w %d", 1+rng.Intn(4))) // every checkpoint at its own index
				if rng.Intn(2) == 0 {
					// a checkpoint whose raft snapshot is never recorded (out of date, SaveSnap failed, crash before the record)
					emit("backupu")
				} else {
					emit("backup")
				}
				nb++
			default:
				if nb > 0 {
					emit(fmt.Sprintf("restore %d", rng.Intn(nb)))
				}
			}
		}
		if nb > 0 {
			emit(fmt.Sprintf("restore %d", rng.Intn(nb)))
			emit(fmt.Sprintf("restore %d", rng.Intn(nb)))
		}
		emit("end")
	}
}

func dirSum(dir string) string {
	var names []string
	filepath.Walk(dir, func(p string, info os.FileInfo, err error) error {
		// data files only: opening a checkpoint for the read check may touch LOG / LOCK / OPTIONS files
		b := filepath.Base(p)
		if err == nil && info.Mode().IsRegular() && (strings.HasSuffix(b, ".sst") || strings.HasPrefix(b, "MANIFEST") || b == "CURRENT" || strings.HasSuffix(b, ".log")) {
			names = append(names, p)
		}
		return nil
	})
	sort.Strings(names)
	h := sha256.New()
	for _, n := range names {
		b, _ := ioutil.ReadFile(n)
		fmt.Fprintf(h, "%s:%d:", strings.TrimPrefix(n, dir), len(b))
		h.Write(b)
	}
	return fmt.Sprintf("%x", h.Sum(nil))[:16]
}

func newCkpt(c *Ctx) func(string) string {
	var db *rockredis.RockDB
	var dir string
	type bk struct {
		term, index uint64
		dump        string
		sum         string
	}
	var bks []bk
	burst := false     // session with a 16 kB memtable and HyperLogLog bursts (see genCkpt)
	keep := 20         // KeepBackup of the session
	lastRecorded := -1 // position in bks of the checkpoint of the newest RECORDED raft snapshot
	sums := map[string]string{}
	counter := 0
	index := uint64(0)
	keys := map[string]bool{}
	closeDB := func() {
		if db != nil {
			db.Close()
			db = nil
			os.RemoveAll(dir)
		}
	}
	allKeys := func() []string { // the fixed universe of key names (17 names × 5 types), so later keys show as absent
		var ks []string
		for i := 0; i < 17; i++ {
			ks = append(ks, fmt.Sprintf("k%03d", i))
		}
		return ks
	}
	logical := func() string {
		ks := allKeys()
		h := sha256.New()
		for _, k := range ks {
			v, _ := db.KVGet([]byte("t:" + k))
			n, _ := db.HLen([]byte("t:h" + k))
			f, _ := db.HGet([]byte("t:h"+k), []byte("f"))
			l, _ := db.LLen([]byte("t:l" + k))
			z, _ := db.ZCard([]byte("t:z" + k))
			cv, _ := db.KVGet([]byte("t:c" + k))
			pf, _ := db.PFCount(time.Now().UnixNano(), []byte("t:p"+k))
			fmt.Fprintf(h, "%s kv=%s h=%d/%s l=%d z=%d c=%s pf=%d;", k, v, n, f, l, z, cv, pf)
		}
		if burst {
			for k := 0; k < 30; k++ {
				pf, _ := db.PFCount(time.Now().UnixNano(), []byte(fmt.Sprintf("t:pb%02d", k)))
				fmt.Fprintf(h, "pb%02d=%d;", k, pf)
			}
		}
		return fmt.Sprintf("%x", h.Sum(nil))[:16]
	}
	return func(line string) string {
		f := strings.Fields(line)
		switch f[0] {
		case "purge":
			keep, _ := strconv.Atoi(f[1])
			latest, _ := strconv.ParseUint(f[2], 10, 64)
			d, _ := ioutil.TempDir("", "zvh-purge")
			defer os.RemoveAll(d)
			if f[3] != "-" {
				for _, nm := range strings.Split(f[3], ",") {
					var t, i uint64
					fmt.Sscanf(nm, "%d-%d", &t, &i)
					os.MkdirAll(filepath.Join(d, rockredis.GetCheckpointDir(t, i)), 0755)
				}
			}
			rockredis.VerifPurgeOldCheckpoint(keep, d, latest)
			left, _ := filepath.Glob(filepath.Join(d, "*-*"))
			type ti struct{ t, i uint64 }
			var out []ti
			for _, p := range left {
				var t, i uint64
				fmt.Sscanf(filepath.Base(p), "%x-%x", &t, &i)
				out = append(out, ti{t, i})
			}
			sort.Slice(out, func(a, b int) bool {
				if out[a].t == out[b].t {
					return out[a].i < out[b].i
				}
				return out[a].t < out[b].t
			})
			var ss []string
			for _, o := range out {
				ss = append(ss, fmt.Sprintf("%d-%d", o.t, o.i))
			}
			return "[" + strings.Join(ss, ",") + "]"
		case "open":
			closeDB()
			dataQuiet()
			dir, _ = ioutil.TempDir("", "zvh-ckpt")
			cfg := rockredis.NewRockRedisDBConfig()
			cfg.DataDir = dir
			cfg.EngineType = f[1]
			cfg.ExpirationPolicy = common.WaitCompact
			cfg.DataVersion = common.ValueHeaderV1
			cfg.KeepBackup = 20
			burst = len(f) > 3 && f[3] == "burst"
			if burst {
				cfg.WriteBufferSize = 16 * 1024
			}
			if len(f) > 2 {
				if kb, err := strconv.Atoi(f[2]); err == nil && kb > 0 {
					cfg.KeepBackup = kb
				}
			}
			keep = cfg.KeepBackup
			lastRecorded = -1
			var err error
			db, err = rockredis.OpenRockDB(cfg)
			if err != nil {
				return "err:open"
			}
			bks, counter, index, keys = nil, 0, 0, map[string]bool{}
			sums = map[string]string{}
			return "ok"
		case "end":
			closeDB()
			return "ok"
		case "xfetch":
			if len(f) < 6 {
				return "bad-op"
			}
			n, _ := strconv.Atoi(f[2])
			extra, _ := strconv.Atoi(f[3])
			seed, _ := strconv.ParseInt(f[5], 10, 64)
			return ckptFetch(c, f[1], n, extra, f[4] == "1", seed)
		}
		if db == nil {
			return "err:not-open"
		}
		switch f[0] {
		case "w":
			n, _ := strconv.Atoi(f[1])
			for i := 0; i < n; i++ {
				// the log is a fixed function of the index: entry i always carries the same command and timestamp,
				// so after a restore to index i the node replays the SAME entries i+1, i+2, … (as raft would)
				index++
				counter = int(index)
				k := fmt.Sprintf("k%03d", counter%17)
				keys[k] = true
				ts := int64(1600000000000000000) + int64(index)*1000
				if burst && index%23 == 0 {
					for b := 0; b < 30; b++ {
						elems := make([][]byte, 0, 2000)
						for e := 0; e < 2000; e++ {
							elems = append(elems, []byte(fmt.Sprintf("e-%d-%d-%d", index, b, e)))
						}
						db.PFAdd(ts, []byte(fmt.Sprintf("t:pb%02d", b)), elems...)
					}
					c.Note("ckpt-hll-burst")
				}
				switch counter % 5 {
				case 0:
					db.KVSet(ts, []byte("t:"+k), []byte(fmt.Sprintf("v%d", counter)))
				case 1:
					db.HSet(ts, false, []byte("t:h"+k), []byte(fmt.Sprintf("f%d", counter%3)), []byte("x"))
					db.HSet(ts, false, []byte("t:h"+k), []byte("f"), []byte(fmt.Sprintf("v%d", counter)))
				case 2:
					db.RPush(ts, []byte("t:l"+k), []byte("e"))
				case 3:
					db.ZAdd(ts, []byte("t:z"+k), common.ScorePair{Score: float64(counter), Member: []byte(fmt.Sprintf("m%d", counter%4))})
				case 4:
					db.Incr(ts, []byte("t:c"+k))
					// a HyperLogLog too (its writes go through a write-back cache that Backup has to flush)
					db.PFAdd(ts, []byte("t:p"+k), []byte(fmt.Sprintf("e%d", counter)))
				}
			}
			return "ok"
		case "backup", "backupu":
			bi := db.Backup(1, index)
			if bi == nil {
				return "err:busy"
			}
			if _, err := bi.GetResult(); err != nil {
				return "err:backup"
			}
			ckdir := filepath.Join(db.GetBackupDir(), rockredis.GetCheckpointDir(1, index))
			bks = append(bks, bk{1, index, logical(), dirSum(ckdir)})
			sums[ckdir] = dirSum(ckdir) // a backup at an index that already has a checkpoint replaces it (same logical content)
			if f[0] == "backup" {
				db.VerifSetLatestSnapIndex(index) // the raft snapshot of this checkpoint is recorded (UpdateSnapshotState)
				lastRecorded = len(bks) - 1
			}
			// the purge runs in the backup loop after the backup result is published: give it a moment, then the checkpoint
			// of the newest recorded raft snapshot must still be there (it is what a restart restores)
			if lastRecorded >= 0 {
				time.Sleep(60 * time.Millisecond)
				lr := bks[lastRecorded]
				if ok, _ := db.IsLocalBackupOK(lr.term, lr.index); !ok {
					time.Sleep(200 * time.Millisecond)
					var e2 error
					if ok, e2 = db.IsLocalBackupOK(lr.term, lr.index); !ok {
						c.Violation("recorded-checkpoint-discarded", fmt.Sprintf("after %s at index %d (keep %d): the checkpoint of the newest recorded raft snapshot (index %d) is gone or unusable: %v", f[0], index, keep, lr.index, e2))
					}
				}
			}
			return fmt.Sprintf("ok id=%d", len(bks)-1)
		case "restore":
			k, _ := strconv.Atoi(f[1])
			if k >= len(bks) {
				return "err:nobackup"
			}
			b := bks[k]
			ckdir := filepath.Join(db.GetBackupDir(), rockredis.GetCheckpointDir(b.term, b.index))
			if _, err := os.Stat(ckdir); err != nil {
				// purged: legitimate only for a checkpoint below the newest recorded one that is not among the newest `keep`
				newer := 0
				for _, o := range bks {
					if o.index > b.index {
						newer++
					}
				}
				if k == lastRecorded || lastRecorded < 0 || b.index >= bks[lastRecorded].index || newer < keep {
					c.Violation("checkpoint-discarded", fmt.Sprintf("checkpoint at index %d no longer exists (keep %d, %d newer ones, newest recorded index %v)", b.index, keep, newer, lastRecorded))
				}
				return "err:gone"
			}
			// the node records the raft snapshot it is about to install (persistRaftState: SaveSnap, UpdateSnapshotState) BEFORE
			// the state machine restores its checkpoint, so from here on this checkpoint is the recorded one
			db.VerifSetLatestSnapIndex(b.index)
			lastRecorded = k
			if err := db.Restore(b.term, b.index); err != nil {
				c.Violation("restore-failed", err.Error())
				return "err:restore"
			}
			if got := logical(); got != b.dump {
				c.Violation("restore-wrong-state", fmt.Sprintf("restore of checkpoint at index %d: logical dump differs from the one recorded at backup time", b.index))
			}
			// no checkpoint's data files may have changed since it was (last) written: neither by the engine writes
			// in between nor by this restore
			for d, sum := range sums {
				if _, err := os.Stat(d); err != nil {
					continue // purged
				}
				if got := dirSum(d); got != sum {
					c.Violation("checkpoint-damaged", fmt.Sprintf("checkpoint %s changed on disk (after restore of index %d)", filepath.Base(d), b.index))
				}
			}
			// the node is now at the checkpoint's index and replays the same log from there. A node only ever restores the
			// checkpoint of its newest RECORDED raft snapshot (indexes never go back otherwise), so this checkpoint is the
			// recorded one from here on
			index = b.index
			return "ok"
		}
		return "bad-op"
	}
}

// ckptFetch: replicas A and B apply the same log; B stops at index n and takes its own checkpoint there, A goes on to
// n+extra and takes a checkpoint; B fetches A's checkpoint (a plain copy into its remote backup dir, as the node's rsync
// does) and restores it. B must then hold exactly A's data as of n+extra, and both go on applying the same log.
func ckptFetch(c *Ctx, eng string, n, extra int, big bool, seed int64) string {
	dataQuiet()
	open := func() (*rockredis.RockDB, string, error) {
		dir, _ := ioutil.TempDir("", "zvh-ckptx")
		cfg := rockredis.NewRockRedisDBConfig()
		cfg.DataDir = dir
		cfg.EngineType = eng
		cfg.ExpirationPolicy = common.WaitCompact
		cfg.DataVersion = common.ValueHeaderV1
		db, err := rockredis.OpenRockDB(cfg)
		return db, dir, err
	}
	a, da, err := open()
	if err != nil {
		return "err:open"
	}
	defer os.RemoveAll(da)
	defer a.Close()
	b, db, err := open()
	if err != nil {
		return "err:open"
	}
	defer os.RemoveAll(db)
	defer b.Close()
	val := func(i int) []byte {
		if !big {
			return []byte(fmt.Sprintf("v%06d", i))
		}
		r := rand.New(rand.NewSource(seed + int64(i)))
		v := make([]byte, 1024)
		r.Read(v)
		return v
	}
	nkeys := n
	entry := func(d *rockredis.RockDB, i int) {
		ts := int64(1600000000000000000) + int64(i)*1000
		k := i
		if i > n {
			k = 1 + (i-n-1)*7%nkeys // later entries overwrite EARLY keys, same value length
		}
		switch k % 4 {
		case 0:
			d.HSet(ts, false, []byte(fmt.Sprintf("t:h%05d", k)), []byte("f"), val(i))
		case 1:
			d.Incr(ts, []byte(fmt.Sprintf("t:c%05d", k)))
		default:
			d.KVSet(ts, []byte(fmt.Sprintf("t:k%05d", k)), val(i))
		}
	}
	dump := func(d *rockredis.RockDB) string {
		h := sha256.New()
		for k := 1; k <= nkeys; k++ {
			v, _ := d.KVGet([]byte(fmt.Sprintf("t:k%05d", k)))
			cv, _ := d.KVGet([]byte(fmt.Sprintf("t:c%05d", k)))
			hv, _ := d.HGet([]byte(fmt.Sprintf("t:h%05d", k)), []byte("f"))
			fmt.Fprintf(h, "%d:%x:%s:%x;", k, v, cv, hv)
		}
		return fmt.Sprintf("%x", h.Sum(nil))[:16]
	}
	for i := 1; i <= n; i++ {
		entry(a, i)
		entry(b, i)
	}
	for i := n + 1; i <= n+extra; i++ {
		entry(a, i)
	}
	if big {
		a.CompactRange([]byte{0}, []byte{0xff, 0xff})
		b.CompactRange([]byte{0}, []byte{0xff, 0xff})
	}
	if bi := b.Backup(1, uint64(n)); bi != nil {
		bi.GetResult()
	}
	ai := a.Backup(1, uint64(n+extra))
	if ai == nil {
		return "err:busy"
	}
	if _, err := ai.GetResult(); err != nil {
		return "err:backup"
	}
	want := dump(a)
	src := filepath.Join(a.GetBackupDir(), rockredis.GetCheckpointDir(1, uint64(n+extra)))
	dst := filepath.Join(b.GetBackupDirForRemote(), rockredis.GetCheckpointDir(1, uint64(n+extra)))
	os.MkdirAll(dst, 0755)
	files, _ := ioutil.ReadDir(src)
	sameNames := 0
	for _, fi := range files {
		bs, err := ioutil.ReadFile(filepath.Join(src, fi.Name()))
		if err != nil {
			return "err:copy"
		}
		ioutil.WriteFile(filepath.Join(dst, fi.Name()), bs, 0644)
		if strings.HasSuffix(fi.Name(), ".sst") {
			if _, err := os.Stat(filepath.Join(b.GetDataDir(), fi.Name())); err == nil {
				sameNames++
			}
		}
	}
	if sameNames > 0 {
		c.Note("ckpt-fetch-same-sst-names")
	}
	srcSum := dirSum(src)
	b.VerifSetLatestSnapIndex(uint64(n + extra))
	if err := b.RestoreFromRemoteBackup(1, uint64(n+extra)); err != nil {
		c.Violation("restore-failed", "fetched checkpoint: "+err.Error())
		return "err:restore"
	}
	if got := dump(b); got != want {
		c.Violation("restore-wrong-state", fmt.Sprintf("xfetch %s n=%d extra=%d big=%v: after installing the checkpoint of index %d fetched from another replica, the data differs from that replica's data at that index", eng, n, extra, big, n+extra))
	}
	if got := dirSum(src); got != srcSum {
		c.Violation("checkpoint-damaged", "the source checkpoint changed while it was fetched / restored")
	}
	// both go on with the same log
	for i := n + extra + 1; i <= n+extra+20; i++ {
		entry(a, i)
		entry(b, i)
	}
	if dump(a) != dump(b) {
		c.Violation("restore-wrong-state", fmt.Sprintf("xfetch %s n=%d extra=%d big=%v: the replicas differ after applying 20 more entries of the same log", eng, n, extra, big))
	}
	c.Note("ckpt-fetch:" + eng)
	return "ok"
}
