package main

import (
	"fmt"
	"sort"
	"strconv"
	"strings"
)

// A small sequential specification of exactly the commands the protocols lin (C04) and crash (C06) issue.
// It is the Go twin of lean/ZanVerif/Node/LinSpec.lean and is used only by the Go-side oracles (the Lean drivers
// have their own). Replies and dumps use the same canonical tokens as the answer lines:
//
//	reply:  i<int> | b<text> | n (nil) | sOK | e (error reply)
//	value:  n | b<text> | h:<f>=<int>,… (fields sorted) | l:<v>,… (head first) | z:<m>,… (sorted)

type specOp struct {
	Cmd  string // incr getset setnx get set hincrby hset lpush lpop sadd
	Key  string
	A, B string // arguments ("-" when absent)
}

type specVal struct {
	kind byte // 'b' bytes, 'h' hash, 'l' list, 'z' set
	b    string
	h    map[string]string
	l    []string
	z    map[string]bool
}

type specStore map[string]*specVal

func (s specStore) clone() specStore {
	n := specStore{}
	for k, v := range s {
		c := &specVal{kind: v.kind, b: v.b}
		if v.h != nil {
			c.h = map[string]string{}
			for a, b := range v.h {
				c.h[a] = b
			}
		}
		c.l = append([]string(nil), v.l...)
		if v.z != nil {
			c.z = map[string]bool{}
			for a := range v.z {
				c.z[a] = true
			}
		}
		n[k] = c
	}
	return n
}

func (s specStore) get(key string, kind byte) (*specVal, bool) {
	v := s[key]
	if v == nil {
		return nil, true
	}
	return v, v.kind == kind
}

// apply executes one command and returns the reply token.
func (s specStore) apply(o specOp) string {
	switch o.Cmd {
	case "get":
		v, ok := s.get(o.Key, 'b')
		if !ok {
			return "e"
		}
		if v == nil {
			return "n"
		}
		return "b" + v.b
	case "set":
		if _, ok := s.get(o.Key, 'b'); !ok {
			return "e"
		}
		s[o.Key] = &specVal{kind: 'b', b: o.A}
		return "sOK"
	case "getset":
		v, ok := s.get(o.Key, 'b')
		if !ok {
			return "e"
		}
		s[o.Key] = &specVal{kind: 'b', b: o.A}
		if v == nil {
			return "n"
		}
		return "b" + v.b
	case "setnx":
		v, ok := s.get(o.Key, 'b')
		if !ok {
			return "e"
		}
		if v != nil {
			return "i0"
		}
		s[o.Key] = &specVal{kind: 'b', b: o.A}
		return "i1"
	case "incr":
		v, ok := s.get(o.Key, 'b')
		if !ok {
			return "e"
		}
		var n int64
		if v != nil {
			x, err := strconv.ParseInt(v.b, 10, 64)
			if err != nil {
				return "e"
			}
			n = x
		}
		n++
		s[o.Key] = &specVal{kind: 'b', b: strconv.FormatInt(n, 10)}
		return "i" + strconv.FormatInt(n, 10)
	case "hincrby", "hset":
		v, ok := s.get(o.Key, 'h')
		if !ok {
			return "e"
		}
		if v == nil {
			v = &specVal{kind: 'h', h: map[string]string{}}
			s[o.Key] = v
		}
		if o.Cmd == "hset" {
			_, had := v.h[o.A]
			v.h[o.A] = o.B
			if had {
				return "i0"
			}
			return "i1"
		}
		d, err := strconv.ParseInt(o.B, 10, 64)
		if err != nil {
			return "e"
		}
		var n int64
		if old, had := v.h[o.A]; had {
			x, err := strconv.ParseInt(old, 10, 64)
			if err != nil {
				return "e"
			}
			n = x
		}
		n += d
		v.h[o.A] = strconv.FormatInt(n, 10)
		return "i" + strconv.FormatInt(n, 10)
	case "lpush":
		v, ok := s.get(o.Key, 'l')
		if !ok {
			return "e"
		}
		if v == nil {
			v = &specVal{kind: 'l'}
			s[o.Key] = v
		}
		v.l = append([]string{o.A}, v.l...)
		return "i" + strconv.Itoa(len(v.l))
	case "lpop":
		v, ok := s.get(o.Key, 'l')
		if !ok {
			return "e"
		}
		if v == nil || len(v.l) == 0 {
			return "n"
		}
		x := v.l[0]
		v.l = v.l[1:]
		if len(v.l) == 0 {
			delete(s, o.Key)
		}
		return "b" + x
	case "sadd":
		v, ok := s.get(o.Key, 'z')
		if !ok {
			return "e"
		}
		if v == nil {
			v = &specVal{kind: 'z', z: map[string]bool{}}
			s[o.Key] = v
		}
		if v.z[o.A] {
			return "i0"
		}
		v.z[o.A] = true
		return "i1"
	}
	return "e"
}

// peek answers a command that may be served from local state WITHOUT changing the store ("" if it would write).
func (s specStore) peek(o specOp) string {
	switch o.Cmd {
	case "get":
		v, ok := s.get(o.Key, 'b')
		if !ok {
			return "e"
		}
		if v == nil {
			return "n"
		}
		return "b" + v.b
	case "setnx":
		if v, _ := s.get(o.Key, 'b'); v != nil {
			return "i0"
		}
	case "lpop":
		if v, _ := s.get(o.Key, 'l'); v == nil || len(v.l) == 0 {
			return "n"
		}
	case "sadd":
		if v, _ := s.get(o.Key, 'z'); v != nil && v.z[o.A] {
			return "i0"
		}
	}
	return ""
}

// dumpKey renders the value of a key; kind tells how an absent key is printed.
func (s specStore) dumpKey(key string, kind byte) string {
	v := s[key]
	switch kind {
	case 'b':
		if v == nil {
			return "n"
		}
		return "b" + v.b
	case 'h':
		var fs []string
		if v != nil {
			for f, x := range v.h {
				fs = append(fs, f+"="+x)
			}
		}
		sort.Strings(fs)
		return "h:" + strings.Join(fs, ",")
	case 'l':
		if v == nil {
			return "l:"
		}
		return "l:" + strings.Join(v.l, ",")
	case 'z':
		var ms []string
		if v != nil {
			for m := range v.z {
				ms = append(ms, m)
			}
		}
		sort.Strings(ms)
		return "z:" + strings.Join(ms, ",")
	}
	return "?"
}

func (o specOp) String() string { return fmt.Sprintf("%s %s %s %s", o.Cmd, o.Key, o.A, o.B) }
