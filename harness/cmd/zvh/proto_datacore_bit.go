package main

import (
	"fmt"
	"math/rand"
	"sort"
	"strconv"
	"strings"

	"github.com/youzan/ZanRedisDB/common"
	"github.com/youzan/ZanRedisDB/node"
	"github.com/youzan/ZanRedisDB/rockredis"
)

// datacorebit: the executor of protocol `data` (real KVNode: real leader-side handlers, proposal capture, real apply
// path with the shared batch operator, real read handlers) driven by a generator restricted to the BITMAP commands
// (setbit / setbitv2 / bitclear / bexpire / bpersist, getbit / bitcount / bkeyexist / bttl) and the KV commands that share
// a key name with a bitmap (the legacy bitmap-inside-a-string paths), under both layouts, with several entries per apply
// event, so that EVERY answer line — and the whole physical store after every apply event (`raw`) — is compared with the
// executable Lean storage model (lean/Driver/DataBit.lean over lean/ZanVerif/Data/BitExec.lean) in diff mode.
//
// Op lines added to the executor (dataExtOps):
//
//	aw <ts> <b> <args>               a SETBIT that enters the log WITHOUT the leader-side argument checks of setbitCommand
//	                                 (rebuildFirstKeyAndPropose is called directly): the leader admits offsets up to MaxBitOffset,
//	                                 the apply path (BitSetV2) up to MaxBitOffsetV2; followers apply whatever the log holds
//	raw                              → "raw n=<pairs> <hexkey>=<rle value>;…": every physical pair of the main store in engine order
//	                                 (table key counters left out: not modelled); value = hex, runs of >= 4 zero bytes as z<n>.
//	binv <hexkey> <start> <end> <off>…  → "bc=<BITCOUNT key start end> en=<number of the listed offsets (distinct) whose byte lies in
//	                                 [start, end] (end < 0: no upper bound) and whose GETBIT is 1>"; the generator lists every
//	                                 offset the session ever tried to set on the key (and the bits of every string it stored under
//	                                 that name), start >= 0, so a difference is a C09 violation (count-enum-mismatch:bitmap:bitcount:over|under)
//	bchk <hexkey> <off> <0|1>        C08 oracle, emitted right after the apply event of a well-formed SETBIT key off val: GETBIT key off must
//	                                 answer val unless the stored meta carries an expiry (then the wall-clock read may see it expired);
//	                                 → ok | skip | fail:<reply> (get-after-set:bitmap)
func init() {
	register(&Proto{Name: "datacorebit", Gen: genDataCoreBit, New: newDataBit})
	dataExtOps["raw"] = func(s *dsession, f []string, line int) string { return s.opRaw() }
	dataExtOps["aw"] = func(s *dsession, f []string, line int) string { return s.opApplyWrite(f, line) }
	dataExtOps["binv"] = func(s *dsession, f []string, line int) string { return s.opBinv(f) }
	dataExtOps["bchk"] = func(s *dsession, f []string, line int) string { return s.opBchk(f) }
	// BTTL answers the remaining time by the wall clock: canonical form ttlat:<expiry second>, like the other TTL reads
	dtypeName[tBitmap] = "bitmap"
	dtypeStore[tBitmap] = rockredis.BitmapType
	ttlReadCmds["bttl"] = tBitmap
}

const tBitmap dtype = 6

// newDataBit: the `data` executor; a panic of a read handler is classified by the command (the runner's own class is the
// bare "panic", shared by everything, of which only the first 8 are kept).
func newDataBit(c *Ctx) func(string) string {
	inner := newData(c)
	return func(line string) (out string) {
		defer func() {
			if r := recover(); r != nil {
				msg := strings.SplitN(fmt.Sprint(r), "\n", 2)[0]
				out = "panic:" + msg
				name := "?"
				if f := strings.Fields(line); len(f) > 1 && f[0] == "r" {
					name = strings.ToLower(string(unhex(f[1])))
				} else if len(f) > 0 && f[0] == "binv" {
					name = "bitcount"
				}
				c.Violation("panic:"+name+":read", line+" => "+msg)
			}
		}()
		return inner(line)
	}
}

func rleHex(v []byte) string {
	if len(v) == 0 {
		return "-"
	}
	var b strings.Builder
	z := 0
	flush := func() {
		if z >= 4 {
			fmt.Fprintf(&b, "z%d.", z)
		} else {
			b.WriteString(strings.Repeat("00", z))
		}
		z = 0
	}
	for _, x := range v {
		if x == 0 {
			z++
			continue
		}
		flush()
		fmt.Fprintf(&b, "%02x", x)
	}
	flush()
	return b.String()
}

func (s *dsession) opRaw() string {
	kvs, err := s.main.kv.VerifRawDump()
	if err != nil {
		return "err:" + errClass(err.Error())
	}
	var parts []string
	for _, kv := range kvs {
		if len(kv[0]) > 0 && kv[0][0] == rockredis.TableMetaType {
			continue // table key counter (IncrTableKeyCount): not modelled
		}
		parts = append(parts, hexs(kv[0])+"="+rleHex(kv[1]))
	}
	if len(parts) == 0 {
		return "raw n=0"
	}
	return fmt.Sprintf("raw n=%d %s", len(parts), strings.Join(parts, ";"))
}

// opApplyWrite is opWrite with the leader-side handler replaced by its last step (rebuildFirstKeyAndPropose).
func (s *dsession) opApplyWrite(f []string, line int) string {
	if len(f) != 7 {
		return "bad-op"
	}
	ts, err1 := strconv.ParseInt(f[1], 10, 64)
	if err1 != nil || (f[2] != "0" && f[2] != "1") {
		return "bad-op"
	}
	args := make([][]byte, len(f)-3)
	for i := range args {
		args[i] = unhex(f[i+3])
	}
	name := strings.ToLower(string(args[0]))
	if (name != "setbit" && name != "setbitv2") || !strings.HasPrefix(string(args[1]), dataNS+":") {
		return "bad-op"
	}
	if s.maxTs != 0 && ts <= s.maxTs {
		s.tsNonMono = true
	}
	if ts > s.maxTs {
		s.maxTs = ts
	}
	n := s.main
	n.vn.TakeProposed()
	st := "queued"
	v, err := n.vn.VerifProposeUnchecked(common.BuildCommand(cloneArgs(args)))
	if err != nil {
		st = "err:" + errClass(err.Error())
	} else if fr, ok := v.(*node.FutureRsp); !ok {
		st = "err:noproposal"
	} else if ents := n.vn.TakeProposed(); len(ents) != 1 {
		s.c.Violation("proposal-count:"+name, fmt.Sprintf("%s proposed %d entries", hexLine(args), len(ents)))
		st = "err:noproposal"
	} else {
		p := &dpend{name: name, args: args, ts: ts, line: line, fr: fr, ent: ents[0]}
		if err := node.VerifSetEntryTimestamp(&p.ent, ts); err != nil {
			st = "err:entry"
		} else {
			s.pend = append(s.pend, p)
			s.noteKey(p)
			s.c.Note("queued-unchecked:" + name)
		}
	}
	if f[2] == "0" {
		return st
	}
	rs := s.flush()
	if len(rs) == 0 {
		return st + " => -"
	}
	return st + " => " + strings.Join(rs, " | ")
}

func (s *dsession) opBinv(f []string) string {
	if len(f) < 4 {
		return "bad-op"
	}
	key := unhex(f[1])
	start, e1 := strconv.ParseInt(f[2], 10, 64)
	end, e2 := strconv.ParseInt(f[3], 10, 64)
	if e1 != nil || e2 != nil {
		return "bad-op"
	}
	seen := map[int64]bool{}
	var offs []int64
	for _, x := range f[4:] {
		o, err := strconv.ParseInt(x, 10, 64)
		if err != nil {
			return "bad-op"
		}
		if !seen[o] {
			seen[o] = true
			offs = append(offs, o)
		}
	}
	bc := canonRVs(s.main.read([][]byte{[]byte("bitcount"), key, []byte(f[2]), []byte(f[3])}))
	en := int64(0)
	var ones []string
	for _, o := range offs {
		if !(start <= o/8 && (end < 0 || o/8 <= end)) {
			continue
		}
		if canonRVs(s.main.read([][]byte{[]byte("getbit"), key, []byte(strconv.FormatInt(o, 10))})) == "int:1" {
			en++
			ones = append(ones, strconv.FormatInt(o, 10))
		}
	}
	s.c.Note("binv")
	if strings.HasPrefix(bc, "int:") {
		if n, _ := strconv.ParseInt(bc[4:], 10, 64); n != en {
			dir := "over"
			if n < en {
				dir = "under"
			}
			s.report("count-enum-mismatch:bitmap:bitcount:"+dir, fmt.Sprintf("session %d (%s/%s): BITCOUNT %s %d %d = %d but GETBIT is 1 at exactly %d offsets of that byte range (%s)",
				s.sid, s.main.eng, s.main.pol, hexLine([][]byte{key}), start, end, n, en, strings.Join(ones, ",")))
		}
	}
	return fmt.Sprintf("bc=%s en=%d", bc, en)
}

func (s *dsession) opBchk(f []string) string {
	if len(f) != 4 || (f[3] != "0" && f[3] != "1") {
		return "bad-op"
	}
	key := unhex(f[1])
	if _, err := strconv.ParseInt(f[2], 10, 64); err != nil {
		return "bad-op"
	}
	ck, ok := cutNS(key)
	if !ok {
		return "bad-op"
	}
	mi, err := s.main.kv.VerifMeta(rockredis.BitmapType, ck)
	if err != nil || !mi.Exists || mi.ExpireAt != 0 {
		return "skip"
	}
	r := canonRVs(s.main.read([][]byte{[]byte("getbit"), key, []byte(f[2])}))
	s.c.Note("bchk")
	if r == "int:"+f[3] {
		return "ok"
	}
	s.report("get-after-set:bitmap", fmt.Sprintf("session %d (%s/%s): after SETBIT %s %s %s was applied GETBIT answers %s (no expiry stored)",
		s.sid, s.main.eng, s.main.pol, hexLine([][]byte{key}), f[2], f[3], r))
	return "fail:" + r
}

// ---------------------------------------------------------------------------------------------------------------
// generator

func genDataCoreBit(rng *rand.Rand, tier string, emit func(string)) {
	sessions := 70
	if tier == "thorough" {
		sessions = 3000
	}
	keyPool := []string{"default:t:b", "default:t:b:x", "default:tt:b", "default:t:\x00", "default:t:bb", "default:t:b\xff"}
	h := func(ss ...string) string {
		out := ""
		for _, s := range ss {
			out += " " + hexs([]byte(s))
		}
		return out
	}
	const segBits = 8192
	small := []int64{0, 1, 7, 8, 9, 15, 16, 63, 64, 65}
	boundary := []int64{segBits - 1, segBits, segBits + 1, segBits - 8, segBits + 7, segBits + 8, 2*segBits - 1, 2 * segBits, 2*segBits + 1, 3*segBits - 1, 3 * segBits, 3*segBits + 9}
	growth := []int64{100 * 8, 300*8 + 1, 512 * 8, 600 * 8, 601*8 + 3, 700 * 8, 1000*8 + 7, 1023*8 + 7, segBits + 600*8, segBits + 700*8, segBits + 1023*8}
	mid := []int64{65535, 65536, 100000, 1000000, 1000001}
	far := []int64{5000000, 12345678, 16777215, 16777216, 16777216, 16777217, 16777224}
	beyond := []string{"16777217", "16777216", "20000000", "100000000", "4294967294", "4294967294", "4294967295", "4294967293", "4294967296",
		"4294959103", "8589934592", "9223372036854775807", "-1", "-8192", "-9223372036854775808"}
	weirdInt := []string{"abc", "1.5", "", "99999999999999999999", "-9223372036854775809", "0x10", " 1", "1 ", "+5", "-0", "007", "-1", "-8"}
	weirdVal := []string{"2", "-1", "+1", "01", "x", "", "10", "9223372036854775807", "-9223372036854775808", "99999999999999999999", "1.0"}
	strs := []string{"abc", "", "\xff\x00\x80", "\x00\x00\x00\x00\x00\x00\x00\x01", "0123456789abcdefghij", "\x80", "a"}

	for sidx := 0; sidx < sessions; sidx++ {
		eng := "mem"
		if rng.Intn(5) == 0 {
			eng = "pebble"
		}
		pol := "compact"
		if rng.Intn(4) == 0 {
			pol = "local"
		}
		future := rng.Intn(100) < 45
		emit(fmt.Sprintf("open engine=%s policy=%s now=%d sh=", eng, pol, dataNowFixed))
		ts := int64(1600000000000000000) + rng.Int63n(1e9)
		if future {
			ts = int64(4000000000000000000) + rng.Int63n(1e9)
		}
		pBoundary := 100
		if rng.Intn(3) == 0 {
			pBoundary = 35 + rng.Intn(40) // several entries per apply event
		}
		kvShare := 0
		if rng.Intn(2) == 0 {
			kvShare = 4 + rng.Intn(10) // sessions in which strings of the same name exist
		}
		nk := 1 + rng.Intn(3)
		ks := append([]string{}, keyPool[:nk]...)
		if rng.Intn(4) == 0 {
			ks = append(ks, keyPool[nk+rng.Intn(len(keyPool)-nk)])
		}
		n := 25 + rng.Intn(70)
		tried := map[string][]int64{} // every offset the session tried to set on the key (superset of the set bits)
		strLen := map[string]int{}    // longest string stored under the key's name
		var expiries []int64          // expiry seconds given so far (the log clock is steered across them)
		cands := func(k string) []int64 {
			seen := map[int64]bool{}
			var out []int64
			for _, o := range tried[k] {
				if !seen[o] {
					seen[o] = true
					out = append(out, o)
				}
			}
			for o := int64(0); o < int64(8*strLen[k]); o++ {
				if !seen[o] {
					seen[o] = true
					out = append(out, o)
				}
			}
			sort.Slice(out, func(i, j int) bool { return out[i] < out[j] })
			return out
		}
		off := func(k string) int64 {
			if l := tried[k]; len(l) > 0 && rng.Intn(10) < 2 {
				o := l[rng.Intn(len(l))] + []int64{0, 1, -1, 8, -8, 8192, -8192}[rng.Intn(7)]
				if o >= 0 && o <= 16777216 {
					return o
				}
			}
			switch r := rng.Intn(100); {
			case r < 30:
				return small[rng.Intn(len(small))]
			case r < 58:
				return boundary[rng.Intn(len(boundary))]
			case r < 72:
				return growth[rng.Intn(len(growth))]
			case r < 82:
				return mid[rng.Intn(len(mid))]
			case r < 90:
				return far[rng.Intn(len(far))]
			default:
				return int64(rng.Intn(4 * segBits))
			}
		}
		val := func() string {
			if rng.Intn(100) < 6 {
				return weirdVal[rng.Intn(len(weirdVal))]
			}
			if rng.Intn(10) < 6 {
				return "1"
			}
			return "0"
		}
		note := func(k, o string) {
			if v, err := strconv.ParseInt(o, 10, 64); err == nil && v >= 0 && v <= 4294967294 {
				tried[k] = append(tried[k], v)
			}
		}
		byteOf := func(k string) int64 {
			if l := tried[k]; len(l) > 0 && rng.Intn(10) < 8 {
				return l[rng.Intn(len(l))] / 8
			}
			return []int64{0, 1, 2, 1022, 1023, 1024, 1025, 2047, 2048, 4096}[rng.Intn(10)]
		}
		rangeArgs := func(k string) (string, string) {
			b1, b2 := byteOf(k), byteOf(k)
			f := func(v int64) string { return strconv.FormatInt(v, 10) }
			switch rng.Intn(20) {
			case 0:
				return "0", "-1"
			case 1:
				return f(b1), "-1"
			case 2:
				return "0", f(b1)
			case 3:
				return f(b1), f(b1)
			case 4, 5:
				if b1 > b2 {
					b1, b2 = b2, b1
				}
				return f(b1), f(b2)
			case 6:
				return f(b1), f(b2)
			case 7:
				return f(b1), f(b1 + 1)
			case 8:
				return f(b1 - 1), f(b1)
			case 9:
				return "-1", "-1"
			case 10:
				return f(-1 - int64(rng.Intn(5))), "-1"
			case 11:
				return []string{"-1024", "-1025", "-1023", "-2048", "-100000000"}[rng.Intn(5)], "-1"
			case 12:
				return "0", f(-2 - int64(rng.Intn(1030)))
			case 13:
				return "-5", "-10"
			case 14:
				return f(b1), []string{"10000000", "600000000", "9223372036854775807"}[rng.Intn(3)]
			case 15:
				return []string{"10000000", "2097153", "536871424", "9223372036854775807"}[rng.Intn(4)], "9223372036854775807"
			case 16:
				return []string{"1023", "1024", "0", "2047", "1000"}[rng.Intn(5)], []string{"1024", "1023", "2047", "2048", "1100"}[rng.Intn(5)]
			case 17:
				return "-9223372036854775808", "9223372036854775807"
			case 18:
				return f(b1 / 1024 * 1024), f(b1/1024*1024 + 1023)
			default:
				return f(-1 - b1), f(-1 - b2)
			}
		}
		tick := func() {
			// strictly increasing log clock; sometimes right onto / past an expiry second given earlier
			if len(expiries) > 0 && rng.Intn(100) < 25 {
				e := expiries[rng.Intn(len(expiries))]*1e9 + []int64{-1, 0, 1, 999999999, -1000000000, 1500000000}[rng.Intn(6)]
				if e > ts {
					ts = e
					return
				}
			}
			switch rng.Intn(4) {
			case 0:
				ts += 1 + rng.Int63n(1e3)
			case 1:
				ts += 1 + rng.Int63n(1e6)
			case 2:
				ts += 1 + rng.Int63n(1e9)
			default:
				ts += 1e9 + rng.Int63n(1e9)
			}
		}
		pending := false
		for i := 0; i < n; i++ {
			k := ks[rng.Intn(len(ks))]
			if rng.Intn(100) < 62 {
				tick()
				b := "1"
				if rng.Intn(100) >= pBoundary && i < n-1 {
					b = "0"
				}
				op := "w"
				var a string
				chk := "" // "<off> <val>" of a SETBIT the generator knows to be well-formed and admitted
				r := rng.Intn(100)
				switch {
				case r < kvShare:
					// a string under the same name; a KV command always closes its event (DEL reads the committed store only)
					b = "1"
					switch kr := rng.Intn(10); {
					case kr < 6:
						v := strs[rng.Intn(len(strs))]
						a = h("set", k, v)
						if len(v) > strLen[k] {
							strLen[k] = len(v)
						}
					case kr < 8:
						a = h("del", k)
					case kr < 9 && pol == "compact":
						v := strs[rng.Intn(len(strs))]
						d := 1 + rng.Intn(3)
						a = h("setex", k, strconv.Itoa(d), v)
						if len(v) > strLen[k] {
							strLen[k] = len(v)
						}
						expiries = append(expiries, ts/1e9+int64(d))
					case pol == "compact":
						d := 1 + rng.Intn(3)
						a = h("expire", k, strconv.Itoa(d))
						expiries = append(expiries, ts/1e9+int64(d))
					default:
						a = h("del", k)
					}
				case r < kvShare+58:
					name := "setbit"
					if rng.Intn(12) == 0 {
						name = []string{"setbitv2", "SETBIT", "SetBitV2"}[rng.Intn(3)]
					}
					o := strconv.FormatInt(off(k), 10)
					if rng.Intn(100) < 5 {
						o = weirdInt[rng.Intn(len(weirdInt))]
					}
					note(k, o)
					v := val()
					a = h(name, k, o, v)
					if ov, err := strconv.ParseInt(o, 10, 64); err == nil && ov >= 0 && ov <= 16777216 && (v == "0" || v == "1") && o == strconv.FormatInt(ov, 10) {
						chk = o + " " + v
					}
					if rng.Intn(80) == 0 { // wrong argument count
						a = []string{h(name, k, o), h(name, k, o, "1", "1")}[rng.Intn(2)]
						chk = ""
					}
				case r < kvShare+66:
					// past the leader: offsets the leader refuses but the log may hold (and some it admits)
					op = "aw"
					o := beyond[rng.Intn(len(beyond))]
					if rng.Intn(10) < 3 {
						o = strconv.FormatInt(off(k), 10)
					} else if rng.Intn(10) == 0 {
						o = weirdInt[rng.Intn(len(weirdInt))]
					}
					note(k, o)
					v := val()
					a = h("setbit", k, o, v)
					if ov, err := strconv.ParseInt(o, 10, 64); err == nil && ov >= 0 && ov <= 4294967294 && (v == "0" || v == "1") && o == strconv.FormatInt(ov, 10) {
						chk = o + " " + v
					}
				case r < kvShare+72:
					a = h("bitclear", k)
					if rng.Intn(40) == 0 {
						a = h("bitclear", k, "1")
					}
				case r < kvShare+84 && pol == "compact":
					d := strconv.Itoa(1 + rng.Intn(3))
					switch x := rng.Intn(100); {
					case x < 5:
						d = "2000000000" // year 2084 in the past regime, expoverflow in the future regime
					case x < 9:
						d = []string{"0", "-1", "-5"}[rng.Intn(3)]
					case x < 12:
						d = []string{"abc", "", "1.5", "99999999999999999999"}[rng.Intn(4)]
					}
					if v, err := strconv.ParseInt(d, 10, 64); err == nil && v > 0 && v < 10 {
						expiries = append(expiries, ts/1e9+v)
					}
					a = h("bexpire", k, d)
					if rng.Intn(40) == 0 {
						a = h("bexpire", k)
					}
				case r < kvShare+90:
					a = h("bpersist", k)
				default:
					o := strconv.FormatInt(off(k), 10)
					note(k, o)
					a = h("setbit", k, o, "0")                                                // clearing bits, also on missing keys / segments
					if ov, err := strconv.ParseInt(o, 10, 64); err == nil && ov <= 16777216 { // the leader refuses larger offsets: nothing is applied then
						chk = o + " 0"
					}
				}
				emit(fmt.Sprintf("%s %d %s%s", op, ts, b, a))
				pending = b == "0"
				if !pending {
					emit("raw")
					if chk != "" && rng.Intn(2) == 0 {
						emit(fmt.Sprintf("bchk %s %s", hexs([]byte(k)), chk))
					}
					if rng.Intn(5) == 0 {
						// C09 oracle: start >= 0; end = -1, or >= 0
						c := cands(k)
						s0, e0 := int64(0), int64(-1)
						switch rng.Intn(5) {
						case 0:
						case 1:
							s0 = byteOf(k)
						case 2:
							e0 = byteOf(k)
						default:
							s0, e0 = byteOf(k), byteOf(k)
							if s0 > e0 && rng.Intn(4) > 0 {
								s0, e0 = e0, s0
							}
						}
						line := fmt.Sprintf("binv %s %d %d", hexs([]byte(k)), s0, e0)
						for _, o := range c {
							line += " " + strconv.FormatInt(o, 10)
						}
						emit(line)
					}
				}
			} else {
				var a string
				switch r := rng.Intn(20); {
				case r < 8:
					o := strconv.FormatInt(off(k), 10)
					if l := tried[k]; len(l) > 0 && rng.Intn(10) < 6 {
						o = strconv.FormatInt(l[rng.Intn(len(l))], 10)
					}
					switch x := rng.Intn(100); {
					case x < 4:
						o = weirdInt[rng.Intn(len(weirdInt))]
					case x < 8:
						o = beyond[rng.Intn(len(beyond))]
					}
					a = h("getbit", k, o)
					if rng.Intn(60) == 0 {
						a = []string{h("getbit", k), h("getbit", k, o, "1")}[rng.Intn(2)]
					}
				case r < 10:
					a = h("bitcount", k)
				case r < 16:
					s0, e0 := rangeArgs(k)
					if rng.Intn(50) == 0 {
						s0 = "x"
					} else if rng.Intn(50) == 0 {
						e0 = "99999999999999999999"
					}
					a = h("bitcount", k, s0, e0)
					if rng.Intn(60) == 0 {
						a = []string{h("bitcount", k, s0), h("bitcount", k, s0, e0, "1")}[rng.Intn(2)]
					}
				case r < 17:
					a = h("bkeyexist", k)
				case r < 18:
					a = h("bttl", k)
				case r < 19:
					a = h("get", k)
				default:
					if pol == "compact" {
						a = []string{h("exists", k), h("ttl", k), h("strlen", k)}[rng.Intn(3)]
					} else {
						a = h("get", k)
					}
				}
				emit("r" + a)
			}
		}
		if pending {
			tick()
			note(ks[0], "3")
			emit(fmt.Sprintf("w %d 1%s", ts, h("setbit", ks[0], "3", "1")))
		}
		emit("raw")
		emit("end")
	}
}
