package main

import (
	"context"
	"fmt"
	"math/rand"
	"net"
	"strings"
	"sync"
	"time"

	"github.com/youzan/ZanRedisDB/node"
	"github.com/youzan/ZanRedisDB/syncerpb"
	"google.golang.org/grpc"
)

// C19, sender side: the REAL log-syncer learner state machine (logSyncerSM.ApplyRaftRequest → handlerRaftLogs →
// RemoteLogSender over real gRPC on loopback) forwards a run of its local raft log to a receiver that filters
// like server.ApplyRaftReqs / KVNode.applyEntry do. Whatever the batching, the receiver must end up having applied
// exactly the entries beyond its synced position, each once, and the learner must not claim more than that.
//
//	send <recvTerm> <recvIndex> <from> <to> <termchange-at|0>
//	  → applied=[…] recv=<t>,<i> claimed=<t>,<i>
func init() { register(&Proto{Name: "syncsend", Gen: genSyncSend, New: newSyncSend}) }

func genSyncSend(rng *rand.Rand, tier string, emit func(string)) {
	n := 60
	if tier == "thorough" {
		n = 2500
	}
	for i := 0; i < n; i++ {
		from := 1 + rng.Intn(8)
		to := from + rng.Intn(9)
		// the receiver's position: before, inside, at the end of, or beyond the run
		ri := []int{0, from - 1, from, from + rng.Intn(to-from+1), to, to + 2}[rng.Intn(6)]
		if ri < 0 {
			ri = 0
		}
		tc := 0
		if rng.Intn(3) == 0 {
			tc = from + rng.Intn(to-from+1)
		}
		rt := 1
		if tc != 0 && ri >= tc {
			rt = 2
		}
		if ri == 0 {
			rt = 0
		}
		emit(fmt.Sprintf("send %d %d %d %d %d", rt, ri, from, to, tc))
	}
}

type ssRecv struct {
	sync.Mutex
	term, index uint64
	applied     []uint64
}

func (r *ssRecv) ApplyRaftReqs(ctx context.Context, reqs *syncerpb.RaftReqs) (*syncerpb.RpcErr, error) {
	r.Lock()
	defer r.Unlock()
	for _, l := range reqs.RaftLog {
		if l.Term < r.term || l.Index <= r.index { // the receive-time filter of server.ApplyRaftReqs (regenerated: Gen.grpcRecvFilter)
			continue
		}
		r.applied = append(r.applied, l.Index)
		r.term, r.index = l.Term, l.Index
	}
	return &syncerpb.RpcErr{}, nil
}
func (r *ssRecv) GetSyncedRaft(ctx context.Context, req *syncerpb.SyncedRaftReq) (*syncerpb.SyncedRaftRsp, error) {
	r.Lock()
	defer r.Unlock()
	return &syncerpb.SyncedRaftRsp{Term: r.term, Index: r.index}, nil
}
func (r *ssRecv) NotifyTransferSnap(ctx context.Context, req *syncerpb.RaftApplySnapReq) (*syncerpb.RpcErr, error) {
	return &syncerpb.RpcErr{}, nil
}
func (r *ssRecv) NotifyApplySnap(ctx context.Context, req *syncerpb.RaftApplySnapReq) (*syncerpb.RpcErr, error) {
	return &syncerpb.RpcErr{}, nil
}
func (r *ssRecv) GetApplySnapStatus(ctx context.Context, req *syncerpb.RaftApplySnapStatusReq) (*syncerpb.RaftApplySnapStatusRsp, error) {
	return &syncerpb.RaftApplySnapStatusRsp{}, nil
}

type ssCI struct{}

func (ssCI) GetClusterName() string { return "zvh-source" }

func newSyncSend(c *Ctx) func(string) string {
	return func(line string) string {
		f := strings.Fields(line)
		if f[0] != "send" || len(f) != 6 {
			return "bad-op"
		}
		var rt, ri, from, to, tc uint64
		fmt.Sscan(f[1], &rt)
		fmt.Sscan(f[2], &ri)
		fmt.Sscan(f[3], &from)
		fmt.Sscan(f[4], &to)
		fmt.Sscan(f[5], &tc)
		dataQuiet()
		lis, err := net.Listen("tcp", "127.0.0.1:0")
		if err != nil {
			return "err:listen"
		}
		recv := &ssRecv{term: rt, index: ri}
		gs := grpc.NewServer()
		syncerpb.RegisterCrossClusterAPIServer(gs, recv)
		go gs.Serve(lis)
		defer gs.Stop()
		sm, err := node.VerifNewLogSyncer("test://"+lis.Addr().String(), "default-0", ssCI{})
		if err != nil {
			return "err:new"
		}
		stop := make(chan struct{})
		defer close(stop)
		termOf := func(i uint64) uint64 {
			if tc != 0 && i >= tc {
				return 2
			}
			return 1
		}
		ts := time.Now().UnixNano()
		for idx := from; idx <= to; idx++ {
			var rl node.BatchInternalRaftRequest
			rl.ReqNum = 1
			rl.Timestamp = ts + int64(idx)
			rl.Reqs = append(rl.Reqs, node.InternalRaftRequest{
				Header: node.RequestHeader{ID: idx, DataType: 0, Timestamp: rl.Timestamp},
				Data:   []byte("*2\r\n$4\r\nincr\r\n$7\r\nzvh:cnt\r\n"),
			})
			if _, err := sm.ApplyRaftRequest(true, nil, rl, termOf(idx), idx, stop); err != nil {
				return "err:apply"
			}
		}
		if err := sm.Start(); err != nil {
			return "err:start"
		}
		defer sm.Close()
		deadline := time.Now().Add(5 * time.Second)
		for time.Now().Before(deadline) {
			_, si := node.VerifLogSyncerSynced(sm)
			if si >= to {
				break
			}
			time.Sleep(2 * time.Millisecond)
		}
		time.Sleep(5 * time.Millisecond)
		ct, ci := node.VerifLogSyncerSynced(sm)
		recv.Lock()
		defer recv.Unlock()
		var as []string
		for _, a := range recv.applied {
			as = append(as, fmt.Sprint(a))
		}
		// ORACLE: every entry beyond the receiver's position exactly once, in order; nothing else; the learner's claim
		// is covered by what the receiver holds
		var want []string
		for idx := from; idx <= to; idx++ {
			if !(termOf(idx) < rt || idx <= ri) {
				want = append(want, fmt.Sprint(idx))
			}
		}
		if strings.Join(as, ",") != strings.Join(want, ",") {
			c.Violation("sender-skipped-or-repeated", fmt.Sprintf("%s: receiver applied [%s], must apply [%s]", line, strings.Join(as, ","), strings.Join(want, ",")))
		}
		if len(want) > 0 && ci > recv.index {
			c.Violation("sender-claims-unsynced", fmt.Sprintf("%s: learner claims %d,%d but the receiver is at %d,%d", line, ct, ci, recv.term, recv.index))
		}
		return fmt.Sprintf("applied=[%s] recv=%d,%d", strings.Join(as, ","), recv.term, recv.index)
	}
}
