module zanverif

go 1.13

require (
	github.com/absolute8511/redcon v0.9.3
	github.com/coreos/pkg v0.0.0-20180108230652-97fdf19511ea
	github.com/gobwas/glob v0.2.3
	github.com/youzan/ZanRedisDB v0.0.0
	github.com/youzan/go-zanredisdb v0.6.3
	google.golang.org/grpc v1.9.2
)

replace github.com/youzan/ZanRedisDB => /repo

replace github.com/youzan/gorocksdb => /verif/build/third_party/gorocksdb

replace github.com/ugorji/go => /verif/build/third_party/ugorji

replace github.com/hashicorp/go-immutable-radix v1.3.0 => github.com/absolute8511/go-immutable-radix v1.3.1-0.20210225131658-3dcbbb786587
