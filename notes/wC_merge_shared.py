#!/usr/bin/env python3
"""Applies work package C's (protocols lin / crash) edits of SHARED files to a verif root (idempotent).
usage: python3 notes/wC_merge_shared.py <verif root>
Touches: harness/cmd/zvh/main.go, bin/check, lean/Driver/Main.lean, lean/ZanVerif.lean. (bin/checks_conf.py and
known_findings.json entries are listed in the hand-back message.)"""
import sys, re, os
R = sys.argv[1]

def edit(path, fn):
    p = os.path.join(R, path)
    s = open(p).read()
    t = fn(s)
    if t != s:
        open(p, 'w').write(t)
        print('patched', path)
    else:
        print('unchanged', path)

def main_go(s):
    if 'var subcmds' not in s:
        s = s.replace('func register(p *Proto) { protos[p.Name] = p }\n',
                      'func register(p *Proto) { protos[p.Name] = p }\n\n'
                      '// subcmds are hidden sub-commands (`zvh <name> args…`), e.g. the child process of protocol crash.\n'
                      'var subcmds = map[string]func(args []string){}\n\n'
                      '// atExit functions run once after the last op line (protocols that keep a cluster / temp dirs alive across lines).\n'
                      'var atExit []func()\n', 1)
        s = s.replace('\tmode := os.Args[1]\n\tif mode == "list" {',
                      '\tmode := os.Args[1]\n\tif f := subcmds[mode]; f != nil {\n\t\tf(os.Args[2:])\n\t\treturn\n\t}\n\tif mode == "list" {', 1)
        s = s.replace('\tof.Close()\n\trf.Close()\n', '\tof.Close()\n\trf.Close()\n\tfor _, f := range atExit {\n\t\tf()\n\t}\n', 1)
    if 'case "gen":' not in s:
        s = s.replace('\tswitch mode {\n\tcase "run":\n',
                      '\tswitch mode {\n\tcase "gen": // print the op lines a run would execute\n'
                      '\t\trng := rand.New(rand.NewSource(*seed))\n\t\tp.Gen(rng, *tier, func(s string) { fmt.Println(s) })\n\t\treturn\n\tcase "run":\n', 1)
    return s

def check(s):
    if 'def step_instrument' not in s:
        s = s.replace('def step_build_harness(log):', '''def step_instrument(log):
    """instrumented copies of the CURRENT repo files (crash points of C06, apply-trace hooks of C04) -> build/overlay-gen;
    an anchor that is not found is listed in build/overlay-gen/instrument.json (crash_points_missing), never a failure"""
    src = os.path.join(V, 'tools', 'instrument')
    exe = os.path.join(BUILD, 'instrument')
    if not os.path.isdir(src):
        return
    if not os.path.exists(exe) or newest(src) > os.path.getmtime(exe):
        rc, out = sh(['go', 'build', '-o', exe, '.'], cwd=src)
        if rc != 0:
            log.append('instrument build failed\\n' + out[-1500:])
            return
    rc, out = sh([exe, '-repo=' + REPO, '-out=' + os.path.join(BUILD, 'overlay-gen')])
    log.append('instrument rc=%d %s' % (rc, out[-1500:]))


def step_build_harness(log):''', 1)
        s = s.replace('        build_overlay()\n', '        step_instrument(log)\n        build_overlay()\n', 1)
    return s

def main_lean(s):
    if 'import Driver.Lin' not in s:
        s = s.replace('import Driver.C15\n', 'import Driver.C15\nimport Driver.Lin\nimport Driver.Crash\n', 1)
        s = s.replace('  | ["c15"] => loop Drv.C15.step hin hout (); hout.flush; return 0\n',
                      '  | ["c15"] => loop Drv.C15.step hin hout (); hout.flush; return 0\n'
                      '  | ["lin"] => loop Drv.Lin.step hin hout (); hout.flush; return 0\n'
                      '  | ["crash"] => loop Drv.Crash.step hin hout (); hout.flush; return 0\n', 1)
    return s

def zanverif(s):
    for m in ['ZanVerif.Node.CrashCert', 'ZanVerif.Node.LinCert', 'ZanVerif.Node.LinSpec']:
        if 'import ' + m + '\n' not in s:
            s = s.replace('import ZanVerif.Node.Lin\n', 'import ZanVerif.Node.Lin\nimport ' + m + '\n', 1)
    return s

edit('harness/cmd/zvh/main.go', main_go)
edit('bin/check', check)
edit('lean/Driver/Main.lean', main_lean)
edit('lean/ZanVerif.lean', zanverif)
